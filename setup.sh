#!/bin/sh
# Builds the overlay interpreter /verif/.venv offline (python 3.12 from /venv + z3/cvc5/jsonschema wheels).
set -e
cd "$(dirname "$0")"
if [ -x .venv/bin/python ] && .venv/bin/python -c "import z3, jsonschema, polars, sqlalchemy" 2>/dev/null; then
  exit 0
fi
rm -rf .venv
/venv/bin/python -m venv .venv
PIP_NO_INDEX=1 .venv/bin/python -m pip install -q --no-index --find-links /opt/veriftools/wheels z3-solver cvc5 jsonschema >/dev/null
SP=$(.venv/bin/python -c "import sysconfig; print(sysconfig.get_paths()['purelib'])")
echo "import site; site.addsitedir('/venv/lib/python3.12/site-packages')" > "$SP/zz_overlay.pth"
.venv/bin/python -c "import z3, jsonschema, polars, sqlalchemy, pydiverse.transform; print('overlay venv ok', z3.get_version_string())"
