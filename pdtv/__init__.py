"""pdtv - contract checker for pydiverse.transform (see /verif/DESIGN.md).

Symbolic execution of the *real* function objects / real source ASTs of /repo
with z3-backed proxy values; every obligation is a verification condition
discharged by z3 (cvc5 as second opinion).
"""
