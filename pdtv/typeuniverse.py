"""The finite type universe used by the type-level obligations (C13, C17, C12).

Every type constructor of pydiverse.common appears, plain and const.  Parametric
constructors are represented by *region representatives*: a set of parameter values
that realises every outcome of the comparisons the type checker performs on parameters
(== Decimal(), scale >=, precision-scale >=, max_length None / < / = / >, Enum
category lists equal / different, List nesting).  This is a bound on the parameter
space and is reported as such; constructors and const-ness are covered exhaustively.
"""

from __future__ import annotations

from pydiverse.common import (
    Bool,
    Date,
    Datetime,
    Decimal,
    Duration,
    Enum,
    Float,
    Float32,
    Float64,
    Int,
    Int8,
    Int16,
    Int32,
    Int64,
    List,
    NullType,
    String,
    Time,
    UInt8,
    UInt16,
    UInt32,
    UInt64,
)

from . import harness as H

T = H.types_mod

SIZED_INTS = [Int8(), Int16(), Int32(), Int64(), UInt8(), UInt16(), UInt32(), UInt64()]
SIZED_FLOATS = [Float32(), Float64(), Decimal(), Decimal(10, 2), Decimal(38, 10), Decimal(12, 6), Decimal(5, 2), Decimal(40, 2)]
STRINGS = [String(), String(5), String(10), Enum("a", "b"), Enum("x", "yz", "w")]
OTHERS = [Bool(), Date(), Datetime(), Time(), Duration(), NullType()]
LISTS = [List(Int64()), List(String()), List(NullType()), List(List(Int64())), List(Float64())]

BASE = [Int(), *SIZED_INTS, Float(), *SIZED_FLOATS, *STRINGS, *OTHERS, *LISTS]
UNIVERSE = BASE + [T.Const(t) for t in BASE]

BOUND_TEXT = (
    "type parameters are sampled by region representatives: Decimal(p,s) in {(31,11)=Decimal(), (10,2), (38,10), (12,6), (5,2), (40,2)}, "
    "String max_length in {None, 5, 10}, two Enum category lists, List nesting depth <= 2; all constructors x const are covered"
)


def family(t):
    t = T.without_const(t)
    if isinstance(t, List):
        return "list"
    if isinstance(t, T.Tyvar):
        return "tyvar"
    if t.is_int():
        return "int"
    if t.is_float():
        return "float"
    if isinstance(t, String):
        return "string"
    return type(t).__name__.lower()


def has_tyvar(t):
    t = T.without_const(t)
    if isinstance(t, List):
        return has_tyvar(t.inner)
    return isinstance(t, T.Tyvar)


def is_null_typed(t):
    t = T.without_const(t)
    if isinstance(t, List):
        return is_null_typed(t.inner)
    return isinstance(t, NullType)


def core_types(op):
    """types that occur in the declared signatures of op (generic ones also as Int64 / Float64), plain and
    const, plus the null type"""
    out = []
    for sig in op.signatures:
        for p in sig.types:
            b = T.without_const(p)
            if isinstance(b, T.Tyvar):
                cands = [Int64(), String(), Float64()]
            elif type(b) is Int:
                cands = [Int(), Int64(), Int8()]
            elif type(b) is Float:
                cands = [Float(), Float64(), Decimal(10, 2)]
            else:
                cands = [b]
            for c in cands:
                if not any(c == o and type(c) is type(o) for o in out):
                    out.append(c)
    out.append(NullType())
    return out + [T.Const(t) for t in out]


def arities(op):
    res = set()
    for s in op.signatures:
        n = len(s.types)
        if s.is_vararg:
            res.update(range(max(n - 1, 1), n + 2))
        else:
            res.add(n)
    return sorted(res)


def tuples_for(op, tier):
    """argument type tuples enumerated for op"""
    import itertools

    U = UNIVERSE
    core = core_types(op)
    for n in arities(op):
        if n == 0:
            yield ()
        elif n <= 2 or (n == 3 and tier == "thorough"):
            yield from itertools.product(U, repeat=n)
        elif n == 3:
            seen = set()
            for i, j in ((0, 1), (0, 2), (1, 2)):
                k = ({0, 1, 2} - {i, j}).pop()
                for a in U:
                    for b in U:
                        for c in core:
                            t = [None] * 3
                            t[i], t[j], t[k] = a, b, c
                            key = tuple(id(x) for x in t)
                            if key not in seen:
                                seen.add(key)
                                yield tuple(t)
        else:
            seen = set()
            for i in range(n):
                for a in U:
                    for rest in itertools.product(core, repeat=n - 1):
                        t = list(rest[:i]) + [a] + list(rest[i:])
                        key = tuple(id(x) for x in t)
                        if key not in seen:
                            seen.add(key)
                            yield tuple(t)
