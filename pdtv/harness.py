"""Access to the real code of /repo: imports, patching of library names by the models,
construction of real expression trees with symbolic leaves, source extraction."""

from __future__ import annotations

import ast
import contextlib
import hashlib
import inspect
import math as _real_math
import os
import sys
import textwrap
import uuid as _uuid

import z3

REPO = os.environ.get("PDTV_REPO", "/repo")
_src = os.path.join(REPO, "src")
if sys.path[0] != _src:
    sys.path.insert(0, _src)

import pydiverse.transform as pdt  # noqa: E402
from pydiverse.common import Dtype  # noqa: E402
from pydiverse.transform._internal.backend import polars as polars_backend  # noqa: E402
from pydiverse.transform._internal.backend import sql as sql_backend  # noqa: E402
from pydiverse.transform._internal.backend import sqlite as sqlite_backend  # noqa: E402
from pydiverse.transform._internal.backend import table_impl as table_impl_mod  # noqa: E402
from pydiverse.transform._internal.ops import ops  # noqa: E402
from pydiverse.transform._internal.ops.op import Ftype, Operator  # noqa: E402
from pydiverse.transform._internal.tree import col_expr as col_expr_mod  # noqa: E402
from pydiverse.transform._internal.tree import types as types_mod  # noqa: E402
from pydiverse.transform._internal.tree.col_expr import Col, ColFn, LiteralCol  # noqa: E402

from . import nv as N  # noqa: E402
from . import plmodel, sqlmodel  # noqa: E402
from .core import Sym, Unsupported  # noqa: E402

assert os.path.realpath(pdt.__file__).startswith(os.path.realpath(_src)), (pdt.__file__, _src)

ALL_OPS = {n: o for n, o in vars(ops).items() if isinstance(o, Operator)}
OP_NAME = {id(o): n for n, o in ALL_OPS.items()}


class _MathModel:
    """`math` as seen by backend/sql.py: symbolic floats are finite reals (A-math)"""

    def __getattr__(self, n):
        return getattr(_real_math, n)

    @staticmethod
    def isnan(x):
        return False if isinstance(x, Sym) else _real_math.isnan(x)

    @staticmethod
    def isinf(x):
        return False if isinstance(x, Sym) else _real_math.isinf(x)


@contextlib.contextmanager
def patched():
    """bind the library models to the names `pl` / `sqa` in the real backend modules"""
    saved = [
        (polars_backend, "pl", polars_backend.pl),
        (sql_backend, "sqa", sql_backend.sqa),
        (sql_backend, "math", sql_backend.math),
        (sqlite_backend, "sqa", sqlite_backend.sqa),
    ]
    polars_backend.pl = plmodel
    sql_backend.sqa = sqlmodel
    sql_backend.math = _MathModel()
    sqlite_backend.sqa = sqlmodel
    try:
        yield
    finally:
        for m, n, v in saved:
            setattr(m, n, v)


# ---------------------------------------------------------------------------------
# sorts of pdt dtypes


def sort_of_dtype(dt: Dtype):
    dt = types_mod.without_const(dt)
    if dt.is_int():
        return N.INT
    if dt.is_float():
        return N.REAL
    name = type(dt).__name__
    if name == "Bool":
        return N.BOOL
    if name in ("String", "Enum"):
        return N.STR
    if name in ("Date", "Datetime", "Time", "Duration"):
        return N.INT
    if name == "NullType":
        return None
    raise Unsupported(f"no value sort for dtype {dt}")


class _Leaf:
    """stand-in for the AstNode a Col belongs to (only .name is ever read)"""

    name = "t"


_LEAF = _Leaf()


class SymCol:
    """a real Col of the given dtype plus its nullable value on the generic row"""

    def __init__(self, name, dtype, nullable=True):
        self.name = name
        self.dtype = dtype
        s = sort_of_dtype(dtype)
        if s is None:
            self.nv = N.null_of(N.INT)
        else:
            self.nv = N.NV(z3.Bool(f"{name}_null") if nullable else z3.BoolVal(False), z3.Const(f"{name}_val", s))
        if s == N.REAL:
            N._domain_facts.append(z3.And(self.nv.val != N.INF, self.nv.val != -N.INF))
        self.col = Col(name, _LEAF, _uuid.uuid1(), dtype, Ftype.ELEMENT_WISE)


def compile_polars(expr, cols: list[SymCol], op_kwargs=None):
    plmodel.ENV.clear()
    for c in cols:
        plmodel.ENV[c.name] = plmodel.PlExpr(c.nv, "row", ("col", c.name), c.dtype.to_polars() if sort_of_dtype(c.dtype) is not None else None)
    name_in_df = {c.col._uuid: c.name for c in cols}
    return polars_backend.compile_col_expr(expr, name_in_df, op_kwargs)


def compile_sqlite(expr, cols: list[SymCol]):
    impl = sqlite_backend.SqliteImpl
    sqa_expr = {
        c.col._uuid: sqlmodel.label(c.name, sqlmodel.column(c.name, c.nv, impl.sqa_type(types_mod.without_const(c.dtype))))
        for c in cols
    }
    return impl.compile_col_expr(expr, sqa_expr)


# ---------------------------------------------------------------------------------
# source extraction (evidence: which text was verified)


def fn_info(fn):
    """qualified name, file, line span and sha256 of a real function object"""
    fn = inspect.unwrap(fn)
    if isinstance(fn, (staticmethod, classmethod)):
        fn = fn.__func__
    try:
        src, start = inspect.getsourcelines(fn)
        file = inspect.getsourcefile(fn)
    except (OSError, TypeError):
        return {"name": getattr(fn, "__qualname__", repr(fn)), "file": None}
    text = "".join(src)
    return {
        "name": f"{fn.__module__}.{fn.__qualname__}",
        "file": os.path.relpath(file, REPO) if file.startswith(REPO) else file,
        "lines": [start, start + len(src) - 1],
        "sha256": hashlib.sha256(text.encode()).hexdigest()[:16],
    }


def impl_function(backend_cls, op, sig):
    """the real @impl function object registered for (op, sig) on backend_cls, following
    the same fallback chain as TableImpl.get_impl (re-implemented only to *name* the
    function for the evidence; execution always goes through the real get_impl)"""
    cls = backend_cls
    while True:
        store = cls.impl_store
        best = None
        if (trie := store.impl_trie.get(op)) is not None:
            m = trie.best_match(sig)
            if m is not None:
                best = m[1]
        if best is None:
            best = store.default_impl.get(op)
        if best is not None:
            return best
        if cls is table_impl_mod.TableImpl:
            return None
        cls = cls.__bases__[0]


def function_ast(fn):
    fn = inspect.unwrap(fn)
    src = textwrap.dedent(inspect.getsource(fn))
    return ast.parse(src).body[0]
