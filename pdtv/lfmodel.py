"""Structural model of polars.LazyFrame for the table-level obligations.

A frame is an ordered mapping physical column name -> *data token* plus the history of
row-level operations.  A data token identifies what a column holds: ("src", id) for a
source column, otherwise the operator tree of the expression with column references
resolved to the tokens they had when the expression was evaluated.  Column names may be
symbolic (symname.SymName); every lookup then explores the aliasing cases.

Errors polars raises at execution (unknown column, duplicate output name) are raised
here at call time as plmodel.PolarsError - the obligation treats them as "the pipeline
fails on Polars".  Assumed contracts (T-lib): rename is simultaneous and only relabels;
with_columns / select evaluate every expression against the input frame; filter / sort /
slice / group_by / join do not touch column data of the surviving rows.
"""

from __future__ import annotations

from . import plmodel
from .core import Unsupported
from .plmodel import PlExpr, PolarsError


def _resolve(node, cols):
    if isinstance(node, tuple):
        if len(node) == 2 and node[0] == "col":
            name = node[1]
            if name not in cols:
                raise PolarsError(f"ColumnNotFoundError: {name!r} not in frame {list(cols)}")
            return cols[name]
        return tuple(_resolve(x, cols) for x in node)
    return node


def _out_name(e: PlExpr):
    n = e.node
    if n[0] == "alias":
        return n[2]
    if n[0] == "col":
        return n[1]
    raise Unsupported(f"output name of expression {n}")


def _strip_alias(node):
    return node[1] if isinstance(node, tuple) and node and node[0] == "alias" else node


class LF:
    def __init__(self, cols, hist=()):
        self.cols = dict(cols)
        self.hist = tuple(hist)

    def __repr__(self):
        return f"LF(cols={list(self.cols)}, hist={len(self.hist)} ops)"

    # -- helpers -------------------------------------------------------------------
    def _exprs(self, exprs, named):
        out = []
        for e in exprs:
            if isinstance(e, PlExpr):
                out.append((_out_name(e), e))
            elif isinstance(e, str):
                out.append((e, plmodel.PlExpr(None, "row", ("col", e)) if False else _colref(e)))
            elif isinstance(e, (list, tuple)) or hasattr(e, "__next__"):
                out.extend(self._exprs(list(e), {}))
            else:
                raise Unsupported(f"frame expression {e!r}")
        for k, v in named.items():
            if not isinstance(v, PlExpr):
                v = plmodel.lit(v)
            out.append((k, v))
        return out

    # -- API -----------------------------------------------------------------------
    def rename(self, mapping, strict=True):
        for old in mapping:
            if old not in self.cols:
                raise PolarsError(f"ColumnNotFoundError: cannot rename {old!r}: not in frame")
        new = {}
        for name, tok in self.cols.items():
            nn = mapping[name] if name in mapping else name
            if nn in new:
                raise PolarsError(f"DuplicateError: column {nn!r} would occur twice after rename")
            new[nn] = tok
        return LF(new, self.hist)  # a relabelling, not a row operation

    def with_columns(self, *exprs, **named):
        items = self._exprs(exprs, named)
        new = dict(self.cols)
        produced = {}
        for name, e in items:
            if name in produced:
                raise PolarsError(f"DuplicateError: the name {name!r} is produced twice by with_columns")
            produced[name] = _resolve(_strip_alias(e.node), self.cols)
        for name, tok in produced.items():
            new[name] = tok
        return LF(new, self.hist)

    def select(self, *exprs, **named):
        items = self._exprs(exprs, named)
        new = {}
        for name, e in items:
            if name in new:
                raise PolarsError(f"DuplicateError: the name {name!r} is selected twice")
            new[name] = _resolve(_strip_alias(e.node), self.cols)
        return LF(new, self.hist + (("select",),) if any(_is_agg(e) for _, e in items) else self.hist)

    def filter(self, *preds, **kw):
        ps = [e for _, e in self._exprs_noname(preds)]
        return LF(self.cols, self.hist + (("filter", tuple(_resolve(p.node, self.cols) for p in ps)),))

    def _exprs_noname(self, exprs):
        out = []
        for e in exprs:
            if isinstance(e, PlExpr):
                out.append((None, e))
            elif isinstance(e, (list, tuple)) or hasattr(e, "__next__"):
                out.extend(self._exprs_noname(list(e)))
            elif isinstance(e, str):
                out.append((None, _colref(e)))
            else:
                raise Unsupported(f"frame expression {e!r}")
        return out

    def sort(self, by, *more, descending=False, nulls_last=False, maintain_order=False, **kw):
        keys = [e for _, e in self._exprs_noname([by, *more])]
        return LF(self.cols, self.hist + (("sort", tuple(_resolve(k.node, self.cols) for k in keys), _tup(descending), _tup(nulls_last), maintain_order),))

    def slice(self, offset, length=None):
        return LF(self.cols, self.hist + (("slice", plmodel._node_of(offset), plmodel._node_of(length)),))

    def group_by(self, *by, **kw):
        names = []
        for b in by:
            names.extend(b if isinstance(b, (list, tuple)) else [b])
        for n in names:
            if n not in self.cols:
                raise PolarsError(f"ColumnNotFoundError: group key {n!r}")
        return _GroupBy(self, names)

    def join(self, other, on=None, how="inner", *, left_on=None, right_on=None, suffix="_right", validate="m:m", coalesce=None, **kw):
        new = dict(self.cols)
        for name, tok in other.cols.items():
            if on is not None:
                break
            if name in new:
                # polars keeps both columns and appends the suffix to the right one
                name = name + suffix
                if name in new:
                    raise PolarsError(f"DuplicateError: column {name!r} already exists after suffixing the right join column")
            new[name] = tok
        if on is not None:
            if not isinstance(on, str) or on not in self.cols or on not in other.cols:
                raise Unsupported("join(on=...) in the frame model")
            new = dict(self.cols)
            for name, tok in other.cols.items():
                if name == on:
                    continue  # the key column is coalesced
                if name in new:
                    name = name + suffix
                    if name in new:
                        raise PolarsError(f"DuplicateError: column {name!r} already exists after suffixing the right join column")
                new[name] = tok
            return LF(new, self.hist + (("join_on", how, on, other.hist),))
        lo = tuple(_resolve(e.node, self.cols) for _, e in self._exprs_noname(left_on or []))
        ro = tuple(_resolve(e.node, other.cols) for _, e in self._exprs_noname(right_on or []))
        return LF(new, self.hist + (("join", how, lo, ro, validate, coalesce, other.hist),))

    def join_where(self, other, *preds, **kw):
        new = dict(self.cols)
        for name, tok in other.cols.items():
            if name in new:
                raise PolarsError(f"DuplicateError: column {name!r} exists on both sides of join_where")
            new[name] = tok
        ps = tuple(_resolve(e.node, new) for _, e in self._exprs_noname(preds))
        return LF(new, self.hist + (("join_where", ps, other.hist),))

    def drop(self, *names, **kw):
        new = dict(self.cols)
        for n in names:
            if n not in new:
                raise PolarsError(f"ColumnNotFoundError: drop {n!r}")
            del new[n]
        return LF(new, self.hist)

    def unique(self, **kw):
        return LF(self.cols, self.hist + (("unique",),))

    def clone(self):
        return LF(self.cols, self.hist)

    def lazy(self):
        return self

    def collect(self, **kw):
        raise Unsupported("collect() of a model frame")

    def collect_schema(self):
        # the model frame carries no column types: every pre-state column of the step harness has the same type (Int64, see the
        # carve-outs of the obligations that use it), so two schemas are equal iff they list the same names in the same order
        return _Schema(tuple(self.cols))

    def cast(self, dtypes, *a, **kw):
        # all model columns have one type (see collect_schema), so a cast of named columns changes no value; polars rejects
        # names that are not columns of the frame
        if not isinstance(dtypes, dict):
            raise Unsupported("cast(<single dtype>) of a model frame")
        for name in dtypes:
            if name not in self.cols:
                raise PolarsError(f"ColumnNotFoundError: cast of {name!r}: not in frame")
        return LF(self.cols, self.hist)


class _Schema:
    def __init__(self, names):
        self._names = names

    def names(self):
        return list(self._names)

    def __iter__(self):
        return iter(self._names)

    def __len__(self):
        return len(self._names)

    def __contains__(self, n):
        return n in self._names

    def __eq__(self, other):
        return isinstance(other, _Schema) and self._names == other._names

    def __ne__(self, other):
        return not self.__eq__(other)

    __hash__ = None


def _tup(x):
    return tuple(x) if isinstance(x, (list, tuple)) else x


def _colref(name):
    import z3

    from . import nv as N

    return PlExpr(N.NV(False, z3.FreshConst(z3.IntSort(), "colref")), "row", ("col", name))


def _is_agg(e):
    return isinstance(e, PlExpr) and e.kind == "agg"


class _GroupBy:
    def __init__(self, lf, names):
        self.lf = lf
        self.names = names

    def agg(self, *exprs, **named):
        items = self.lf._exprs(exprs, named)
        new = {}
        for n in self.names:
            if n in new:
                raise PolarsError(f"DuplicateError: group key {n!r} given twice")
            new[n] = self.lf.cols[n]
        for name, e in items:
            if name in new:
                raise PolarsError(f"DuplicateError: aggregate output {name!r} collides with a group key or another aggregate")
            new[name] = _resolve(_strip_alias(e.node), self.lf.cols)
        return LF(new, self.lf.hist + (("group_by", tuple(self.lf.cols[n] for n in self.names)),))


def union(frames, distinct=False, **kw):
    a, b = frames
    if list(a.cols) != list(b.cols):
        # names may be symbolic: compare pairwise (forks)
        if len(a.cols) != len(b.cols) or any(not (x == y) for x, y in zip(a.cols, b.cols)):
            raise PolarsError("SchemaError: union of frames with different columns")
    return LF({n: ("union", a.cols[n], tb) for n, tb in zip(a.cols, b.cols.values())}, (("union", distinct, a.hist, b.hist),))


def concat(frames, **kw):
    r = union(frames, distinct=False)
    return LF(r.cols, (("concat", r.hist[0][2], r.hist[0][3]),))
