"""C20 - all export targets describe the same table.

  X1  (static contract on the real `export` verb) every non-frame target (Scalar, Dict, DictOfLists, ListOfDicts) has a
      branch that evaluates `table >> export(Polars())`; ColExpr.export obtains its frame from
      get_expr_as_table(expr) >> export.  (A stricter syntactic contract - the returned value reads nothing but that
      frame - was removed: it flagged code that takes the names from the table's metadata, which is equivalent under
      C09/C11, i.e. it demanded more than the property states.)
  X2  (bounded, native) for every pipeline of the C01 step alphabet up to depth 2 (plus null-only / single-cell /
      empty-result shapes) on Polars and SQLite: Polars(lazy=True) collected == Polars(); Pandas, DictOfLists,
      ListOfDicts, Dict, Scalar agree with the frame in names, order and values (guards raise TypeError exactly when
      documented); ColExpr.export of every visible column and of an expression over them agrees with the frame
  X3  (bounded, native) Table(exported frame) >> export reproduces data and column types; collect() likewise
"""

from __future__ import annotations

import ast
import inspect
import itertools
import math
import textwrap
import warnings

from .. import harness as H
from .. import pipelines as P
from ..oblig import Obligation
from .c13 import _enum_outcome

pdt = H.pdt
V = pdt._internal.pipe.verbs
CE = H.col_expr_mod


def x1_run(carve):
    n, bad = 0, []
    src = textwrap.dedent(inspect.getsource(V.export.__wrapped__ if hasattr(V.export, "__wrapped__") else V.export))
    fn = next(x for x in ast.walk(ast.parse(src)) if isinstance(x, ast.FunctionDef) and x.name == "export")

    def is_frame_export(node):
        s = ast.unparse(node).replace(" ", "")
        return s in ("table>>export(Polars())", "table>>export(Polars)")

    branches = {}
    for node in ast.walk(fn):
        if isinstance(node, ast.If) and isinstance(node.test, ast.Call) and getattr(node.test.func, "id", "") == "isinstance" and ast.unparse(node.test.args[0]) == "target":
            names = [x.id for x in ast.walk(node.test.args[1]) if isinstance(x, ast.Name)]
            for nm in names:
                branches[nm] = node.body
    for tgt in ("Scalar", "Dict", "DictOfLists", "ListOfDicts"):
        n += 1
        body = branches.get(tgt)
        if body is None:
            bad.append(f"export has no branch for the target {tgt}")
            continue
        mod = ast.Module(body=body, type_ignores=[])
        frames = [x for x in ast.walk(mod) if isinstance(x, ast.BinOp) and is_frame_export(x)]
        if len(frames) < 1:
            bad.append(f"target {tgt}: the branch never evaluates `table >> export(Polars())` (its value cannot describe the exported frame)")
    # ColExpr.export
    n += 1
    src2 = textwrap.dedent(inspect.getsource(CE.ColExpr.export))
    f2 = next(x for x in ast.walk(ast.parse(src2)) if isinstance(x, ast.FunctionDef))
    assigns = [x for x in ast.walk(f2) if isinstance(x, ast.Assign) and ast.unparse(x.targets[0]) == "df"]
    if not assigns or ast.unparse(assigns[0].value).replace(" ", "") != "get_expr_as_table(self)>>export(target)":
        bad.append("ColExpr.export does not obtain its frame from get_expr_as_table(self) >> export(target)")
    return _enum_outcome("every non-frame target has a branch that evaluates `table >> export(Polars())`; ColExpr.export goes through get_expr_as_table", n, bad)


def _same(a, b):
    if a is None or b is None:
        return a is None and b is None
    if isinstance(a, float) and isinstance(b, float):
        return (math.isnan(a) and math.isnan(b)) or a == b
    return a == b and (isinstance(a, bool) == isinstance(b, bool))


def _key(r):
    return tuple((v is None, type(v).__name__, str(v)) for v in r)


def _rows_same(r1, r2, ordered=True):
    if not ordered:
        r1, r2 = sorted(r1, key=_key), sorted(r2, key=_key)
    return len(r1) == len(r2) and all(len(x) == len(y) and all(_same(p, q) for p, q in zip(x, y)) for x, y in zip(r1, r2))


def x3_run(carve):
    """a table that other tables were derived from still exports the same way on every target - also an expression export
    (`col.export`) of an aggregate over a grouped table after `group_by(.., add=True)` / `ungroup` / `mutate` were applied to it"""
    import polars as pl
    import sqlalchemy as sqa

    from .c13 import _enum_outcome

    df = pl.DataFrame({"a": [1, 1, 2, 2, 3, 3], "b": ["x", "y", "x", "y", "x", "x"], "v": [5, 2, 5, 40, 16, 40]})
    eng = sqa.create_engine("sqlite://")
    df.write_database("t", eng)
    n, bad = 0, []
    with warnings.catch_warnings():
        warnings.simplefilter("ignore")
        for be in ("polars", "sqlite"):
            t = pdt.Table(df, name="t") if be == "polars" else pdt.Table("t", pdt.SqlAlchemy(eng))
            tg = t >> pdt.group_by(t.a)

            def snap():
                m = tg >> pdt.mutate(x=tg.v.sum()) >> pdt.ungroup() >> pdt.arrange(t.a, t.b, t.v) >> pdt.export(pdt.Polars())
                e = sorted(tg.v.sum().export(pdt.Polars()).to_list())
                s_ = tg >> pdt.summarize(x=tg.v.sum()) >> pdt.arrange(t.a) >> pdt.export(pdt.DictOfLists())
                return m["x"].to_list(), e, s_

            before = snap()
            derivations = {
                "group_by(b, add=True)": lambda: tg >> pdt.group_by(t.b, add=True), "ungroup": lambda: tg >> pdt.ungroup(), "mutate": lambda: tg >> pdt.mutate(v=t.v * 2),
                "group_by(b, add=True) >> summarize": lambda: tg >> pdt.group_by(t.b, add=True) >> pdt.summarize(n=pdt.count()), "rename": lambda: tg >> pdt.rename({"v": "w"}), "select": lambda: tg >> pdt.select(t.a),
            }
            for label, mk in derivations.items():
                n += 1
                try:
                    mk() >> pdt.export(pdt.Polars())
                    after = snap()
                except Exception as e:  # noqa: BLE001
                    bad.append(f"[{be}] after deriving `{label}` from the grouped table: {type(e).__name__}: {str(e)[:100]}")
                    continue
                if after != before:
                    bad.append(f"[{be}] after deriving `{label}` from the grouped table tg, tg >> mutate(x=v.sum()) / tg.v.sum().export / tg >> summarize give {after}; before: {before}")
                if sorted(before[0]) != before[1]:
                    bad.append(f"[{be}] tg.v.sum().export(Polars()) = {before[1]} differs from the column mutate computes: {sorted(before[0])}")
    return _enum_outcome("exports of a table (all targets, expression export) are unaffected by tables derived from it", n, bad)


def extra_shapes():
    """final steps that produce null-only columns, single-cell and empty results"""
    C = pdt.C
    mk = P.Step
    return [
        mk("mutate(null-only)", lambda x, c: x >> pdt.mutate(z=pdt.lit(None), y=pdt.when(pdt.lit(False)).then(x.h).otherwise(None)), "keep", ("h",), False, False),
        mk("single-cell", lambda x, c: x >> pdt.summarize(n=pdt.count()), "destroy", (), False, False),
        mk("single-cell-null", lambda x, c: x >> pdt.filter(x.h < 0) >> pdt.summarize(m=x.h.max()), "destroy", ("h",), False, False),
        mk("empty-result", lambda x, c: x >> pdt.filter(x.h < 0), "keep", ("h",), False, False),
        mk("one-row", lambda x, c: x >> pdt.filter(x.h == 1), "keep", ("h",), False, False),
        mk("one-col", lambda x, c: x >> pdt.select(x.h), "keep", ("h",), False, False),
    ]


def check_targets(x, lab, bad, backend, ordered=True, loose=False, origin=None):
    import polars as pl

    def RS(r1, r2):
        # each target evaluates the pipeline again: the row order is comparable only when an arrange fixes it, and a
        # slice_head under an unspecified order may select other rows (only the row count is comparable then)
        if loose:
            return len(r1) == len(r2)
        return _rows_same(r1, r2, ordered)

    # ColExpr.export of aggregate / window expressions must see the table's grouping (it equals the mutate column)
    num = next((c for c in x if H.types_mod.without_const(c.dtype()) in (pdt.Int64(), pdt.Float64())), None)
    if num is not None and not loose:
        for ename, mk in (("sum", lambda: num.sum()), ("count", lambda: num.count()), ("expr", lambda: num.max() - num), ("plain_expr", lambda: num * 2 + 1)):
            try:
                want = (x >> pdt.mutate(zz__=mk()) >> pdt.ungroup() >> pdt.export(pdt.Polars()))["zz__"]
                got = mk().export(pdt.Polars())
            except (pdt.errors.SubqueryError, pdt.errors.NotSupportedError):
                continue
            if got.dtype != want.dtype or not _rows_same([(v,) for v in got.to_list()], [(v,) for v in want.to_list()], ordered and backend == "polars"):
                bad.append(f"{lab}: ({num.name}.{ename}).export(Polars()) = {got.dtype} {got.to_list()[:6]} differs from the column mutate computes: {want.dtype} {want.to_list()[:6]}")
    x = x >> pdt.ungroup()
    base = x >> pdt.export(pdt.Polars())
    if not isinstance(base, pl.DataFrame):
        bad.append(f"{lab}: export(Polars()) returns {type(base).__name__}")
        return
    names = [c.name for c in x]
    if base.columns != names:
        bad.append(f"{lab}: frame columns {base.columns} differ from the table's columns {names}")
    # schema_overrides: the requested type of a column is the type of that column in the exported frame, on every target
    # (implemented for the SQL backends; the Polars backend documents it as not yet used)
    if backend == "sqlite":
        icols = [c for c in names if base.schema[c] == pl.Int64]
        if icols:
            ov = {icols[-1]: pl.Float64}
            try:
                for tname, tgt in (("Polars()", pdt.Polars()), ("Polars(lazy=True)", pdt.Polars(lazy=True))):
                    o = x >> pdt.export(tgt, schema_overrides=ov)
                    sch = o.collect_schema() if isinstance(o, pl.LazyFrame) else o.schema
                    if sch[icols[-1]] != pl.Float64 or list(sch.names()) != names:
                        bad.append(f"{lab}: export({tname}, schema_overrides={{{icols[-1]!r}: Float64}}) gives column type {sch[icols[-1]]} (columns {list(sch.names())})")
            except (pdt.errors.SubqueryError, pdt.errors.NotSupportedError):
                pass
    # lazy
    lz = x >> pdt.export(pdt.Polars(lazy=True))
    if not isinstance(lz, pl.LazyFrame):
        bad.append(f"{lab}: export(Polars(lazy=True)) returns {type(lz).__name__}, not a LazyFrame")
        lzc = lz
    else:
        lzc = lz.collect()
    if (not loose and lzc.schema != base.schema) or not RS(lzc.rows(), base.rows()):
        bad.append(f"{lab}: Polars(lazy=True).collect() differs from Polars(): {lzc.schema} {lzc.rows()[:3]} vs {base.schema} {base.rows()[:3]}")
    # pandas
    try:
        pd_ = x >> pdt.export(pdt.Pandas())
        if list(pd_.columns) != base.columns:
            bad.append(f"{lab}: Pandas columns {list(pd_.columns)} != {base.columns}")
        back = pl.from_pandas(pd_)
        r1 = [tuple(None if (isinstance(v, float) and math.isnan(v)) else v for v in r) for r in back.rows()]
        r2 = [tuple(None if (isinstance(v, float) and math.isnan(v)) else v for v in r) for r in base.rows()]
        if not RS(r1, r2):
            bad.append(f"{lab}: Pandas values differ from the frame: {r1[:3]} vs {r2[:3]}")
    except pdt.errors.NotSupportedError:
        pass
    # dict of lists / list of dicts
    dol = x >> pdt.export(pdt.DictOfLists())
    if list(dol.keys()) != base.columns or not RS(list(zip(*[dol[c] for c in base.columns])) if base.width else [], base.rows()):
        bad.append(f"{lab}: DictOfLists differs from the frame: {dol}")
    lod = x >> pdt.export(pdt.ListOfDicts())
    if len(lod) != base.height or any(list(d.keys()) != base.columns for d in lod) or not RS([tuple(d.values()) for d in lod], base.rows()):
        bad.append(f"{lab}: ListOfDicts differs from the frame: {lod[:3]}")
    # Dict
    try:
        d = x >> pdt.export(pdt.Dict())
        if base.height != 1:
            bad.append(f"{lab}: Dict accepted a table with {base.height} rows")
        elif list(d.keys()) != base.columns or not RS([tuple(d.values())], base.rows()):
            bad.append(f"{lab}: Dict {d} differs from the frame row {base.rows()[0]} / columns {base.columns}")
    except TypeError:
        if base.height == 1:
            bad.append(f"{lab}: Dict refused a one-row table")
    try:
        s = x >> pdt.export(pdt.Scalar())
        if base.height != 1 or base.width != 1:
            bad.append(f"{lab}: Scalar accepted a {base.height}x{base.width} table")
        elif not _same(s, base.rows()[0][0]):
            bad.append(f"{lab}: Scalar {s!r} differs from the single cell {base.rows()[0][0]!r}")
    except TypeError:
        if base.height == 1 and base.width == 1:
            bad.append(f"{lab}: Scalar refused a single-cell table")
    # ColExpr.export of each visible column, and of an expression
    for col in list(x)[:4]:
        try:
            ser = col.export(pdt.Polars())
        except (pdt.errors.SubqueryError, pdt.errors.NotSupportedError):
            continue
        want = base[col.name]
        got, exp = ser.to_list(), want.to_list()
        if (not loose and ser.dtype != want.dtype) or not RS([(v,) for v in got], [(v,) for v in exp]):  # under an unspecified slice other rows (e.g. only nulls) may be selected
            bad.append(f"{lab}: {col.name}.export(Polars()) = {ser.dtype} {got[:4]} differs from the frame column {want.dtype} {exp[:4]}")
        if ser.name != col.name:
            bad.append(f"{lab}: {col.name}.export(Polars()) is named {ser.name!r}")
        # the Pandas target of a column export: a Series (also for 0 / 1 rows) with the values of the Pandas table export
        try:
            import pandas as pd

            pser = col.export(pdt.Pandas())
            if not isinstance(pser, pd.Series):
                bad.append(f"{lab}: {col.name}.export(Pandas()) is a {type(pser).__name__}, not a pandas Series")
            else:
                pl_back = pl.from_pandas(pser.to_frame(name=col.name))[col.name].to_list() if len(pser) else []
                if len(pser) != len(exp) or (not loose and not RS([(v,) for v in pl_back], [(v,) for v in exp])):
                    bad.append(f"{lab}: {col.name}.export(Pandas()) has {len(pser)} values {pl_back[:4]}, the frame column has {len(exp)}: {exp[:4]}")
        except (pdt.errors.SubqueryError, pdt.errors.NotSupportedError):
            pass
        # the same column reached by indexing the derived table with the ORIGIN table's column object
        if origin is not None and col._uuid in origin._cache.cols:
            try:
                via = x[origin._cache.cols[col._uuid]]
                ser2 = via.export(pdt.Polars())
                if ser2.name != col.name or ser2.dtype != ser.dtype or not RS([(v,) for v in ser2.to_list()], [(v,) for v in exp]):
                    bad.append(f"{lab}: x[origin.{origin._cache.cols[col._uuid].name}].export(Polars()) = {ser2.name!r} {ser2.to_list()[:5]} differs from the column {col.name!r} of the exported frame {exp[:5]}")
            except (pdt.errors.SubqueryError, pdt.errors.NotSupportedError, pdt.errors.ColumnNotFoundError):
                pass
    # re-import
    re = pdt.Table(base, name="re")
    b2 = re >> pdt.export(pdt.Polars())
    if b2.schema != base.schema or not _rows_same(b2.rows(), base.rows()):  # same frame, same engine: exact
        bad.append(f"{lab}: Table(frame) >> export differs from the frame: {b2.schema} vs {base.schema}")
    for c in re:
        want = pdt.Table(base)[c.name].dtype()
        if H.Dtype.from_polars(base.schema[c.name]) != c.dtype():
            bad.append(f"{lab}: re-imported column {c.name} has type {c.dtype()}, the frame has {base.schema[c.name]}")
    if backend == "polars":
        for c in x:
            st = H.types_mod.without_const(c.dtype())
            if H.types_mod.is_subtype(st) and st != H.Dtype.from_polars(base.schema[c.name]) and not isinstance(st, H.NullType if hasattr(H, "NullType") else ()):
                pass  # exported-vs-static types are C12
    try:
        col_ = x >> pdt.collect()
        b3 = col_ >> pdt.export(pdt.Polars())
        if (not loose and b3.schema != base.schema) or not RS(b3.rows(), base.rows()) or [c.name for c in col_] != names:
            bad.append(f"{lab}: collect() >> export differs from export: {b3.schema} {b3.rows()[:3]} vs {base.schema} {base.rows()[:3]}")
    except (pdt.errors.SubqueryError, pdt.errors.NotSupportedError):
        pass


def make_x2(backend, kind, first):
    def run(carve):
        S = P.steps()
        n, bad = 0, []
        tails = [[]] + [[s] for s in S] + [[s] for s in extra_shapes()]
        with warnings.catch_warnings():
            warnings.simplefilter("ignore")
            for tail in tails:
                pipe = ([S[first]] if first is not None else []) + tail
                pl_ = P.plan(pipe)
                if pl_ is None:
                    continue
                ctx = P.Ctx(backend, kind)
                x = ctx.t
                ok = True
                for st in pipe:
                    if not P._has(x, *st.needs):
                        ok = False
                        break
                    try:
                        x = st.fn(x, ctx)
                    except Exception:  # noqa: BLE001  (rejections / refusals are C14 / C01)
                        ok = False
                        break
                    if x is None or any(uid not in x._cache.uuid_to_name for uid in x._cache.partition_by):
                        ok = False
                        break
                if not ok:
                    continue
                lab = f"[{backend},{kind}] " + " >> ".join(s.label for s in pipe)
                try:
                    x >> pdt.ungroup() >> pdt.export(pdt.Polars())
                except Exception:  # noqa: BLE001  (export failures are C01 / C14)
                    continue
                n += 1
                try:
                    check_targets(x, lab, bad, backend, ordered=pl_[0], loose=pl_[1], origin=ctx.t)
                except Exception as e:  # noqa: BLE001
                    bad.append(f"{lab}: a target raises {type(e).__name__}: {str(e)[:200]}")
        return _enum_outcome(f"[{backend},{kind}] all export targets / ColExpr.export / re-import agree with export(Polars()) for pipelines starting with {S[first].label if first is not None else '(source)'}", n, bad, allow_empty=True)

    return run


def obligations(tier):
    fi = H.fn_info
    import pydiverse.transform._internal.backend.polars as PB
    import pydiverse.transform._internal.backend.sql as SB

    fns = [fi(V.export), fi(CE.ColExpr.export), fi(CE.get_expr_as_table), fi(PB.PolarsImpl.export), fi(SB.SqlImpl.export), fi(V.collect)]
    obs = [Obligation("C20/X1/single_frame", "X1", "non-frame targets are functions of one exported frame", x1_run, functions=fns[:3])]
    obs.append(Obligation("C20/X3/exports_of_a_reused_table", "X3", "exports (table, expression, summarize) of a grouped table are unaffected by tables derived from it", x3_run, functions=fns[:2] + [fi(H.pdt._internal.pipe.cache.Cache.update)],
                          bounded="6 derivations x 2 backends on one 6-row table"))
    S = P.steps()
    kinds = ("mixed", "empty", "single") if tier == "quick" else ("mixed", "empty", "single", "tall")
    for be in ("polars", "sqlite"):
        for kind in kinds:
            for first in [None] + list(range(len(S))):
                lab = S[first].label if first is not None else "source"
                obs.append(Obligation(f"C20/X2/{be}/{kind}/{lab}", "X2", f"targets agree after {lab} >> (one more step), {be}, {kind} input", make_x2(be, kind, first), functions=fns,
                                      bounded=f"pipelines {lab} >> s for every step s of the alphabet and 6 extra result shapes (null-only, single-cell, empty, one-row, one-column); input `{kind}`; backend {be}"))
    return obs


DESIGN_REF = "DESIGN.md §5.20"
ASSUMPTIONS = [
    "X1 is a static contract on the source of the export verb: it decides that each non-frame target is a function of one exported frame for every input; the converters themselves (DataFrame.item / to_dicts / to_dict / to_pandas) are polars library functions (trusted)",
    "X2/X3 execute real pipelines (bounded: step alphabet, depth <= 2, four input tables, two backends)",
    "SQL ColExpr.export is compared as a multiset (row order of a SQL result without ORDER BY is unspecified)",
]
LEVEL = "other"
EXPLANATION = "Static single-frame contract on the export verb plus a bounded native comparison of every export target, ColExpr.export, re-import and collect() against export(Polars()) over enumerated pipelines on Polars and SQLite."
