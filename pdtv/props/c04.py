"""C04 - summarize and aggregate functions: one row per group, nulls ignored.

A1: per aggregate x backend x context (grouped / ungrouped summarize, window use in mutate
with partition_by) the real ColFn tree compiled by the real compile_col_expr of both
backends denotes SPEC_agg on an abstract group (rows, nn_count, nn_sum, ... uninterpreted;
0 <= nn_count <= rows).
A2: `filter=`: the tree built by the real ColFn.__init__ must denote the aggregate over the
rows satisfying the filter (also for the 0-ary count()).
A5: the aggregated-or-grouping rule of summarize (run on real tables, symbolic-free): see C14.
"""

from __future__ import annotations

import os

import z3

from pydiverse.common import Bool, Date, Datetime, Float64, Int64, String

from .. import core, plmodel, sqlmodel
from .. import harness as H
from .. import nv as N
from ..core import explore
from ..oblig import VC, Obligation, Outcome
from . import common as C
from .common import types

BACKENDS = ("polars", "sqlite")
AGGS = ["min", "max", "mean", "sum", "any", "all", "count", "count_star"]


def spec_agg(opname, x: N.NV | None):
    """documented value of an aggregate over the abstract group (property statement C04)"""
    if opname == "count_star":
        return N.NV(False, N.G_ROWS)
    f = N.agg_fns(x.sort)
    g = N.expr_id(x)
    cnt = f["nn_count"](g)
    if opname == "count":
        return N.NV(False, cnt)
    none = cnt == 0
    if opname == "sum":
        return N.NV(none, f["nn_sum"](g))
    if opname == "mean":
        return N.NV(none, f["nn_mean"](g))
    if opname == "min":
        return N.NV(none, f["nn_all"](g) if x.sort == N.BOOL else f["nn_min"](g))
    if opname == "max":
        return N.NV(none, f["nn_any"](g) if x.sort == N.BOOL else f["nn_max"](g))
    if opname == "any":
        return N.NV(none, f["nn_any"](g))
    if opname == "all":
        return N.NV(none, f["nn_all"](g))
    raise KeyError(opname)


def instances(op):
    out = []
    for sig in op.signatures:
        if not sig.types:
            out.append(None)
            continue
        for dt in C.concrete_instances(sig.types[0]):
            if H.sort_of_dtype(dt) is not None and str(dt) not in [str(o) for o in out if o is not None]:
                out.append(dt)
    return out


def _compile(backend, expr, cols, ctx_kind):
    if backend == "polars":
        return H.compile_polars(expr, cols, op_kwargs={"_empty_group_by": ctx_kind == "ungrouped"} if ctx_kind != "window" else None)
    return H.compile_sqlite(expr, cols)


def make_run(opname, op, dt, backend, ctx_kind, with_filter):
    def run(carve):
        plmodel.reset_state()
        sqlmodel.AXIOMS_USED.clear()
        cols = []
        x = None
        if dt is not None:
            x = H.SymCol("x", dt)
            cols.append(x)
        gcol = H.SymCol("g", Int64())
        cols.append(gcol)
        fcol = H.SymCol("f", Bool()) if with_filter else None
        f2col = H.SymCol("f2", Bool()) if with_filter == 2 else None
        if fcol:
            cols.append(fcol)
        if f2col:
            cols.append(f2col)
        # a list of filter conditions means their conjunction (every condition must hold)
        fcond = None if not with_filter else (N.is_true(fcol.nv) if not f2col else z3.And(N.is_true(fcol.nv), N.is_true(f2col.nv)))
        # the row expression the aggregate must see
        if x is not None:
            row = x.nv
            if opname == "sum" and dt == Bool():
                row = N.NV(row.null, z3.If(row.val, z3.IntVal(1), z3.IntVal(0)))  # documented: sum of bools counts the True values
            if with_filter:
                row = N.ite(fcond, row, N.null_of(row.sort))
            spec_nv = spec_agg(opname, row)
        else:
            if with_filter:
                # count(filter=f) counts the rows where f is true
                one = N.ite(fcond, N.NV(False, z3.IntVal(1)), N.null_of(N.INT))
                spec_nv = N.NV(False, N.agg_fns(N.INT)["nn_count"](N.expr_id(one)))
            else:
                spec_nv = spec_agg(opname, None)
        if "no_filter_on_count_star" in carve and dt is None and with_filter:
            return Outcome("discharged", detail="carved out entirely by a known finding", goal="(excluded by known finding)", paths=1, queries=1)
        pre = []
        if "nonempty_nonnull" in carve and x is not None:
            pre.append(N.agg_fns(x.nv.sort)["nn_count"](N.expr_id(x.nv)) > 0)

        def body():
            with H.patched():
                kw = {}
                if with_filter:
                    kw["filter"] = fcol.col if not f2col else [fcol.col, f2col.col]
                if ctx_kind == "window":
                    kw["partition_by"] = gcol.col
                expr = H.ColFn(op, *([x.col] if x is not None else []), **kw)
                if opname == "sum" and dt == Bool():
                    # what preprocess_arg does for boolean sums (pipe/verbs.py L1627-1633)
                    expr.args = [a.cast(Int64()) for a in expr.args]
                # preprocess_arg (pipe/verbs.py L1638-1639) resolves the function type before any backend sees the tree
                expr.ftype(agg_is_window=ctx_kind == "window")
                return _compile(backend, expr, cols, ctx_kind)

        paths = explore(body, base_pc=pre)
        vc = VC(
            f"den_{backend}(compile(ColFn({opname}, x:{dt}{', filter=' + ('[f, f2]' if with_filter == 2 else 'f') if with_filter else ''}{', partition_by=g' if ctx_kind == 'window' else ''}))) [{ctx_kind}] == "
            "null-ignoring aggregate (null iff no non-null input; count(x) = #non-null, count() = #rows)",
        )
        for p in paths:
            vc.paths += 1
            if p.kind == "exc":
                if C.exc_is_refusal(p.value):
                    vc.queries += 1
                    continue
                vc.require(p.pc, z3.BoolVal(False), label=f"raises {type(p.value).__name__}: {p.value}")
                continue
            v = p.value
            if backend == "polars":
                if not isinstance(v, plmodel.PlExpr):
                    raise core.Unsupported("compile returned non-expression")
                want_kind = "row" if ctx_kind == "window" else "agg"
                if v.kind != want_kind:
                    vc.require(p.pc, z3.BoolVal(False), label=f"polars expression has kind {v.kind}, expected {want_kind} (one value per {'row' if want_kind == 'row' else 'group'})")
                    continue
                got = v.nv
            else:
                if ctx_kind == "window":
                    inner = v
                    while isinstance(inner, sqlmodel.SX) and inner.kind in ("cast", "type_coerce", "label"):
                        inner = inner.args[-1] if inner.kind == "label" else inner.args[0]
                    ok = isinstance(inner, sqlmodel.SX) and inner.kind == "over" and inner.args[1] is not None and [a.name for a in inner.args[1].args] == ["g"]
                    if not ok:
                        vc.require(p.pc, z3.BoolVal(False), label=f"SQL expression for an aggregate used as window function is not `agg OVER (PARTITION BY g)`: {v!r}"[:300])
                        continue
                got = sqlmodel.den(v)
            facts = N.agg_facts()
            wit = {"rows": N.G_ROWS, "got_null": got.null, "got_val": got.val, "expected_null": spec_nv.null, "expected_val": spec_nv.val}
            if x is not None:
                wit["nn_count_x"] = N.agg_fns(x.nv.sort)["nn_count"](N.expr_id(x.nv))
                if x.nv.sort == N.BOOL:
                    wit["nn_any_x"] = N.agg_fns(N.BOOL)["nn_any"](N.expr_id(x.nv))
                    wit["nn_all_x"] = N.agg_fns(N.BOOL)["nn_all"](N.expr_id(x.nv))
            vc.require(list(p.pc) + facts, N.eq(got, spec_nv), label=f"aggregate value differs from the documented one (path {p.decisions})", witness_terms=wit)
        return vc.outcome(axioms=sorted(plmodel.AXIOMS_USED | sqlmodel.AXIOMS_USED))

    return run


def make_replayer(opname, op, dt, backend, ctx_kind, with_filter):
    def replay(model):
        import polars as pl
        import sqlalchemy as sqa

        import pydiverse.transform as pdt
        from pydiverse.transform._internal.tree.col_expr import ColFn

        rows = model.get("rows", 2)
        nn = model.get("nn_count_x", 0)
        if not isinstance(rows, int) or rows > 6 or rows < 2:
            rows = 2
        if not isinstance(nn, int):
            nn = 0
        nn = max(0, min(nn, rows))
        rows = max(rows, 1) if ctx_kind != "ungrouped" else rows
        sample = {"Int64": [3, 1, 2, 5, 4, 6], "Float64": [1.5, 0.5, 2.5, 3.5, 4.5, 5.5], "Bool": [True, False, True, False, True, False], "String(None)": ["b", "a", "c", "d", "e", "f"]}
        data = {"g": [1] * rows}
        if dt is not None:
            vals = sample.get(str(dt))
            if vals is None:
                return {"reproduced": False, "text": "no native replay builder for this column type"}
            if str(dt) == "Bool":
                if model.get("nn_any_x") is False:
                    vals = [False] * 6
                elif model.get("nn_all_x") is True:
                    vals = [True] * 6
            data["x"] = pl.Series("x", vals[:nn] + [None] * (rows - nn), dtype=dt.to_polars())
        if with_filter == 2:
            rows = max(rows, 4)
            data["g"] = [1] * rows
            if dt is not None:
                vals4 = (vals * 2)[:rows]
                data["x"] = pl.Series("x", vals4, dtype=dt.to_polars())
            data["f"] = [True, False, True, None, True, False][:rows]
            data["f2"] = [False, True, True, True, None, False][:rows]
        else:
            data["f"] = [True, False, True, None, True, False][:rows]
        df = pl.DataFrame(data)
        res = {}
        for be in ("polars", "sqlite"):
            if be == "polars":
                t = pdt.Table(df, name="t")
            else:
                eng = sqa.create_engine("sqlite://")
                df.write_database("t", eng)
                t = pdt.Table("t", pdt.SqlAlchemy(eng))
            kw = ({"filter": [t.f, t.f2]} if with_filter == 2 else {"filter": t.f}) if with_filter else {}
            e = ColFn(op, *([t.x] if dt is not None else []), **kw)
            try:
                if ctx_kind == "grouped":
                    out = t >> pdt.group_by(t.g) >> pdt.summarize(r=e) >> pdt.export(pdt.Polars())
                elif ctx_kind == "ungrouped":
                    out = t >> pdt.summarize(r=e) >> pdt.export(pdt.Polars())
                else:
                    out = t >> pdt.group_by(t.g) >> pdt.mutate(r=e) >> pdt.ungroup() >> pdt.export(pdt.Polars())
                res[be] = out["r"].to_list()
            except Exception as ex:  # noqa: BLE001
                res[be] = f"raises {type(ex).__name__}: {str(ex)[:150]}"
        # documented value computed natively from the data
        f2s = data.get("f2", [True] * rows)
        xs = [v for v, f, f2 in zip(data["x"].to_list() if dt is not None else [1] * rows, data["f"], f2s) if ((f is True and f2 is True) or not with_filter)]
        nnv = [v for v in xs if v is not None]
        doc = {
            "count_star": lambda: len(xs), "count": lambda: len(nnv), "sum": lambda: (sum(int(v) if isinstance(v, bool) else v for v in nnv) if nnv else None),
            "mean": lambda: (sum(nnv) / len(nnv) if nnv else None), "min": lambda: (min(nnv) if nnv else None), "max": lambda: (max(nnv) if nnv else None),
            "any": lambda: (any(nnv) if nnv else None), "all": lambda: (all(nnv) if nnv else None),
        }[opname]()
        got = res[backend]
        ok = isinstance(got, list) and len(got) >= 1 and all((g is None and doc is None) or (g is not None and doc is not None and abs(float(g) - float(doc)) < 1e-9 if not isinstance(g, str) else g == doc) for g in got)
        if ctx_kind == "ungrouped" and isinstance(got, list) and len(got) != 1:
            ok = False
        return {"reproduced": not ok, "text": f"data={ {k: (v.to_list() if hasattr(v, 'to_list') else v) for k, v in data.items()} } context={ctx_kind} filter={with_filter}: {backend} gives {got!r}, documented value {doc!r} (other backend: {res})"}

    return replay


def make_lib(opname, op, dt, backend, ctx_kind, with_filter, seed):
    """conformance of the aggregate specification with the real engine on sampled groups (native)"""
    def run(carve):
        import random

        from .c13 import _enum_outcome

        if "no_filter_on_count_star" in carve and dt is None and with_filter:
            return Outcome("discharged", detail="carved out entirely by a known finding", goal="(excluded by known finding)", paths=1, queries=1)
        rep = make_replayer(opname, op, dt, backend, ctx_kind, with_filter)
        rnd = random.Random(f"{seed}/{opname}/{dt}/{ctx_kind}/{with_filter}")
        n, bad = 0, []
        for rows in (2, 3, 4, 6):
            for nn in sorted({0, 1, rnd.randint(0, rows), rows}):
                if nn > rows:
                    continue
                m = {"rows": rows, "nn_count_x": nn}
                if str(dt) == "Bool":
                    m["nn_any_x"], m["nn_all_x"] = rnd.choice([(False, False), (True, True), (True, False)])
                r = rep(m)
                if "no native replay builder" in r["text"]:
                    return Outcome("discharged", goal="(no native oracle for this column type)", paths=1, queries=1, backend="evaluation")
                n += 1
                if r["reproduced"]:
                    bad.append(r["text"][:400])
        return _enum_outcome(f"{opname}({dt}) [{ctx_kind}{', filter' if with_filter else ''}] on {backend}: documented aggregate value == real engine on sampled groups", n, bad)

    return run


def a5_run(carve):
    """group structure of summarize (native, Python oracle): one row per distinct tuple of the grouping columns - also when an
    aggregate takes the name of a grouping column, with null keys, after a filter that empties groups, and ungrouped"""
    import warnings

    import polars as pl
    import sqlalchemy as sqa

    import pydiverse.transform as pdt

    from .c13 import _enum_outcome

    df = pl.DataFrame({"a": [1, 1, 2, 2, None, None, 3], "b": ["x", "y", "x", "x", "y", None, "x"], "c": [10, 20, 30, None, 50, 60, None], "h": [1, 2, 3, 4, 5, 6, 7]})
    rows = df.rows()
    eng = sqa.create_engine("sqlite://")
    df.write_database("t", eng)
    n, bad = 0, []

    def oracle(keys, aggs, flt=lambda r: True):
        groups = {}
        for r in rows:
            if flt(r):
                groups.setdefault(tuple(r[k] for k in keys), []).append(r)
        if not keys and not groups:
            groups[()] = []
        return sorted((k + tuple(f(g) for f in aggs) for k, g in groups.items()), key=str)

    ssum = lambda g: (sum(r[2] for r in g if r[2] is not None) if any(r[2] is not None for r in g) else None)  # noqa: E731
    cnt = lambda g: len(g)  # noqa: E731
    mx = lambda g: max((r[3] for r in g), default=None)  # noqa: E731
    with warnings.catch_warnings():
        warnings.simplefilter("ignore")
        for be, t in (("polars", pdt.Table(df, name="t")), ("sqlite", pdt.Table("t", pdt.SqlAlchemy(eng)))):
            cases = [
                ("group_by(a,b) >> summarize(s=c.sum(), n=count())", lambda: t >> pdt.group_by(t.a, t.b) >> pdt.summarize(s=t.c.sum(), n=pdt.count()), ["a", "b", "s", "n"], oracle((0, 1), (ssum, cnt))),
                ("group_by(b,a) >> summarize(n=count())", lambda: t >> pdt.group_by(t.b, t.a) >> pdt.summarize(n=pdt.count()), ["b", "a", "n"], oracle((1, 0), (cnt,))),
                ("group_by(a,b) >> summarize(a=c.sum())  [aggregate named like a grouping column]", lambda: t >> pdt.group_by(t.a, t.b) >> pdt.summarize(a=t.c.sum()), ["b", "a"], sorted(((k[1], v) for k, v in ((r[:2], r[2]) for r in oracle((0, 1), (ssum,)))), key=str)),
                ("group_by(a) >> summarize(a=h.max())  [aggregate replaces the only grouping column]", lambda: t >> pdt.group_by(t.a) >> pdt.summarize(a=t.h.max()), ["a"], sorted(((r[1],) for r in oracle((0,), (mx,))), key=str)),
                ("group_by(a) >> filter(h > 4) >> summarize(n=count())", lambda: t >> pdt.group_by(t.a) >> pdt.filter(t.h > 4) >> pdt.summarize(n=pdt.count()), ["a", "n"], oracle((0,), (cnt,), lambda r: r[3] > 4)),
                ("summarize(s=c.sum(), n=count())  [ungrouped]", lambda: t >> pdt.summarize(s=t.c.sum(), n=pdt.count()), ["s", "n"], oracle((), (ssum, cnt))),
                ("filter(h > 100) >> summarize(s=c.sum(), n=count())  [ungrouped, no rows]", lambda: t >> pdt.filter(t.h > 100) >> pdt.summarize(s=t.c.sum(), n=pdt.count()), ["s", "n"], [(None, 0)]),
                ("group_by(a) >> group_by(b, add=True) >> summarize(n=count())", lambda: t >> pdt.group_by(t.a) >> pdt.group_by(t.b, add=True) >> pdt.summarize(n=pdt.count()), ["a", "b", "n"], oracle((0, 1), (cnt,))),
                ("group_by(a) >> group_by(b) >> summarize(n=count())  [second group_by replaces]", lambda: t >> pdt.group_by(t.a) >> pdt.group_by(t.b) >> pdt.summarize(n=pdt.count()), ["b", "n"], oracle((1,), (cnt,))),
            ]
            # computed grouping keys: case expressions / maps with literal branch values, booleans, arithmetic, a constant
            def keyed(label, key_expr, key_py, extra=()):
                keys_py = [(lambda r, i=i: r[i]) for i in extra] + [key_py]
                groups = {}
                for r in rows:
                    groups.setdefault(tuple(f(r) for f in keys_py), []).append(r)
                want = [k + (len(g),) for k, g in groups.items()]
                names = ["abch"[i] for i in extra] + ["k", "n"]

                def mk():
                    x = t >> pdt.mutate(k=key_expr(t))
                    return x >> pdt.group_by(*[t["abch"[i]] for i in extra], x.k) >> pdt.summarize(n=pdt.count())

                cases.append((f"mutate(k={label}) >> group_by({','.join(names[:-1])}) >> summarize(n=count())", mk, names, want))

            keyed("when(a > 1).then(1).otherwise(0)", lambda t: pdt.when(t.a > 1).then(1).otherwise(0), lambda r: 1 if (r[0] is not None and r[0] > 1) else 0)
            keyed("when(a > 1).then(1).otherwise(0)", lambda t: pdt.when(t.a > 1).then(1).otherwise(0), lambda r: 1 if (r[0] is not None and r[0] > 1) else 0, extra=(1,))
            keyed("when(b == 'x').then('p')  [no otherwise]", lambda t: pdt.when(t.b == "x").then("p"), lambda r: "p" if r[1] == "x" else None)
            keyed("b.map({'x': 'u'}, default='v')", lambda t: t.b.map({"x": "u"}, default=pdt.lit("v")), lambda r: "u" if r[1] == "x" else "v")
            keyed("a.is_null()", lambda t: t.a.is_null(), lambda r: r[0] is None)
            keyed("h % 2", lambda t: t.h % 2, lambda r: r[3] % 2, extra=(0,))
            keyed("lit(5)", lambda t: pdt.lit(5), lambda r: 5)
            keyed("lit(5)", lambda t: pdt.lit(5), lambda r: 5, extra=(1,))
            keyed("lit(5, Int64)", lambda t: pdt.lit(5, pdt.Int64()), lambda r: 5, extra=(1,))
            # grouping by columns of both sides of a join that had the same name in their source tables
            if be == "polars":
                u2 = pdt.Table(pl.DataFrame({"a": [1, 2, 2, None], "w": [5, 6, 7, 8]}), name="u2")
            else:
                pl.DataFrame({"a": [1, 2, 2, None], "w": [5, 6, 7, 8]}).write_database("u2", eng, if_table_exists="replace")
                u2 = pdt.Table("u2", pdt.SqlAlchemy(eng))
            jrows = [(r[0], ua) for r in rows for ua in (1, 2, 2, None) if (r[3] % 2 == 0) == (ua == 2 if ua is not None else False) or (ua is None and r[3] == 7)]
            jg = {}
            for ka, kb in jrows:
                jg[(ka, kb)] = jg.get((ka, kb), 0) + 1
            jcond = lambda: ((t.h % 2 == 0) & (u2.a == 2)) | ((t.h % 2 == 1) & (u2.a == 1)) | (u2.a.is_null() & (t.h == 7))  # noqa: E731
            jrows = [(r[0], ua) for r in rows for ua in (1, 2, 2, None) if (r[3] % 2 == 0 and ua == 2) or (r[3] % 2 == 1 and ua == 1) or (ua is None and r[3] == 7)]
            jg = {}
            for ka, kb in jrows:
                jg[(ka, kb)] = jg.get((ka, kb), 0) + 1
            cases.append(("join(u2 with the same column name a) >> group_by(t.a, u2.a) >> summarize(n=count())", lambda: t >> pdt.inner_join(u2, jcond()) >> pdt.group_by(t.a, u2.a) >> pdt.summarize(n=pdt.count()), ["a", "a_u2", "n"], [k + (v,) for k, v in jg.items()]))
            cases.append(("join(u2) >> group_by(t.a) >> group_by(u2.a, add=True) >> summarize(n=count())", lambda: t >> pdt.inner_join(u2, jcond()) >> pdt.group_by(t.a) >> pdt.group_by(u2.a, add=True) >> pdt.summarize(n=pdt.count()), ["a", "a_u2", "n"], [k + (v,) for k, v in jg.items()]))
            # summarize over a sliced table (through alias()): the aggregate sees exactly the sliced rows, also none
            srows = sorted(rows, key=lambda r: r[3])
            for nn, off in ((0, 0), (2, 1), (3, 5), (100, 0)):
                sl = srows[off:off + nn]
                cases.append((f"arrange(h) >> slice_head({nn}, offset={off}) >> alias() >> summarize(n=count(), s=c.sum())",
                              lambda nn=nn, off=off: t >> pdt.arrange(t.h) >> pdt.slice_head(nn, offset=off) >> pdt.alias() >> pdt.summarize(n=pdt.count(), s=pdt.C.c.sum()), ["n", "s"],
                              [(len(sl), (sum(r[2] for r in sl if r[2] is not None) if any(r[2] is not None for r in sl) else None))]))
                gk = {}
                for r in sl:
                    gk.setdefault(r[1], []).append(r)
                cases.append((f"arrange(h) >> slice_head({nn}, offset={off}) >> alias() >> group_by(b) >> summarize(n=count())",
                              lambda nn=nn, off=off: t >> pdt.arrange(t.h) >> pdt.slice_head(nn, offset=off) >> pdt.alias() >> pdt.group_by(pdt.C.b) >> pdt.summarize(n=pdt.count()), ["b", "n"], [(k, len(g)) for k, g in gk.items()]))
            # a constant as the ONLY grouping key is still a grouping: no row for an empty input, a later filter sees the aggregated row
            cases += [
                ("mutate(k=1) >> group_by(k) >> summarize(n=count()) >> filter(n > 1)", lambda: t >> pdt.mutate(k=1) >> pdt.group_by(pdt.C.k) >> pdt.summarize(n=pdt.count()) >> pdt.filter(pdt.C.n > 1), ["k", "n"], [(1, len(rows))]),
                ("mutate(k=1) >> group_by(k) >> summarize(n=count()) >> filter(n > 100)", lambda: t >> pdt.mutate(k=1) >> pdt.group_by(pdt.C.k) >> pdt.summarize(n=pdt.count()) >> pdt.filter(pdt.C.n > 100), ["k", "n"], []),
                ("filter(h > 100) >> mutate(k=1) >> group_by(k) >> summarize(n=count(), s=c.sum())  [no rows, constant key]", lambda: t >> pdt.filter(t.h > 100) >> pdt.mutate(k=1) >> pdt.group_by(pdt.C.k) >> pdt.summarize(n=pdt.count(), s=t.c.sum()), ["k", "n", "s"], []),
                ("filter(h > 100) >> group_by(a) >> summarize(n=count())  [no rows]", lambda: t >> pdt.filter(t.h > 100) >> pdt.group_by(t.a) >> pdt.summarize(n=pdt.count()), ["a", "n"], []),
                ("group_by(a) >> group_by(a, add=True) >> summarize(n=count())  [a column is a grouping column once]", lambda: t >> pdt.group_by(t.a) >> pdt.group_by(t.a, add=True) >> pdt.summarize(n=pdt.count()), ["a", "n"], oracle((0,), (cnt,))),
                ("group_by(a, b, a) >> summarize(n=count())", lambda: t >> pdt.group_by(t.a, t.b, t.a) >> pdt.summarize(n=pdt.count()), ["a", "b", "n"], oracle((0, 1), (cnt,))),
            ]
            for label, mk, cols, want in cases:
                n += 1
                try:
                    out = mk() >> pdt.export(pdt.Polars())
                except (pdt.errors.SubqueryError, pdt.errors.NotSupportedError):
                    continue
                except Exception as ex:  # noqa: BLE001
                    bad.append(f"[{be}] {label}: raises {type(ex).__name__}: {str(ex)[:140]}")
                    continue
                got = sorted(out.rows(), key=str)
                if out.columns != cols or got != sorted(want, key=str):
                    bad.append(f"[{be}] {label}: columns {out.columns} rows {got}; documented: columns {cols} rows {sorted(want, key=str)}")
    return _enum_outcome("summarize returns one row per distinct tuple of the grouping columns (Python oracle), both backends", n, bad)


def obligations(tier):
    obs = []
    disp = {"polars": H.fn_info(H.polars_backend.compile_col_expr), "sqlite": H.fn_info(H.sql_backend.SqlImpl.compile_col_expr)}
    bcls = {"polars": H.polars_backend.PolarsImpl, "sqlite": H.sqlite_backend.SqliteImpl}
    for opname in AGGS:
        op = H.ALL_OPS[opname]
        for dt in instances(op):
            for backend in BACKENDS:
                for ctx_kind in ("grouped", "ungrouped", "window"):
                    for with_filter in (False, True, 2):
                        f = H.impl_function(bcls[backend], op, (dt,) if dt is not None else ())
                        fns = [disp[backend], H.fn_info(H.col_expr_mod.ColFn.__init__)] + ([H.fn_info(f)] if f else [])
                        if backend == "sqlite":
                            fns.append(H.fn_info(H.sqlite_backend.SqliteImpl.fix_fn_types))
                        obs.append(
                            Obligation(
                                f"C04/{('A2b' if with_filter == 2 else 'A2') if with_filter else 'A1'}/{opname}/{backend}/{ctx_kind}/{dt}",
                                "A2" if with_filter else "A1",
                                f"{opname}({dt}){' with filter=' if with_filter else ''} on {backend} in a {ctx_kind} context ignores nulls / counts as documented",
                                make_run(opname, op, dt, backend, ctx_kind, with_filter),
                                functions=fns,
                                carveouts={"no_filter_on_count_star": "count(filter=...)", "nonempty_nonnull": "group has a non-null value"},
                                replayer=make_replayer(opname, op, dt, backend, ctx_kind, with_filter),
                            )
                        )
                        obs.append(
                            Obligation(
                                f"C04/LIB/{opname}/{backend}/{ctx_kind}/{dt}/filter={with_filter}",
                                "LIB",
                                f"{opname}({dt}) on {backend} ({ctx_kind}): the documented value agrees with the real engine on sampled groups",
                                make_lib(opname, op, dt, backend, ctx_kind, with_filter, int(os.environ.get("VERIF_SEED", "0") or 0)),
                                functions=fns,
                                bounded="groups of 2-6 rows with 0..all non-null values (about 12 samples per aggregate x type x context x filter shape); native execution",
                                carveouts={"no_filter_on_count_star": "count(filter=...)"},
                                tags=("cross_backend",),
                            )
                        )
    obs.append(Obligation("C04/A5/group_structure", "A5", "one row per distinct tuple of the grouping columns (native, Python oracle)", a5_run,
                          functions=[H.fn_info(H.polars_backend.compile_ast), H.fn_info(H.sql_backend.SqlImpl.compile_ast), H.fn_info(H.pdt._internal.pipe.verbs.summarize)], bounded="9 grouping shapes x 2 backends on one 7-row table with null keys"))
    return obs


DESIGN_REF = "DESIGN.md §5.4"
ASSUMPTIONS = [
    "abstract group model: a group is characterised by rows >= 0 and, per row expression, nn_count/nn_sum/nn_mean/nn_min/nn_max/nn_any/nn_all (uninterpreted, 0 <= nn_count <= rows); both engines are assumed to compute these same functions",
    "a null-ignoring aggregate over `case when f then x end` equals the aggregate of x over the rows where f is true (definition of the filtered aggregate)",
    "A3 (one output row per distinct key combination) is a library axiom on group_by().agg() / GROUP BY and is exercised at pipeline level by C01/C02 when built",
    "str.join and list.agg are not decided (ordering-dependent text / list results)",
]
