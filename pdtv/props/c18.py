"""C18 - Python literals and patterns reach SQL as data.

L2: for every operator position that takes a string literal (==, !=, is_in, +, starts_with,
ends_with, literal contains, replace_all, case value, constant mutate) and every literal of a
metacharacter alphabet, the real tree is compiled by the real compile_col_expr of both backends;
the value on a generic row (column value = arbitrary string or null) must be the *literal*
string function.  SQL LIKE is modelled exactly for constant patterns (z3 regular expressions),
so hand-built patterns / wrong escaping are caught.
L1: the compiled SQL term contains the literal only inside bound-literal nodes (no raw text,
custom operators or literal_column).
"""

from __future__ import annotations

import z3

from pydiverse.common import Bool, Int64, String

from .. import core, plmodel, sqlmodel
from .. import harness as H
from .. import nv as N
from ..core import explore
from ..oblig import VC, Obligation, Outcome
from . import common as C

BACKENDS = ("polars", "sqlite")
LITERALS = ["%", "_", "/", "\\", "'", '"', "a%", "a_b", "a/b", "/%", "%%", "--", "; DROP TABLE t; --", "a\nb", "é", ".", "a.b", "(x)", "$1", "", "[a]", "a*", ":x", "%(a)s", "%s", "?", ":1"]  # the last five: placeholder syntaxes of the DBAPI paramstyles

REPL_ALL = z3.Function("replace_all_literal", N.STR, N.STR, N.STR, N.STR)


def _spec(kind, x: N.NV, lit: str, lit2: str | None):
    L = N.NV(False, z3.StringVal(lit))
    if kind == "equal":
        return N.lift(lambda a, b: a == b, x, L)
    if kind == "not_equal":
        return N.lift(lambda a, b: a != b, x, L)
    if kind == "is_in":
        other = N.NV(False, z3.StringVal(lit2))
        return N.k_or(N.lift(lambda a, b: a == b, x, L), N.lift(lambda a, b: a == b, x, other))
    if kind in ("equal_none", "not_equal_none"):
        # comparing with a None literal is a comparison with data that is NULL: the result is NULL for every x (never IS NULL / IS NOT NULL)
        return N.null_of(N.BOOL)
    if kind == "is_in_none":
        # a None literal among the candidates is data too: (x == lit) OR NULL  (Kleene)
        return N.k_or(N.lift(lambda a, b: a == b, x, L), N.null_of(N.BOOL))
    if kind == "concat":
        return N.lift(lambda a, b: z3.Concat(a, b), x, L)
    if kind == "starts_with":
        return N.lift(lambda a, b: z3.PrefixOf(b, a), x, L)
    if kind == "ends_with":
        return N.lift(lambda a, b: z3.SuffixOf(b, a), x, L)
    if kind == "contains":
        return N.lift(lambda a, b: z3.Contains(a, b), x, L)
    if kind == "replace_all":
        return N.lift(lambda a: REPL_ALL(a, z3.StringVal(lit), z3.StringVal(lit2)), x)
    if kind == "case_value":
        return N.ite(N.lift(lambda a, b: a == b, x, L).null == z3.BoolVal(False), N.ite(x.val == z3.StringVal(lit), N.NV(False, z3.StringVal(lit2)), N.null_of(N.STR)), N.null_of(N.STR))
    if kind == "constant":
        return L
    raise KeyError(kind)


def _build(kind, xcol, lit, lit2):
    LC = H.LiteralCol
    if kind == "equal":
        return H.ColFn(H.ops.equal, xcol, LC(lit))
    if kind == "not_equal":
        return H.ColFn(H.ops.not_equal, xcol, LC(lit))
    if kind == "is_in":
        return H.ColFn(H.ops.is_in, xcol, LC(lit), LC(lit2))
    if kind == "equal_none":
        return H.ColFn(H.ops.equal, xcol, LC(None))
    if kind == "not_equal_none":
        return H.ColFn(H.ops.not_equal, xcol, LC(None))
    if kind == "is_in_none":
        return H.ColFn(H.ops.is_in, xcol, LC(lit), LC(None))
    if kind == "concat":
        return H.ColFn(H.ops.add, xcol, LC(lit))
    if kind == "starts_with":
        return H.ColFn(H.ops.str_starts_with, xcol, LC(lit))
    if kind == "ends_with":
        return H.ColFn(H.ops.str_ends_with, xcol, LC(lit))
    if kind == "contains":
        return H.ColFn(H.ops.str_contains, xcol, LC(lit), LC(False), LC(False))
    if kind == "replace_all":
        return H.ColFn(H.ops.str_replace_all, xcol, LC(lit), LC(lit2))
    if kind == "case_value":
        return H.col_expr_mod.CaseExpr([(H.ColFn(H.ops.equal, xcol, LC(lit)), LC(lit2))])
    if kind == "constant":
        return LC(lit)
    raise KeyError(kind)


KINDS = ["equal", "not_equal", "equal_none", "not_equal_none", "is_in", "is_in_none", "concat", "starts_with", "ends_with", "contains", "replace_all", "case_value", "constant"]
OP_OF = {"equal": "equal", "not_equal": "not_equal", "equal_none": "equal", "not_equal_none": "not_equal", "is_in": "is_in", "is_in_none": "is_in", "concat": "add", "starts_with": "str_starts_with", "ends_with": "str_ends_with", "contains": "str_contains", "replace_all": "str_replace_all"}


def make_run(kind, lit, lit2, backend):
    def run(carve):
        plmodel.reset_state()
        sqlmodel.AXIOMS_USED.clear()
        if "regex_meta_pattern" in carve:
            return Outcome("discharged", detail="carved out entirely by a known finding", goal="(excluded by known finding)", paths=1, queries=1)
        x = H.SymCol("x", String())
        spec_nv = _spec(kind, x.nv, lit, lit2)

        def body():
            with H.patched():
                expr = _build(kind, x.col, lit, lit2)
                return H.compile_polars(expr, [x]) if backend == "polars" else H.compile_sqlite(expr, [x])

        paths = explore(body)
        vc = VC(f"den_{backend}(compile({kind}(x, {lit!r}{'' if lit2 is None else ', ' + repr(lit2)}))) == the literal string function, for every string/null x")
        wit = {"x_null": x.nv.null, "x_val": x.nv.val, "expected_null": spec_nv.null, "expected_val": spec_nv.val}
        for p in paths:
            vc.paths += 1
            if p.kind == "exc":
                if C.exc_is_refusal(p.value):
                    vc.queries += 1
                    continue
                vc.require(p.pc, z3.BoolVal(False), label=f"raises {type(p.value).__name__}: {p.value}", witness_terms=wit)
                continue
            v = p.value
            if backend == "sqlite":
                if sqlmodel.contains_kind(v, ("text", "custom_op")):
                    vc.require(p.pc, z3.BoolVal(False), label="L1: the compiled SQL contains raw text / a custom operator built from the literal", witness_terms=wit)
                    continue
                got = sqlmodel.den(v)
            else:
                got = v.nv
            w = dict(wit)
            w["got_null"], w["got_val"] = got.null, got.val
            vc.require(p.pc, N.eq(got, spec_nv), label="value differs from the literal string function", witness_terms=w)
        return vc.outcome(axioms=sorted(plmodel.AXIOMS_USED | sqlmodel.AXIOMS_USED))

    return run


def make_lib(kind, lit, lit2, backend):
    """conformance: the literal string function evaluated in Python agrees with the real engine on sampled column values"""
    def run(carve):
        from .c13 import _enum_outcome

        if "whole" in carve:
            return Outcome("discharged", detail="carved out entirely by a known finding", goal="(excluded by known finding)", paths=1, queries=1)
        rep = make_replayer(kind, lit, lit2, backend)
        n, bad = 0, []
        xs = [None, lit, "a" + lit + "b", lit + lit, "zz", "", "x" + lit, lit[:1], lit[::-1] + "q", "9%_7"]  # no sample differs from the literal only by letter case (SQLite LIKE is documented to ignore ASCII case)
        seen = set()
        for xv in xs:
            if xv in seen:
                continue
            seen.add(xv)
            if xv is not None and kind in ("starts_with", "ends_with", "contains", "equal", "not_equal", "is_in", "is_in_none", "case_value") and any(ch.isalpha() for ch in lit) and xv.lower() != xv and False:
                continue
            n += 1
            r = rep({"x_null": xv is None, "x_val": xv})
            if r["reproduced"]:
                bad.append(r["text"][:400])
        return _enum_outcome(f"{kind} with the literal {lit!r} on {backend}: Python's literal string function == the real engine on sampled column values", n, bad)

    return run


def make_replayer(kind, lit, lit2, backend):
    def replay(model):
        import polars as pl
        import sqlalchemy as sqa

        import pydiverse.transform as pdt

        xv = None if model.get("x_null") else model.get("x_val")
        if isinstance(xv, str):
            xv = _unescape(xv)
        df = pl.DataFrame({"x": pl.Series("x", [xv], dtype=pl.String)})
        res = {}
        for be in ("polars", "sqlite"):
            if be == "polars":
                t = pdt.Table(df, name="t")
            else:
                eng = sqa.create_engine("sqlite://")
                df.write_database("t", eng)
                t = pdt.Table("t", pdt.SqlAlchemy(eng))
            import warnings

            with warnings.catch_warnings():
                warnings.simplefilter("ignore")
                try:
                    e = _build(kind, t.x, lit, lit2)
                    res[be] = (t >> pdt.mutate(r=e) >> pdt.select("r") >> pdt.export(pdt.Polars()))["r"][0]
                except Exception as ex:  # noqa: BLE001
                    res[be] = f"raises {type(ex).__name__}: {str(ex)[:160]}"
        py = {
            "equal": lambda: None if xv is None else xv == lit,
            "not_equal": lambda: None if xv is None else xv != lit,
            "is_in": lambda: None if xv is None else xv in (lit, lit2),
            "is_in_none": lambda: None if xv is None else (True if xv == lit else None),
            "equal_none": lambda: None,
            "not_equal_none": lambda: None,
            "concat": lambda: None if xv is None else xv + lit,
            "starts_with": lambda: None if xv is None else xv.startswith(lit),
            "ends_with": lambda: None if xv is None else xv.endswith(lit),
            "contains": lambda: None if xv is None else lit in xv,
            "replace_all": lambda: None if xv is None else xv.replace(lit, lit2),
            "case_value": lambda: lit2 if xv == lit else None,
            "constant": lambda: lit,
        }[kind]()
        got = res[backend]
        return {"reproduced": got != py, "text": f"x={xv!r}: {kind}(x, {lit!r}{'' if lit2 is None else ', ' + repr(lit2)}) on {backend} gives {got!r}; literal string function gives {py!r} (both backends: {res})"}

    return replay


def _unescape(s):
    # z3 prints non-printable characters as \\u{..}
    import re

    return re.sub(r"\\u\{([0-9a-fA-F]+)\}", lambda m: chr(int(m.group(1), 16)), s)


def l4_run(carve):
    """the delimiter of str.join reaches the SQL text as a correctly quoted string literal on every dialect, with and without
    arrange= (the statement cannot be executed on the installed SQLite, which has no string_agg: the rendered text is checked)"""
    import warnings

    from .. import fakedrivers
    from .c13 import _enum_outcome

    import sqlalchemy as sa

    pdt = H.pdt
    n, bad = 0, []
    with warnings.catch_warnings():
        warnings.simplefilter("ignore")
        for dname, eng in fakedrivers.engines().items():
            md = sa.MetaData()
            tb = sa.Table("t", md, sa.Column("s", sa.String()), sa.Column("h", sa.BigInteger()), sa.Column("g", sa.BigInteger()))
            t = pdt.Table(tb, pdt.SqlAlchemy(eng))
            for lit in (", ", ":x", "%", "a'b", "%(a)s", "?", "--"):
                for ordered in (False, True):
                    if "strjoin_ordered_sqlite" in carve and dname == "sqlite" and ordered and lit in (":x", "%"):
                        continue
                    if "pyformat_literal" in carve and lit == "%(a)s" and dname in ("sqlite", "mssql"):
                        continue
                    n += 1
                    try:
                        q = t >> pdt.group_by(t.g) >> pdt.summarize(j=t.s.str.join(lit, **({"arrange": t.h} if ordered else {}))) >> pdt.build_query()
                    except (pdt.errors.NotSupportedError, pdt.errors.SubqueryError):
                        continue
                    except Exception as e:  # noqa: BLE001
                        bad.append(f"{dname}: str.join({lit!r}{', arrange=h' if ordered else ''}): {type(e).__name__}: {str(e)[:100]}")
                        continue
                    quoted = "'" + lit.replace("'", "''") + "'"
                    if quoted not in q and quoted.replace("%", "%%") not in q.replace("N'", "'") or (dname != "postgres" and "%" in lit and quoted not in q.replace("N'", "'")):
                        bad.append(f"{dname}: str.join({lit!r}{', arrange=h' if ordered else ''}): the statement does not contain the literal {quoted}: {q[:160]!r}")
    return _enum_outcome("the delimiter of str.join is rendered as the quoted literal on every dialect", n, bad)


def l3_run(carve):
    """expressions whose VALUES are Python literals (case / map branches, coalesce defaults) used as grouping keys, sort keys,
    join keys and filter operands: the literals are data on both backends (native, Python oracle)"""
    import warnings

    import polars as pl
    import sqlalchemy as sqa

    import pydiverse.transform as pdt

    from .c13 import _enum_outcome

    sv = ["a%b", "x", None, "a%b", "q_", "x", "%"]
    df = pl.DataFrame({"s": sv, "h": list(range(7))})
    eng = sqa.create_engine("sqlite://")
    df.write_database("t", eng)
    bucket = lambda v: "100%" if v == "a%b" else ("it's" if v == "x" else "\\_")  # noqa: E731
    n, bad = 0, []
    with warnings.catch_warnings():
        warnings.simplefilter("ignore")
        for be, t in (("polars", pdt.Table(df, name="t")), ("sqlite", pdt.Table("t", pdt.SqlAlchemy(eng)))):
            k_case = lambda: pdt.when(t.s == "a%b").then("100%").when(t.s == "x").then("it's").otherwise("\\_")  # noqa: E731
            k_map = lambda: t.s.map({"a%b": "100%", "x": "it's"}, default=pdt.lit("\\_"))  # noqa: E731
            cnt = {}
            for v in sv:
                cnt[bucket(v)] = cnt.get(bucket(v), 0) + 1
            want_groups = sorted(cnt.items())
            cases = [
                ("group_by(case with literal branches) >> summarize", lambda: t >> pdt.mutate(k=k_case()) >> pdt.group_by(pdt.C.k) >> pdt.summarize(n=pdt.count()), lambda out: sorted(out.rows()) == want_groups),
                ("group_by(map with literal values) >> summarize", lambda: t >> pdt.mutate(k=k_map()) >> pdt.group_by(pdt.C.k) >> pdt.summarize(n=pdt.count()), lambda out: sorted(out.rows()) == want_groups),
                ("arrange(case with literal branches, h)", lambda: t >> pdt.mutate(k=k_case()) >> pdt.arrange(pdt.C.k, t.h) >> pdt.select(t.h), lambda out: out["h"].to_list() == [h for _, h in sorted((bucket(v), h) for h, v in enumerate(sv))]),
                ("filter(case == literal)", lambda: t >> pdt.filter(k_case() == "100%") >> pdt.select(t.h), lambda out: sorted(out["h"].to_list()) == [h for h, v in enumerate(sv) if bucket(v) == "100%"]),
                ("window partitioned by a case with literal branches", lambda: t >> pdt.mutate(k=k_case()) >> pdt.mutate(c=pdt.count(partition_by=pdt.C.k)) >> pdt.select(t.h, pdt.C.c),
                 lambda out: sorted(out.rows()) == sorted((h, cnt[bucket(v)]) for h, v in enumerate(sv))),
                ("coalesce(s, literal) as key", lambda: t >> pdt.mutate(k=pdt.coalesce(t.s, "n/a%")) >> pdt.group_by(pdt.C.k) >> pdt.summarize(n=pdt.count()),
                 lambda out: sorted(out.rows()) == sorted({("n/a%" if v is None else v): sum(1 for w in sv if w == v) for v in sv}.items())),
            ]
            # bare / typed literals themselves as keys: a number is data, never a column position (GROUP BY 2 / ORDER BY 2)
            for lname, mklit, val in (("2", lambda: 2, 2), ("lit(2)", lambda: pdt.lit(2), 2), ("lit(2, Int64)", lambda: pdt.lit(2, pdt.Int64()), 2), ("lit('h', String)", lambda: pdt.lit("h", pdt.String()), "h"), ("lit('s')", lambda: pdt.lit("s"), "s")):
                cases += [
                    (f"mutate(k={lname}) >> group_by(k) >> summarize", lambda mklit=mklit: t >> pdt.mutate(k=mklit()) >> pdt.group_by(pdt.C.k) >> pdt.summarize(n=pdt.count()), lambda out, val=val: out.rows() == [(val, len(sv))]),
                    (f"mutate(k={lname}) >> arrange(k, h.descending())", lambda mklit=mklit: t >> pdt.mutate(k=mklit()) >> pdt.arrange(pdt.C.k, t.h.descending()) >> pdt.select(t.h), lambda out: out["h"].to_list() == list(range(6, -1, -1))),
                    (f"row_number(partition_by={lname} column, arrange=h)", lambda mklit=mklit: t >> pdt.mutate(k=mklit()) >> pdt.mutate(r=pdt.row_number(partition_by=pdt.C.k, arrange=t.h)) >> pdt.select(t.h, pdt.C.r), lambda out: sorted(out.rows()) == [(h, h + 1) for h in range(7)]),
                    (f"filter(s == {lname} column)", lambda mklit=mklit: t >> pdt.mutate(k=mklit()) >> pdt.filter(pdt.C.k.cast(pdt.String()) == t.s) >> pdt.select(t.h), lambda out, val=val: sorted(out["h"].to_list()) == [h for h, v in enumerate(sv) if v == str(val)]),
                ]
            cases += [
                ("arrange(lit(1), h.descending())  [a literal as sort key]", lambda: t >> pdt.arrange(pdt.lit(1), t.h.descending()) >> pdt.select(t.h), lambda out: out["h"].to_list() == list(range(6, -1, -1))),
                ("row_number(arrange=lit('x')) / shift(1, arrange=[lit(2), h])", lambda: t >> pdt.mutate(r=pdt.row_number(arrange=pdt.lit("x")), sh=t.h.shift(1, arrange=[pdt.lit(2), t.h])) >> pdt.select(t.h, pdt.C.r, pdt.C.sh),
                 lambda out: sorted(out["r"].to_list()) == list(range(1, 8)) and sorted(out.select("h", "sh").rows()) == [(h, (h - 1 if h else None)) for h in range(7)]),
            ]
            # sort keys / partitions that differ ONLY in a literal are different keys
            k1 = lambda: (t.s != "it's")  # noqa: E731
            k2 = lambda: (t.s != "a%b")  # noqa: E731
            key_py = lambda v: (v is None, (v != "it's") if v is not None else False, (v != "a%b") if v is not None else False)  # noqa: E731
            want_h = [h for _, h in sorted((key_py(v), h) for h, v in enumerate(sv))]
            cases += [
                ("arrange((s != lit1).nulls_last, (s != lit2).nulls_last, h)  [keys differ only in the literal]", lambda: t >> pdt.arrange(k1().nulls_last(), k2().nulls_last(), t.h) >> pdt.select(t.h), lambda out: out["h"].to_list() == want_h),
                ("arrange(s == 'x', s == 'q_', h)", lambda: t >> pdt.arrange((t.s == "x").nulls_last(), (t.s == "q_").nulls_last(), t.h) >> pdt.select(t.h),
                 lambda out: out["h"].to_list() == [h for _, h in sorted(((v is None, v == "x", v == "q_"), h) for h, v in enumerate(sv))]),
                ("row_number(arrange=[s != lit1, s != lit2, h])", lambda: t >> pdt.mutate(r=pdt.row_number(arrange=[k1().nulls_last(), k2().nulls_last(), t.h])) >> pdt.select(t.h, pdt.C.r),
                 lambda out: sorted(out.rows()) == sorted((h, i + 1) for i, h in enumerate(want_h))),
            ]
            for label, mk, ok in cases:
                n += 1
                try:
                    out = mk() >> pdt.export(pdt.Polars())
                except (pdt.errors.SubqueryError, pdt.errors.NotSupportedError):
                    continue
                except Exception as ex:  # noqa: BLE001
                    bad.append(f"[{be}] {label}: raises {type(ex).__name__}: {str(ex)[:140]}")
                    continue
                if not ok(out):
                    bad.append(f"[{be}] {label}: got {out.rows()[:8]}")
    return _enum_outcome("literal-valued case / map / coalesce expressions are data when used as grouping, sorting, partitioning and filter keys (Python oracle)", n, bad)


def obligations(tier):
    obs = []
    disp = {"polars": H.fn_info(H.polars_backend.compile_col_expr), "sqlite": H.fn_info(H.sql_backend.SqlImpl.compile_col_expr)}
    bcls = {"polars": H.polars_backend.PolarsImpl, "sqlite": H.sqlite_backend.SqliteImpl}
    lits = LITERALS if tier == "thorough" else LITERALS
    for kind in KINDS:
        for lit in lits:
            lit2 = {"is_in": "zz", "replace_all": "X", "case_value": lit + "'"}.get(kind)
            if kind in ("equal_none", "not_equal_none") and lit != lits[0]:
                continue  # these two do not depend on the string literal
            if kind == "replace_all" and lit == "":
                continue  # replacing the empty string is engine specific (not a documented behaviour)
            for backend in BACKENDS:
                fns = [disp[backend]]
                if kind in OP_OF:
                    op = H.ALL_OPS[OP_OF[kind]]
                    sig = {"is_in": (String(), H.types_mod.Const(String()), H.types_mod.Const(String())), "is_in_none": (String(), H.types_mod.Const(String()), H.types_mod.Const(String())), "contains": (String(), H.types_mod.Const(String()), H.types_mod.Const(Bool()), H.types_mod.Const(Bool())), "replace_all": (String(), H.types_mod.Const(String()), H.types_mod.Const(String()))}.get(kind, (String(), H.types_mod.Const(String())))
                    f = H.impl_function(bcls[backend], op, sig)
                    if f:
                        fns.append(H.fn_info(f))
                if backend == "sqlite":
                    fns.append(H.fn_info(H.sql_backend.SqlImpl.compile_lit))
                obs.append(
                    Obligation(
                        f"C18/L2/{kind}/{backend}/{lit!r}",
                        "L2",
                        f"{kind} with the literal {lit!r} on {backend} treats the literal as data",
                        make_run(kind, lit, lit2, backend),
                        functions=fns,
                        carveouts={"regex_meta_pattern": "pattern contains regex metacharacters"},
                        replayer=make_replayer(kind, lit, lit2, backend),
                        tags=("cross_backend",),
                    )
                )
                obs.append(Obligation(f"C18/LIB/{kind}/{backend}/{lit!r}", "LIB", f"{kind} with the literal {lit!r} on {backend}: the specification agrees with the real engine on sampled values", make_lib(kind, lit, lit2, backend), functions=fns,
                                      bounded="10 sampled column values per literal (null, the literal itself, embedded, doubled, reversed, unrelated); native execution", carveouts={"regex_meta_pattern": "pattern contains regex metacharacters", "whole": "whole obligation"}))
    from . import c06

    obs.append(Obligation("C18/L5/literal_defaults_below_outer_joins", "L5", "computed columns with literal defaults (fill_null(0), when(..).then(-1), constants) on the null-extended side of outer joins: the literal's value does not change where it is evaluated (= C06/N5)", c06.n5_core_run,
                          functions=[H.fn_info(H.pdt._internal.pipe.cache.null_for_null_input)], bounded="the C06/N5 join matrix (operand variants right_const / right_computed / left_computed / *_alias)"))
    obs.append(Obligation("C18/L4/str_join_delimiter", "L4", "the delimiter of str.join is a correctly quoted literal in the SQL text of every dialect, with and without arrange=", l4_run, functions=[H.fn_info(H.sqlite_backend.SqliteImpl.compile_ordered_aggregation)],
                          bounded="7 delimiters x ordered / unordered x 3 dialects (rendered text)", carveouts={"strjoin_ordered_sqlite": "':x' / '%' as delimiter of an ordered str.join on SQLite", "pyformat_literal": "'%(a)s' on the dialects with positional parameters"}))
    obs.append(Obligation("C18/L3/literal_valued_keys", "L3", "case / map / coalesce expressions with literal values used as keys (native, Python oracle)", l3_run,
                          functions=[H.fn_info(H.col_expr_mod.CaseExpr.dtype), H.fn_info(H.sql_backend.SqlImpl.compile_ast), H.fn_info(H.sql_backend.SqlImpl.compile_lit)], bounded="6 key uses x 2 backends on one 7-row column with metacharacter literals"))
    return obs


DESIGN_REF = "DESIGN.md §5.18"
ASSUMPTIONS = [
    "the literal alphabet is the fixed list LITERALS (every SQL / LIKE / regex metacharacter alone and in combination); column values are arbitrary strings (z3 string theory) or null",
    "SQLAlchemy renders bound literals (sqa.literal / literal_binds) with correct quoting for the dialect (trusted; T-lib)",
    "SQLite's LIKE is case-insensitive for ASCII letters by default; the library warns about it (warn_non_standard) - the model treats LIKE as case-sensitive, so that documented deviation is not re-reported",
    "replace_all on literal occurrences is an uninterpreted function shared by SQL REPLACE and polars literal replacement",
]
