"""C01 - Polars and SQL backends return the same table for the same pipeline.

The statement quantifies over all pipelines; the deductive content is the composition of per-construct obligations that
live with the properties they are anchored in:

  expressions   C03 (operators, cross_backend obligations), C04 (aggregates), C05 (window functions), C16/C17 (casts, literals)
  verbs         C02 (row-level verbs), C06 (joins), C07 (summarize), C08 (SQL clause placement), C09/C11 (names, metadata)

Each of those proves, per construct, `den_sqlite(compile_sql(c)) == den_polars(compile_polars(c))` under the callee
contract of the child pipeline.  What is decided *here*:

  L1  dispatch totality (static contract): polars.compile_ast, SqlImpl.compile_ast and Cache.update have a branch for
      every Verb subclass of tree/verbs.py, each recursing into nd.child exactly once (so the per-verb step obligations
      compose by induction over the verb chain and no verb escapes them)
  D   bounded stand-in for the composition itself: every pipeline over a 24-step alphabet up to a depth, on four input
      tables (nulls+duplicates, empty, single row, 120 rows with a 40-row null prefix), is executed natively on Polars
      and on in-memory SQLite and compared: names, order, rows (sequence if the last order-relevant verb is an arrange
      on a unique key, multiset otherwise); SubqueryError / NotSupportedError on the SQL side is permitted
"""

from __future__ import annotations

import ast
import inspect
import itertools
import textwrap

from .. import harness as H
from .. import pipelines as P
from ..oblig import Obligation, Outcome
from .c13 import _enum_outcome

pdt = H.pdt


# verbs that legitimately need no branch: they carry no operation for that function
EXEMPT = {
    ("polars.compile_ast", "Alias"): "identity on the frame (C02 alias step obligation)",
    ("SqlImpl.compile_ast", "Alias"): "identity on the query (the subquery boundary is the SubqueryMarker)",
    ("polars.compile_ast", "SubqueryMarker"): "polars needs no subquery: identity",
    ("Cache.update", "Arrange"): "arrange changes no metadata",
}


def l1_run(carve):
    V = pdt._internal.tree.verbs
    verb_classes = sorted(n for n, c in vars(V).items() if isinstance(c, type) and issubclass(c, V.Verb) and c is not V.Verb)
    import pydiverse.transform._internal.backend.polars as PB
    import pydiverse.transform._internal.backend.sql as SB
    import pydiverse.transform._internal.pipe.cache as CA

    n, bad = 0, []
    for label, fn in (("polars.compile_ast", PB.compile_ast), ("SqlImpl.compile_ast", SB.SqlImpl.compile_ast), ("Cache.update", CA.Cache.update)):
        tree = ast.parse(textwrap.dedent(inspect.getsource(fn)))
        handled = set()
        for node in ast.walk(tree):
            if isinstance(node, ast.Call) and isinstance(node.func, ast.Name) and node.func.id == "isinstance" and len(node.args) == 2:
                for sub in ast.walk(node.args[1]):
                    if isinstance(sub, ast.Attribute) and isinstance(sub.value, ast.Name) and sub.value.id == "verbs":
                        handled.add(sub.attr)
        for vc in verb_classes:
            n += 1
            if vc not in handled and (label, vc) not in EXEMPT:
                bad.append(f"{label} has no branch for verbs.{vc}")
        if label != "Cache.update":
            # exactly one recursive call on nd.child (the induction hypothesis is used once per step)
            rec = [c for c in ast.walk(tree) if isinstance(c, ast.Call) and ((isinstance(c.func, ast.Name) and c.func.id == "compile_ast") or (isinstance(c.func, ast.Attribute) and c.func.attr == "compile_ast"))
                   and c.args and ast.unparse(c.args[0]) == "nd.child"]
            n += 1
            if len(rec) != 1:
                bad.append(f"{label} recurses into nd.child {len(rec)} times (the step contracts assume exactly once)")
    return _enum_outcome(f"every Verb subclass {verb_classes} has a branch in both compilers and in Cache.update; the compilers recurse into nd.child exactly once", n, bad)


def make_d(kind, depth, first):
    def run(carve):
        S = P.steps()
        n, bad, refused, rejected = 0, [], 0, 0
        for rest in itertools.product(range(len(S)), repeat=depth - 1):
            pipe = [S[first]] + [S[i] for i in rest]
            r = P.compare(pipe, kind, carve)
            if r is None:
                continue
            n += 1
            if r[0] == "mismatch":
                bad.append(r[1])
            elif r[0] == "refused":
                refused += 1
            elif r[0] == "rejected":
                rejected += 1
        out = _enum_outcome(f"[{kind}] every pipeline of {depth} steps starting with {S[first].label}: Polars and SQLite export the same names, order and rows (SQL may refuse with SubqueryError / NotSupportedError)", n, bad, allow_empty=True)
        out.notes = [f"refused by SQL: {refused}; rejected identically by both: {rejected}; compared: {n - refused - rejected}"]
        return out

    return run


def replay(model):
    return {"reproduced": True, "text": str(model.get("case"))}


def obligations(tier):
    fi = H.fn_info
    import pydiverse.transform._internal.backend.polars as PB
    import pydiverse.transform._internal.backend.sql as SB
    import pydiverse.transform._internal.pipe.cache as CA

    fns = [fi(PB.compile_ast), fi(SB.SqlImpl.compile_ast), fi(SB.SqlImpl.compile_query), fi(CA.Cache.update), fi(PB.PolarsImpl.export), fi(SB.SqlImpl.export)]
    S = P.steps()
    obs = [Obligation("C01/L1/dispatch_totality", "L1", "both compilers and the metadata cache handle every verb class and recurse once", l1_run, functions=fns[:4])]
    plan = [("mixed", 1), ("mixed", 2), ("mixed", 3), ("empty", 1), ("empty", 2), ("single", 1), ("single", 2), ("tall", 1), ("tall", 2)]
    if tier == "thorough":
        plan += [("empty", 3), ("single", 3), ("tall", 3), ("mixed", 4)]
    for kind, depth in plan:
        for i, st in enumerate(S):
            obs.append(Obligation(f"C01/D/{kind}/d{depth}/{st.label}", "D", f"native Polars vs SQLite differential, {kind} input, {depth} steps, first step {st.label}", make_d(kind, depth, i), functions=fns,
                                  bounded=f"all pipelines over the {len(S)}-step alphabet of exactly {depth} steps starting with {st.label}; input table `{kind}`", carveouts={"hidden_group_col": "a grouping column is overwritten while the table is grouped (F-hidden-group-col)"}))
    return obs


DESIGN_REF = "DESIGN.md §5.1"
ASSUMPTIONS = [
    "C01 is the composition of the per-construct cross-backend obligations of C02-C09, C11, C16, C17 (each discharged under the callee contract of the child pipeline); the composition itself is not re-proved here - L1 checks that no verb class escapes the per-verb obligations",
    "D executes real pipelines on polars and on in-memory SQLite (the executable SQL representative): bounded by the step alphabet, the depth and the four input tables",
    "value domain as in DESIGN.md §4: no division by zero, overflow, non-finite floats; order-sensitive steps are only used while the unique key h is unique; a slice_head under an unspecified row order is compared by row count only",
]
LEVEL = "other"
EXPLANATION = "Static dispatch-totality contract on both compilers plus a bounded native Polars-vs-SQLite differential over all pipelines up to a depth on four input tables; the unbounded per-construct cross-backend obligations are discharged under C02-C09/C11/C16/C17."


def make_e(kind, ctx_i, tail):
    def run(carve):
        ctxs = P.contexts()
        n, bad, refused, rejected = 0, [], 0, 0
        for st in P.expr_steps():
            pipe = list(ctxs[ctx_i]) + [st] + list(tail)
            r = P.compare(pipe, kind)
            if r is None:
                continue
            n += 1
            if r[0] == "mismatch":
                bad.append(r[1])
            elif r[0] == "refused":
                refused += 1
            elif r[0] == "rejected":
                rejected += 1
                if ctx_i == 0 and not tail:
                    bad.append(f"vacuity: the expression step {st.label} is rejected on the bare table (the alphabet entry tests nothing)")
        out = _enum_outcome(f"[{kind}] context {' >> '.join(s.label for s in ctxs[ctx_i])} followed by every expression step: Polars and SQLite agree", n, bad, allow_empty=True)
        out.notes = [f"refused by SQL: {refused}; rejected identically by both: {rejected}"]
        return out

    return run


def make_r(chunk, seed, per_chunk=220):
    """seeded random pipelines of 4-6 steps over the whole alphabet (verb steps + expression steps): sequences the exhaustive
    depth-3 enumeration cannot reach"""
    def run(carve):
        import random

        S = P.steps() + P.expr_steps()
        rnd = random.Random(f"C01/R/{seed}/{chunk}")
        n, bad, refused, tried = 0, [], 0, 0
        kinds = ("mixed", "mixed", "tall", "single", "empty")
        while n < per_chunk and tried < per_chunk * 30:
            tried += 1
            depth = rnd.choice((4, 4, 5, 5, 6))
            pipe = [rnd.choice(S) for _ in range(depth)]
            # keep the share of joins / unions moderate (they multiply rows)
            if sum(1 for st in pipe if st.breaks) > 2:
                continue
            kind = rnd.choice(kinds)
            r = P.compare(pipe, kind, ("hidden_group_col",))  # pipelines that hide a grouping column while grouped are the known finding F-hidden-group-col (reported by the D obligations)
            if r is None or r[0] == "rejected":
                continue
            n += 1
            if r[0] == "mismatch":
                bad.append(r[1])
            elif r[0] == "refused":
                refused += 1
        out = _enum_outcome(f"{per_chunk} seeded random pipelines of 4-6 steps (chunk {chunk}, seed {seed}): Polars and SQLite agree", n, bad)
        out.notes = [f"refused by SQL: {refused}; candidates drawn: {tried}"]
        return out

    return run


def make_h(kind, stasher_i):
    """references to hidden columns through an earlier table object: stasher >> V >> [alias(keep_col_refs=True)] >> user"""
    def run(carve):
        stashers, users, alias_keep = P.hidden_ref_steps()
        S = P.steps()
        n, bad, refused = 0, [], 0
        for v in [None] + S:
            for ak in (False, True):
                for u in users:
                    pipe = [stashers[stasher_i]] + ([v] if v is not None else []) + ([alias_keep] if ak else []) + [u]
                    r = P.compare(pipe, kind, ("hidden_group_col",))
                    if r is None or r[0] == "rejected":
                        continue
                    n += 1
                    if r[0] == "mismatch":
                        bad.append(r[1])
                    elif r[0] == "refused":
                        refused += 1
        out = _enum_outcome(f"[{kind}] {stashers[stasher_i].label} >> V >> [alias(keep_col_refs=True)] >> use of the hidden column: Polars and SQLite agree", n, bad, allow_empty=True)
        out.notes = [f"refused by SQL: {refused}"]
        return out

    return run


_obligations_d = obligations


def make_o(chunk, nchunks):
    """operator sweep: every operator of the registry x every accepted signature over the sample types (columns, literals, an
    untyped None), executed in a one-verb pipeline on Polars and on SQLite; the two results are compared row by row"""
    def run(carve):
        import datetime
        import math
        import warnings

        import polars as pl
        import sqlalchemy as sqa

        from .. import typeuniverse as TU
        from . import c12

        pdt = H.pdt
        T = H.types_mod
        cols = ["i64", "f64", "s", "b", "i64b", "f64b", "sb", "bb", "g", "d", "dt", "db", "dtb"]
        df = c12.frames().select(cols).with_columns(f64=pl.Series([0.5, None, -0.25]), f64b=pl.Series([0.75, 1.0, None]), h=pl.Series([0, 1, 2]))  # h: unique key (total window / output order)
        # three more rows: negative and mixed-sign operands (no zero divisors), equal operands
        more = df.head(3).with_columns(i64=pl.Series([-7, -8, 5]), i64b=pl.Series([-3, 3, 5]), f64=pl.Series([2.5, -1.5, 0.75]), f64b=pl.Series([-0.5, 2.0, 0.75]), s=pl.Series(["q", "", "a"]), sb=pl.Series(["a", "b", "a"]),
                                       b=pl.Series([False, True, None]), bb=pl.Series([None, False, True]), g=pl.Series([2, 3, 3]), h=pl.Series([3, 4, 5]))
        df = pl.concat([df, more])
        eng = sqa.create_engine("sqlite://")
        df.write_database("t", eng)
        tabs = (pdt.Table(df, name="t"), pdt.Table("t", pdt.SqlAlchemy(eng)))
        # literals by position (ascending, so that bounds are ordered: clip(x, lower, upper))
        lits = {"int": [1, 2, 3], "float": [0.25, 1.5, 2.5], "string": ["a", "b", "c"], "bool": [True, False, True], "date": [datetime.date(2019, 6, 1), datetime.date(2020, 1, 2), datetime.date(2022, 1, 1)],
                "datetime": [datetime.datetime(2019, 6, 1), datetime.datetime(2020, 1, 2, 3, 4, 5), datetime.datetime(2022, 1, 1)]}

        def mk_args(t, sig, variant):
            args, used = [], {}
            for pos, p in enumerate(sig):
                fam = TU.family(p)
                if T.is_const(p):
                    if fam == "nulltype":
                        args.append(None)
                    elif fam in lits:
                        args.append(lits[fam][min(pos, 2)])
                    else:
                        return None
                else:
                    names = c12.COLMAP.get(type(T.without_const(p)).__name__)
                    if names is None or names[0] not in cols:
                        return None
                    k = used.get(names[0], 0)
                    used[names[0]] = k + 1
                    args.append(t[names[min(k, 1) if variant == 0 else 1 - min(k, 1)]])
            return args

        def norm(v):
            if isinstance(v, bool) or v is None:
                return v
            if isinstance(v, (int, float)) or type(v).__name__ == "Decimal":
                f = float(v)
                return None if math.isnan(f) or math.isinf(f) else (0.0 if f == 0 else float(f"{f:.9e}"))  # non-finite results are outside the value domain (DESIGN.md section 4): compared as NULL
            return v

        n, bad = 0, []
        ops_ = [(k, v) for k, v in H.ALL_OPS.items() if not isinstance(v, pdt._internal.ops.ops.markers.Marker) and k not in ("rand", "list_agg", "str_join")]
        with warnings.catch_warnings():
            warnings.simplefilter("ignore")
            for opname, op in ops_[chunk::nchunks]:
                for sig in c12.sig_universe(op):
                    if len(sig) > 3:
                        continue
                    if opname in ("str_to_datetime", "str_to_date"):
                        continue  # need well-formed date strings: C03/LIB-dt
                    if opname == "str_slice" and (TU.is_null_typed(sig[2]) or not T.is_const(sig[2])):
                        continue  # a null length is not documented (Polars: to the end, SQL: null)
                    ctxs = [""]
                    if op.ftype == H.Ftype.WINDOW:
                        ctxs = ["", "partition_by"]
                    elif op.ftype == H.Ftype.AGGREGATE:
                        ctxs = ["", "ungrouped", "window", "window_all", "filter", "window_filter"]
                    for variant, ctx in itertools.product((0, 1), ctxs):
                        if variant == 1 and (len(sig) < 2 or ctx):
                            continue
                        res = []
                        for t in tabs:
                            args = mk_args(t, sig, variant)
                            if args is None:
                                break
                            try:
                                kw = {"arrange": [t.g, t.h.descending()]} if op.ftype == H.Ftype.WINDOW else {}
                                if ctx in ("partition_by", "window", "window_filter"):
                                    kw["partition_by"] = [t.g]
                                if ctx in ("filter", "window_filter"):
                                    kw["filter"] = t.bb
                                e = H.ColFn(op, *args, **kw)
                                if op.ftype == H.Ftype.AGGREGATE and ctx in ("", "filter"):
                                    tbl = t >> pdt.group_by(t.g) >> pdt.summarize(r=e) >> pdt.arrange(pdt.C.g)
                                elif op.ftype == H.Ftype.AGGREGATE and ctx == "ungrouped":
                                    tbl = t >> pdt.summarize(r=e)
                                else:
                                    tbl = t >> pdt.mutate(r=e) >> pdt.arrange(t.h)
                                res.append(("ok", [norm(v) for v in (tbl >> pdt.export(pdt.Polars()))["r"].to_list()]))
                            except (pdt.errors.NotSupportedError, pdt.errors.SubqueryError):
                                res.append(("refused",))
                            except (pdt.errors.DataTypeError, pdt.errors.FunctionTypeError, TypeError) as ex:
                                res.append(("rejected", type(ex).__name__))
                            except Exception as ex:  # noqa: BLE001
                                res.append(("error", f"{type(ex).__name__}: {str(ex)[:100]}"))
                        if len(res) < 2:
                            continue
                        n += 1
                        lab = f"{opname}{c12._fmt(sig)}{' [' + ctx + ']' if ctx else ''} (sample columns variant {variant})"
                        if res[0][0] == "error" or res[1][0] == "error":
                            bad.append(f"{lab}: polars {res[0]}, sqlite {res[1]}")
                        elif res[0][0] == "ok" and res[1][0] == "ok" and res[0][1] != res[1][1]:
                            bad.append(f"{lab}: polars {res[0][1]}, sqlite {res[1][1]}")
                        elif res[0][0] != res[1][0] and res[1][0] != "refused" and res[0][0] != "refused":
                            bad.append(f"{lab}: polars {res[0]}, sqlite {res[1]}")
        return _enum_outcome("every operator x accepted signature gives the same column on Polars and SQLite (or is refused by one of them with NotSupportedError)", n, bad, allow_empty=True)

    return run


def obligations(tier):  # noqa: F811
    obs = _obligations_d(tier)
    fns = obs[1].functions
    ctxs = P.contexts()
    B = {st.label: st for st in P.steps()}
    tails = [("", []), (">>filter", [B["filter(a>1)"]]), (">>arrange", [B["arrange(h.desc)"]])]
    if tier == "thorough":
        tails += [(">>summarize", [B["summarize(n,m)"]]), (">>alias>>mutate", [B["alias"], B["mutate(x=a+h)"]]), (">>slice", [B["slice_head(3,1)"]])]
    import os

    seed = int(os.environ.get("VERIF_SEED", "0") or 0)
    for chunk in range(16 if tier == "quick" else 64):
        obs.append(Obligation(f"C01/R/{chunk:02d}", "R", "seeded random pipelines of 4-6 steps (native differential)", make_r(chunk, seed), functions=fns,
                              bounded=f"220 random pipelines of 4-6 steps per chunk over {len(P.steps()) + len(P.expr_steps())} steps, inputs mixed / tall / single / empty; seed {seed}",
                              carveouts={"hidden_group_col": "a grouping column is overwritten while the table is grouped (F-hidden-group-col)"}))
    for kind in ("mixed", "single", "tall"):
        for si in range(3):
            obs.append(Obligation(f"C01/H/{kind}/stasher{si}", "H", "references to hidden columns through an earlier table object (native differential)", make_h(kind, si), functions=fns,
                                  bounded=f"one column-hiding step >> every step V of the alphabet >> with / without alias(keep_col_refs=True) >> 3 uses of the hidden column; input `{kind}`"))
    from . import c06

    obs.append(Obligation("C01/J/outer_join_matrix", "J", "exact row combinations of inner / left / full joins with computed, constant, filtered, aliased and nested operands: Polars and SQLite against a Python oracle (= C06/N5)", c06.n5_core_run, functions=fns,
                          bounded="the C06/N5 join matrix: 20 predicate shapes x 3 join kinds x 13 operand variants x 2 backends"))
    for ch in range(8):
        obs.append(Obligation(f"C01/O/operator_sweep/{ch}", "O", "every operator x accepted signature in a one-verb pipeline: Polars vs SQLite, row by row", make_o(ch, 8), functions=fns[:2] + [H.fn_info(H.polars_backend.compile_col_expr), H.fn_info(H.sql_backend.SqlImpl.compile_col_expr)],
                              bounded="all operators x signatures over 7 sample types (columns, positional literals, an untyped None; arity <= 3) x 2 column choices (aggregates: grouped / ungrouped / as window with and without partition / with filter=; window functions: with and without partition_by) on one 6-row table (nulls, negative and mixed-sign operands); non-finite results compared as NULL"))
    for kind in ("mixed", "empty", "single", "tall"):
        for i, cx in enumerate(ctxs):
            for tl, tail in tails:
                lab = ">>".join(s.label for s in cx)
                obs.append(Obligation(f"C01/E/{kind}/{lab}>>EXPR{tl}", "E", f"native differential: context {lab}, then every expression step{tl}, {kind} input", make_e(kind, i, tail), functions=fns,
                                      bounded=f"{len(P.expr_steps())} expression steps (window functions x ordering markers x partitioning, aggregates, case, arithmetic, strings, casts) in the context {lab}{tl}; input `{kind}`"))
    return obs
