"""C09 - column references denote columns, not names.

Inductive step (tablestep.py) with symbolic names, for single-table verbs and joins:
  R2  Polars: every uuid in scope after a verb is mapped (name_in_df) to a physical column of the frame
      that holds the SAME data token as before the verb; a new column holds its expression evaluated on
      the pre-state frame (overwriting mutate, rename onto hidden names, join collisions included)
  R3  SQL: sqa_expr[u] still refers to the same underlying column for every pre-existing u
  R4  resolution: C.name resolves to the column currently carrying that name, a Col reference to the
      column with its uuid (whatever its current name), `derived[col].name` is the current name, an
      out-of-scope reference raises ColumnNotFoundError                               [symbolic names]
  R5  scope after summarize / alias: exactly the documented columns stay referable
"""

from __future__ import annotations

import itertools

import z3

from .. import core, lfmodel, plmodel, sqlmodel
from .. import harness as H
from .. import tablestep as TS
from ..oblig import VC, Obligation, Outcome
from ..symname import SymName, name_eq
from . import c11
from .c11 import col_of

pdt = H.pdt
verbs_mod = pdt._internal.pipe.verbs


def token_of_sql(e):
    """underlying base-column token of a SQL expression that only relabels a column (else None)"""
    while isinstance(e, sqlmodel.SX) and e.kind in ("label", "type_coerce"):
        e = e.args[1] if e.kind == "label" else e.args[0]
    return getattr(e, "token", None) if isinstance(e, sqlmodel.SX) and e.kind == "column" else None


def join_steps(L, R):
    out = []
    lv, rv = L.vis, R.vis
    for how in ("inner", "left", "full"):
        for i in lv[:1]:
            for j in rv[:1]:
                out.append((f"join({how},l{i}==r{j})", lambda pres, ts, i=i, j=j, how=how: ts[0] >> pdt.join(ts[1], col_of(pres[0], i) == col_of(pres[1], j), how)))
    if lv and rv:
        out.append(("join(inner,on_name_str)", lambda pres, ts: ts[0] >> pdt.join(ts[1], col_of(pres[0], pres[0].vis[0]) == col_of(pres[1], pres[1].vis[-1]), "inner", suffix="_x")))
        out.append(("cross_join", lambda pres, ts: ts[0] >> pdt.cross_join(ts[1])))
        out.append(("join(left,l<r)", lambda pres, ts: ts[0] >> pdt.join(ts[1], col_of(pres[0], pres[0].vis[0]) < col_of(pres[1], pres[1].vis[0]), "left")))
    return out


def make_run(pre_factories, label, fn, backend):
    def run(carve):
        plmodel.reset_state()
        pres = [f() for f in pre_factories]
        extra = []
        if "join_helper_names" in carve:
            allp = [n for p in pres for n in p.phys]
            for x in allp:
                extra.append(x.t != z3.StringVal("__INDEX__"))
                for a in pres[0].phys:
                    extra.append(x.t != z3.Concat(a.t, z3.StringVal("_right")))
        paths, wit = TS.explore_step(pres, fn, backend, extra_facts=extra)
        vc = VC(f"[{', '.join(str(p.skel) for p in pres)}] {label} ({backend}): every column in scope keeps its data; references by uuid stay compilable")
        tok_pre = {}
        for p in pres:
            for i, u in enumerate(p.uuids):
                tok_pre[u] = p.token(i)
        for p in paths:
            vc.paths += 1
            if p.kind == "exc":
                vc.require(p.pc, z3.BoolVal(False), f"an accepted verb makes the {backend} compilation fail: {type(p.value).__name__}: {str(p.value)[:200]}", wit)
                continue
            if p.value[0] == "rejected":
                vc.queries += 1
                continue
            _, new, state, aux, tables, _probe = p.value
            node = new._ast
            if isinstance(node, TS.verbs_tree.Alias) and node.uuid_map is not None:
                inv = {v: k for k, v in node.uuid_map.items()}
            else:
                inv = None
            if backend == "polars":
                df, name_in_df, select, _ = state
                for u in new._cache.cols:
                    bu = inv[u] if inv else u
                    if bu not in name_in_df:
                        vc.require(p.pc, z3.BoolVal(False), f"column {u} is in scope but has no physical column (J5)", wit)
                        continue
                    pn, held = aux["lookup"][bu]
                    if held is None:
                        vc.require(p.pc, z3.BoolVal(False), f"physical column {pn!r} of an in-scope column is not in the frame", wit)
                        continue
                    if bu in tok_pre:
                        vc.require(p.pc, z3.BoolVal(held == tok_pre[bu]), f"R2: a pre-existing column now reads other data: expected {tok_pre[bu]}, frame column {pn!r} holds {held}", wit)
                    else:
                        tok = held
                        ok = _new_token_ok(tok, tok_pre)
                        vc.require(p.pc, z3.BoolVal(ok), f"R2: a new column was not computed from pre-state data: {tok}", wit)
                # R4 after the verb: a reference by NAME (C.name, "name") denotes the frame column that carries this name now
                for nm, u in new._cache.name_to_uuid.items():
                    bu = inv[u] if inv else u
                    if bu in name_in_df:
                        vc.require(p.pc, name_eq(nm, name_in_df[bu]), "R4: after the verb the name a column is known by differs from the name its frame column carries (a by-name reference would read another column / fail)", wit)
            else:
                table, query, sqa_expr = state
                vc.queries += 1
                for u in new._cache.cols:
                    bu = inv[u] if inv else u
                    if bu not in sqa_expr:
                        vc.require(p.pc, z3.BoolVal(False), f"column {u} is in scope but has no SQL expression (J'5)", wit)
                        continue
                    if bu in tok_pre:
                        vc.require(p.pc, z3.BoolVal(token_of_sql(sqa_expr[bu]) == tok_pre[bu]), f"R3: a pre-existing column now refers to {token_of_sql(sqa_expr[bu])}, expected {tok_pre[bu]}", wit)
        return vc.outcome()

    return run


def _new_token_ok(tok, tok_pre):
    """a new column's token must be an operator tree over pre-state source tokens only"""
    pre = set(tok_pre.values())

    def walk(t):
        if isinstance(t, tuple):
            if t in pre:
                return True
            if len(t) >= 1 and t[0] == "src":
                return t in pre
            return all(walk(x) for x in t)
        return True

    return walk(tok)


# ---- R4: resolution ----------------------------------------------------------------------


def make_r4_run(skel):
    def run(carve):
        plmodel.reset_state()
        pre = TS.Pre(skel)
        from pydiverse.transform._internal.tree.col_expr import ColName

        foreign = H.Col(SymName("fx"), TS._SrcNode("other"), __import__("uuid").uuid1(), pre.dtypes[0], pre.ftypes[0])
        q = SymName("q")  # an arbitrary name used through C.<q>

        def body():
            t = pre.table()
            res = {}
            # C.q resolves to the column currently named q (if any)
            try:
                c = verbs_mod.preprocess_arg(ColName(q), t)
                res["cname"] = ("col", c._uuid, c.name)
            except pdt.errors.ColumnNotFoundError:
                res["cname"] = ("notfound",)
            # a Col reference resolves by uuid, whatever name it carries
            for i in range(skel.w):
                stale = H.Col(SymName("stale"), pre.node, pre.uuids[i], pre.dtypes[i], pre.ftypes[i])
                c = verbs_mod.preprocess_arg(stale + 1, t)
                leaf = [x for x in c.iter_subtree_postorder() if isinstance(x, H.Col)][0]
                res[f"col{i}"] = leaf._uuid
                try:
                    res[f"getitem{i}"] = ("name", t[stale].name)
                except pdt.errors.ColumnNotFoundError:
                    res[f"getitem{i}"] = ("notfound",)
            try:
                verbs_mod.preprocess_arg(foreign + 1, t)
                res["foreign"] = "accepted"
            except pdt.errors.ColumnNotFoundError:
                res["foreign"] = "notfound"
            return res

        wit = {f"name{i}": n.t for i, n in enumerate(pre.phys)}
        wit["q"] = q.t
        paths = core.explore(body, base_pc=pre.facts + TS.reserved_name_facts(pre.phys + [q, SymName("stale"), SymName("fx")]), catch=(Exception,))
        vc = VC(f"[{skel}] resolution: C.q -> the column currently named q (ColumnNotFoundError iff no visible column is named q); Col -> same uuid regardless of its name; derived[col].name is the current name; foreign Col -> ColumnNotFoundError")
        for p in paths:
            vc.paths += 1
            if p.kind == "exc":
                vc.require(p.pc, z3.BoolVal(False), f"raises {type(p.value).__name__}: {p.value}", wit)
                continue
            r = p.value
            # C.q
            matches = [(i, name_eq(q, pre.phys[i])) for i in pre.vis]
            if r["cname"][0] == "col":
                idx = [i for i in range(skel.w) if pre.uuids[i] == r["cname"][1]]
                vc.require(p.pc, z3.And(z3.BoolVal(bool(idx) and idx[0] in pre.vis), name_eq(q, pre.phys[idx[0]]) if idx else z3.BoolVal(False)), "R4: C.q resolved to a column that is not the visible column named q", wit)
            else:
                vc.require(p.pc, z3.Not(z3.Or(*[m for _, m in matches])) if matches else z3.BoolVal(True), "R4: C.q was rejected although a visible column is named q", wit)
            for i in range(skel.w):
                vc.require(p.pc, z3.BoolVal(r[f"col{i}"] == pre.uuids[i]), "R4: a Col reference was resolved to a different uuid", wit)
                g = r[f"getitem{i}"]
                if i in pre.vis:
                    vc.require(p.pc, name_eq(g[1], pre.phys[i]) if g[0] == "name" else z3.BoolVal(False), "R4: derived[col].name is not the column's current name", wit)
                else:
                    vc.require(p.pc, z3.BoolVal(g[0] == "notfound"), "R4: derived[col] of a hidden column did not raise ColumnNotFoundError", wit)
            vc.require(p.pc, z3.BoolVal(r["foreign"] == "notfound"), "R4: a reference to a column of an unrelated table was accepted", wit)
        return vc.outcome()

    return run


def obligations(tier):
    fi = H.fn_info
    fns_p = [fi(TS.Cache.update), fi(H.polars_backend.compile_ast), fi(H.polars_backend.rename_overwritten_cols), fi(H.polars_backend.compile_col_expr), fi(verbs_mod.preprocess_arg)]
    fns_s = [fi(TS.Cache.update), fi(H.sql_backend.SqlImpl.compile_ast), fi(H.sql_backend.SqlImpl.compile_col_expr), fi(verbs_mod.preprocess_arg)]
    obs = []
    skels = list(TS.skeletons(3))
    keep3 = {("vis", "hid", "grp"), ("vis", "vis", "hid"), ("hid", "vis", "hid")}
    skels = [s for s in skels if s.w <= 2 or s.cols in keep3]
    for skel in skels:
        pf = [lambda skel=skel: TS.Pre(skel)]
        for label, fn in c11.steps_for(TS.Pre(skel), tier):
            f2 = lambda pres, ts, fn=fn: fn(pres[0], ts[0])  # noqa: E731
            for backend, fns in (("polars", fns_p), ("sql", fns_s)):
                obs.append(Obligation(f"C09/R2/{backend}/{skel}/{label}", "R2" if backend == "polars" else "R3", f"{label} on {skel}: columns in scope keep their data ({backend})", make_run(pf, label, f2, backend),
                                      functions=fns, bounded=f"table width {skel.w} (<= 3; names symbolic)", tags=("cross_backend",)))
        obs.append(Obligation(f"C09/R4/{skel}", "R4", "reference resolution by uuid / by current name", make_r4_run(skel),
                              functions=[fi(verbs_mod.preprocess_arg), fi(TS.Table.__getitem__), fi(TS.Table.__getattr__)], bounded=f"table width {skel.w} (<= 3; names symbolic)"))
    # joins: two tables
    jsk = [TS.Skeleton(c) for c in (("vis",), ("vis", "hid"), ("vis", "vis"), ("hid", "vis"))]
    for ls, rs in itertools.product(jsk, jsk):
        if tier == "quick" and ls.w + rs.w > 3 and not (ls.cols == ("vis", "hid") and rs.cols == ("vis", "hid")):
            continue
        pf = [lambda ls=ls: TS.Pre(ls, "l"), lambda rs=rs: TS.Pre(rs, "r")]
        for label, fn in join_steps(TS.Pre(ls, "l"), TS.Pre(rs, "r")):
            for backend, fns in (("polars", fns_p), ("sql", fns_s)):
                obs.append(Obligation(f"C09/R2/{backend}/{ls}x{rs}/{label}", "R2" if backend == "polars" else "R3", f"{label}: every column of both inputs keeps its data and stays referable ({backend})",
                                      make_run(pf, label, fn, backend), functions=fns + [fi(verbs_mod.join)], bounded=f"table widths {ls.w} and {rs.w} (names symbolic)", tags=("cross_backend",),
                                      carveouts={"join_helper_names": "no column is named __INDEX__ or <left column>_right"}))
    from . import c16

    from . import c14

    obs.append(Obligation("C09/R8/stale_references", "R8", "references to columns that no longer exist in a table (dropped by summarize, hidden by a union, out of scope after alias) are rejected in every verb, also in join conditions (= C14 rules G6)", c14.g_rules_run,
                          functions=[H.fn_info(verbs_mod.join)], bounded="the C14 rule set (rule x position x 4 histories x 2 backends)"))
    obs.append(Obligation("C09/R7/collect", "R7", "references (also those taken before a rename / an automatic join suffix) denote the same column with the same data after collect() (native)", c16._conc("collect() on 13 pipelines x keep_col_refs", c16.x3_check),
                          functions=[H.fn_info(verbs_mod.collect), H.fn_info(H.table_impl_mod.TableImpl.from_resource)], bounded="13 concrete pipelines on two frames (native Polars execution)"))
    obs.append(Obligation("C09/R6/self_join_sides", "R6", "aliased self-join: a reference through either table object denotes that side (native)", c16._conc("references through either table object of an aliased self-join denote that side", c16.x5b_check),
                          functions=[fi(verbs_mod.join), fi(H.verbs_tree.Join._clone) if hasattr(H, "verbs_tree") else fi(verbs_mod.join)], bounded="4 concrete self-join shapes x 2 backends (native execution against a hand-computed expectation)"))
    return obs


DESIGN_REF = "DESIGN.md §5.9"
ASSUMPTIONS = c11.ASSUMPTIONS + ["data identity is tracked by tokens: ('src', table, i) for the columns of the pre-state, operator trees over them for computed columns; row-level verbs are assumed not to alter the data of surviving rows (LazyFrame model)"]
LEVEL = "other"
EXPLANATION = c11.EXPLANATION.replace("discharges the invariants for the post-state", "discharges, for the post-state, that every in-scope uuid still addresses the same data token (Polars: physical column; SQL: underlying column expression) and that references resolve by uuid / current name")
