"""C16 - alias / collect / transfer_col_references re-root a table without changing data.

  X1  alias(): (step harness, symbolic names) Cache after a plain alias is the isomorphic image under a uuid bijection
      onto fresh uuids (names, order, grouping, scope), derived_from = {alias node}; alias(keep_col_refs=True) leaves the
      cache unchanged except derived_from; the backend state is untouched (C11/C09 alias steps)
  X2  clone invariant, per node class: the real _clone (child clone = contract) returns a fresh node, maps every Col
      of the node's expressions through the returned uuid_map / nd_map, gives fresh uuids to new columns, re-keys
      an alias' map; the original node is untouched
  X4  transfer_col_references: names/order unchanged, uuids taken from ref_source by name, ValueError iff a name is missing
  X3  collect(): same names / order, same uuids for visible columns, origin references still resolve, grouping kept   [native, bounded]
  X5  self-join after alias() is accepted and both SQL table occurrences get distinct aliases                       [native, bounded]
"""

from __future__ import annotations

import itertools
import uuid as _uuid

import z3

from .. import core, plmodel
from .. import harness as H
from .. import tablestep as TS
from ..oblig import VC, Obligation, Outcome
from ..symname import SymName, name_eq
from . import c11
from .c11 import col_of
from .c13 import _enum_outcome

pdt = H.pdt
VT = TS.verbs_tree
verbs_mod = pdt._internal.pipe.verbs


# ---- X1 ------------------------------------------------------------------------------------------------


def make_x1(skel, keep):
    def run(carve):
        plmodel.reset_state()
        pre = TS.Pre(skel)

        def fn(P, T):
            return T[0] >> pdt.alias("z", keep_col_refs=keep)

        paths, wit = TS.explore_step([pre], fn, "polars")
        vc = VC(f"[{skel}] alias(keep_col_refs={keep}): Cache is the isomorphic image under a bijection onto fresh uuids (unchanged if keep_col_refs), derived_from re-rooted")
        for p in paths:
            vc.paths += 1
            if p.kind == "exc" or p.value[0] != "ok":
                vc.require(p.pc, z3.BoolVal(False), f"alias failed: {p.value!r}"[:200], wit)
                continue
            new = p.value[1]
            c = new._cache

            class C0:  # the pre-state cache, described without building dicts keyed by symbolic names
                name_to_uuid = None
                vis_uuids = [pre.uuids[i] for i in pre.vis]
                vis_names = [pre.phys[i] for i in pre.vis]
                cols = {pre.uuids[i]: H.Col(pre.cname[i], pre.node, pre.uuids[i], pre.dtypes[i], pre.ftypes[i]) for i in range(skel.w)}
                partition_by = [pre.uuids[i] for i in pre.grp]
                derived_from = {pre.node}

            c0 = C0
            node = new._ast
            ok_node = isinstance(node, VT.Alias) and node.child is pre.node and node.name == "z"
            vc.require(p.pc, z3.BoolVal(ok_node), "the new node is not Alias(child = input node) with the new name", wit)
            if keep:
                vc.require(p.pc, z3.BoolVal(node.uuid_map is None and list(c.name_to_uuid.values()) == c0.vis_uuids and set(c.cols) == set(c0.cols) and c.partition_by == c0.partition_by), "keep_col_refs=True changed uuids / scope / grouping", wit)
                vc.require(p.pc, TS.seq_eq(list(c.name_to_uuid), c0.vis_names), "keep_col_refs=True changed names", wit)
                vc.require(p.pc, z3.BoolVal(c.derived_from == c0.derived_from | {node}), "derived_from must gain the alias node only", wit)
                continue
            m = node.uuid_map
            bij = m is not None and set(m) == set(c0.cols) and len(set(m.values())) == len(m) and not (set(m.values()) & set(c0.cols))
            vc.require(p.pc, z3.BoolVal(bool(bij)), "uuid_map is not a bijection from ALL in-scope uuids onto fresh uuids", wit)
            if not bij:
                continue
            vc.require(p.pc, z3.BoolVal(list(c.name_to_uuid.values()) == [m[u] for u in c0.vis_uuids] and c.partition_by == [m[u] for u in c0.partition_by] and set(c.cols) == set(m.values())), "visible uuids / grouping / scope are not the image of the old ones", wit)
            vc.require(p.pc, TS.seq_eq(list(c.name_to_uuid), c0.vis_names), "names or their order changed", wit)
            vc.require(p.pc, z3.BoolVal(all(c.cols[m[u]]._uuid == m[u] and c.cols[m[u]]._dtype == col._dtype and c.cols[m[u]]._ast is node for u, col in c0.cols.items())), "a re-rooted column has the wrong uuid / dtype / table", wit)
            vc.require(p.pc, z3.BoolVal(c.derived_from == {node}), "derived_from of a plain alias must be {alias node} (independent table)", wit)
            for lab, cond in c11.cache_invariant(c):
                vc.require(p.pc, cond, lab, wit)
        return vc.outcome()

    return run


# ---- X2 clone ------------------------------------------------------------------------------------------


def leaf_cols(node):
    return [c for c in node.iter_col_nodes() if isinstance(c, H.Col)]


def make_x2(kind):
    def run(carve):
        n, bad = 0, []
        for skel in (TS.Skeleton(("vis", "hid")), TS.Skeleton(("grp", "vis", "hid"))):
            pre = TS.Pre(skel)
            pre.phys = [f"n{i}" for i in range(skel.w)]  # concrete names: the clone functions never look at names
            pre.cname = list(pre.phys)
            pre2 = TS.Pre(TS.Skeleton(("vis",)), "r")
            pre2.phys = ["rn0"]
            pre2.cname = ["rn0"]
            t, t2 = pre.table(), pre2.table()
            K = lambda i: col_of(pre, i)  # noqa: E731
            with TS.polars_step([pre, pre2]):
                tables = {
                    "Select": lambda: t >> pdt.select(K(0)),
                    "Rename": lambda: t >> pdt.rename({"n0": "zz"}),
                    "Mutate": lambda: t >> pdt.mutate(k=K(0) + K(skel.w - 1), k2=K(0) * 2),
                    "Filter": lambda: t >> pdt.filter(K(0) > K(skel.w - 1)),
                    "Arrange": lambda: t >> pdt.arrange(K(0).descending(), K(skel.w - 1)),
                    "Summarize": lambda: t >> pdt.summarize(k=K(0).sum(), k2=K(skel.w - 1).max()),
                    "SliceHead": lambda: (t >> pdt.ungroup()) >> pdt.slice_head(2),
                    "GroupBy": lambda: t >> pdt.group_by(K(0)),
                    "Ungroup": lambda: t >> pdt.ungroup(),
                    "Alias": lambda: t >> pdt.alias("z"),
                    "AliasKeep": lambda: t >> pdt.alias(keep_col_refs=True),
                    "Join": lambda: (t >> pdt.ungroup()) >> pdt.join(t2, K(0) == col_of(pre2, 0), "left"),
                    "Union": lambda: None,
                }
                if kind not in tables or tables[kind]() is None:
                    continue
                new = tables[kind]()
                node = new._ast
                if kind in ("SliceHead", "Join"):
                    inner = node.child  # Ungroup
                # child clone contract: fresh node, fresh uuids for every source column
                child_clones = {}

                def mk_child(p):
                    cn = TS._SrcNode(p.tag + "'")
                    # the child's uuid_map may also hold uuids that are no longer in scope (dropped by a summarize below)
                    return cn, {p.node: cn}, {**{u: _uuid.uuid1() for u in p.uuids}, _uuid.uuid1(): _uuid.uuid1()}

                saved = TS._SrcNode._clone
                TS._SrcNode._clone = lambda self: child_clones.setdefault(id(self), mk_child(pre if self is pre.node else pre2))
                before = {f: getattr(node, f, None) for f in ("select", "name_map", "names", "values", "uuids", "predicates", "order_by", "group_by", "on", "uuid_map")}
                before_leaf_ids = [(id(c), c._uuid) for c in leaf_cols(node)] if not isinstance(node, VT.Alias) else []
                try:
                    cloned, nd_map, uuid_map = node._clone()
                finally:
                    TS._SrcNode._clone = saved
            n += 1
            tag = f"{kind} on {skel}"
            if cloned is node or type(cloned) is not type(node):
                bad.append(f"{tag}: the clone is not a fresh node of the same class")
                continue
            if nd_map.get(node) is not cloned:
                bad.append(f"{tag}: nd_map does not map the node to its clone")
            # original untouched
            after = {f: getattr(node, f, None) for f in before}
            if any(before[f] is not after[f] for f in before) or before_leaf_ids != ([(id(c), c._uuid) for c in leaf_cols(node)] if not isinstance(node, VT.Alias) else []):
                bad.append(f"{tag}: _clone modified the original node")
            # every Col of the clone is mapped
            if not isinstance(node, VT.Alias):
                for co, cc in zip(leaf_cols(node), leaf_cols(cloned)):
                    if cc is co:
                        bad.append(f"{tag}: the clone shares a Col object with the original")
                    want = uuid_map.get(co._uuid, co._uuid) if kind != "Join" else uuid_map.get(co._uuid)
                    if cc._uuid != want or cc._uuid == co._uuid:
                        bad.append(f"{tag}: Col {co.name}: uuid {co._uuid} cloned to {cc._uuid}, uuid_map says {want}")
                    if cc._ast is not nd_map.get(co._ast, None):
                        bad.append(f"{tag}: Col {co.name} of the clone still points to a node of the original tree")
                if len(leaf_cols(node)) != len(leaf_cols(cloned)):
                    bad.append(f"{tag}: the clone has a different number of column references")
            if kind in ("Mutate", "Summarize"):
                if len(set(cloned.uuids)) != len(node.uuids) or set(cloned.uuids) & set(node.uuids) or [uuid_map.get(u) for u in node.uuids] != list(cloned.uuids):
                    bad.append(f"{tag}: new columns do not get fresh uuids recorded in uuid_map")
            src = pre.uuids + (pre2.uuids if kind == "Join" else [])
            if kind == "Alias":
                m = node.uuid_map
                if cloned.uuid_map is not None or set(uuid_map) != set(m.values()) or len(set(uuid_map.values())) != len(uuid_map):
                    bad.append(f"{tag}: the alias' uuid map was not re-keyed to the aliased uuids (keys {len(uuid_map)})")
                elif node.uuid_map is None:
                    bad.append(f"{tag}: the original alias lost its uuid_map")
            else:
                if not all(u in uuid_map for u in src):
                    bad.append(f"{tag}: uuid_map lost a source column")
                if len(set(uuid_map.values())) != len(uuid_map):
                    bad.append(f"{tag}: uuid_map is not injective")
        return _enum_outcome(f"{kind}._clone: fresh node, original untouched, every column reference re-rooted through uuid_map / nd_map, fresh uuids for new columns", n, bad)

    return run


# ---- X4 transfer_col_references --------------------------------------------------------------------------


def make_x4(ls, rs):
    def run(carve):
        plmodel.reset_state()
        L, R = TS.Pre(ls, "l"), TS.Pre(rs, "r")
        tcr = pdt._internal.pipe.cache.transfer_col_references

        def fn(P, T):
            return tcr(T[0], T[1])

        paths, wit = TS.explore_step([L, R], fn, "polars")
        lv, rv = [L.phys[i] for i in L.vis], [R.phys[i] for i in R.vis]
        subset = z3.And(*[z3.Or(*[name_eq(a, b) for b in rv]) for a in lv])
        vc = VC(f"[{ls} <- refs of {rs}] transfer_col_references: names/order of `table`, uuids of `ref_source` by name; ValueError iff a visible name of `table` is missing in `ref_source`")
        for p in paths:
            vc.paths += 1
            if p.kind == "exc":
                vc.require(p.pc, z3.BoolVal(False), f"fails: {type(p.value).__name__}: {str(p.value)[:160]}", wit)
                continue
            if p.value[0] == "rejected":
                vc.require(p.pc, z3.And(z3.Not(subset), z3.BoolVal(isinstance(p.value[1], ValueError))), f"refused although every name exists in ref_source (or wrong exception): {type(p.value[1]).__name__}", wit)
                continue
            new = p.value[1]
            c = new._cache
            vc.require(p.pc, subset, "accepted although a name is missing in ref_source", wit)
            vc.require(p.pc, TS.seq_eq(list(c.name_to_uuid), lv), "visible names / order changed", wit)
            got = list(c.name_to_uuid.values())
            for k, i in enumerate(L.vis):
                if k < len(got):
                    vc.require(p.pc, z3.Or(*[z3.And(name_eq(L.phys[i], R.phys[j]), z3.BoolVal(got[k] == R.uuids[j])) for j in R.vis]), f"column {k} did not get the uuid of the ref_source column with the same name", wit)
            for lab, cond in c11.cache_invariant(c):
                vc.require(p.pc, cond, lab, wit)
        return vc.outcome()

    return run


# ---- X3 / X5 native -----------------------------------------------------------------------------------------


def x3_check():
    import polars as pl

    n, bad = 0, []
    df = pl.DataFrame({"a": [1, 2, 2, None], "b": [1.5, None, 3.5, 4.5], "c": ["x", "y", None, "w"]})
    t = pdt.Table(df, name="t")
    pipes = {
        "plain": lambda: t,
        "select_reorder": lambda: t >> pdt.select(t.c, t.a),
        "rename": lambda: t >> pdt.rename({"a": "b", "b": "a"}),
        "mutate_overwrite": lambda: t >> pdt.mutate(a=t.a + 1, d=t.b * 2),
        "hidden_then_new": lambda: t >> pdt.select(t.a) >> pdt.mutate(z=t.b),
        "grouped": lambda: t >> pdt.group_by(t.a),
        "grouped2": lambda: t >> pdt.rename({"a": "k"}) >> pdt.group_by(t.a, t.c),
        "grouped_not_in_column_order": lambda: t >> pdt.group_by(t.c, t.a),
        "grouped_add": lambda: t >> pdt.group_by(t.b) >> pdt.group_by(t.a, add=True),
        "filter_arrange": lambda: t >> pdt.filter(t.a > 1) >> pdt.arrange(t.b.descending()),
        "rename_plain": lambda: t >> pdt.rename({"a": "z"}),
        "join_auto_suffix": lambda: t >> pdt.left_join(u, t.a == u.a),
        "join_auto_suffix_rename": lambda: t >> pdt.left_join(u, t.a == u.a) >> pdt.rename({"w_u": "b", "b": "w_u"}),
    }
    u = pdt.Table(pl.DataFrame({"a": [2, 2, 5], "b": [7.0, 8.0, 9.0], "w": [1, 2, 3]}), name="u")
    old_handles = {"t.a": t.a, "t.b": t.b, "t.c": t.c, "u.a": u.a, "u.b": u.b, "u.w": u.w}
    for name, mk in pipes.items():
        for keep in (True, False):
            n += 1
            try:
                src = mk()
                col = src >> pdt.collect(keep_col_refs=keep)
                want = src >> pdt.ungroup() >> pdt.export(pdt.Polars())
                got = col >> pdt.ungroup() >> pdt.export(pdt.Polars())
                if got.columns != want.columns or not got.equals(want):
                    bad.append(f"{name} keep={keep}: collect changed names / order / data: {got.columns} vs {want.columns}")
                if got.dtypes != want.dtypes:
                    bad.append(f"{name} keep={keep}: collect changed column types {got.dtypes} vs {want.dtypes}")
                if (col >> pdt.columns()) != (src >> pdt.columns()):
                    bad.append(f"{name} keep={keep}: columns() differs after collect")
                if keep:
                    if list(col._cache.name_to_uuid.values()) != list(src._cache.name_to_uuid.values()):
                        bad.append(f"{name}: visible uuids not preserved by collect()")
                    if col._cache.partition_by != src._cache.partition_by:
                        bad.append(f"{name}: grouping not preserved by collect(): {col._cache.partition_by} vs {src._cache.partition_by}")
                    # origin references still work and denote the same data
                    for c in src:
                        r1 = (src >> pdt.ungroup() >> pdt.mutate(__p=c) >> pdt.export(pdt.Polars()))["__p"].to_list()
                        r2 = (col >> pdt.ungroup() >> pdt.mutate(__p=c) >> pdt.export(pdt.Polars()))["__p"].to_list()
                        if r1 != r2:
                            bad.append(f"{name}: reference {c.name} reads other data after collect()")
                    # ... and so do the references taken from the source tables BEFORE the pipeline renamed / suffixed the columns
                    for hn, hcol in old_handles.items():
                        if hcol._uuid not in src._cache.uuid_to_name:
                            continue  # not a visible column of this pipeline (collect materialises the visible columns)
                        try:
                            r1 = (src >> pdt.ungroup() >> pdt.mutate(__p=hcol) >> pdt.export(pdt.Polars()))["__p"].to_list()
                        except pdt.errors.ColumnNotFoundError:
                            continue  # not a column of this pipeline
                        try:
                            r2 = (col >> pdt.ungroup() >> pdt.mutate(__p=hcol) >> pdt.export(pdt.Polars()))["__p"].to_list()
                            nm1, nm2 = src[hcol].name, col[hcol].name
                        except Exception as e:  # noqa: BLE001
                            bad.append(f"{name}: the earlier reference {hn} is lost by collect(): {type(e).__name__}")
                            continue
                        if r1 != r2 or nm1 != nm2:
                            bad.append(f"{name}: the earlier reference {hn} denotes column {nm2!r} with {r2} after collect(), {nm1!r} with {r1} before")
                if keep and src._cache.partition_by:
                    # the grouping (columns AND their order) survives collect(): the same summarize gives the same table
                    # (stated for collect() with its default keep_col_refs=True; collect(keep_col_refs=False) returns a fresh ungrouped table)
                    g1 = [src._cache.uuid_to_name[u] for u in src._cache.partition_by]
                    g2 = [col._cache.uuid_to_name[u] for u in col._cache.partition_by]
                    if g1 != g2:
                        bad.append(f"{name} keep={keep}: grouping columns after collect() are {g2}, before {g1}")
                    a1 = src >> pdt.summarize(__n=pdt.count()) >> pdt.export(pdt.Polars())
                    a2 = col >> pdt.summarize(__n=pdt.count()) >> pdt.export(pdt.Polars())
                    if a1.columns != a2.columns or sorted(map(str, a1.rows())) != sorted(map(str, a2.rows())):
                        bad.append(f"{name} keep={keep}: summarize after collect() gives columns {a2.columns} / {a2.height} groups, before {a1.columns} / {a1.height}")
                if not keep:
                    for c in src:
                        try:
                            col >> pdt.mutate(__p=c)
                            bad.append(f"{name}: origin reference {c.name} still accepted after collect(keep_col_refs=False)")
                        except pdt.errors.ColumnNotFoundError:
                            pass
            except Exception as e:  # noqa: BLE001
                bad.append(f"{name} keep={keep}: {type(e).__name__}: {str(e)[:160]}")
    return n, bad


def x5_check():
    import polars as pl
    import sqlalchemy as sqa

    n, bad = 0, []
    df = pl.DataFrame({"a": [1, 2, 2, 3], "b": [10, 20, 30, 40]})
    for be in ("polars", "sqlite"):
        if be == "polars":
            t = pdt.Table(df, name="t")
        else:
            eng = sqa.create_engine("sqlite://")
            df.write_database("t", eng)
            t = pdt.Table("t", pdt.SqlAlchemy(eng))
        for name, mk in {
            "self_join": lambda: (t, t >> pdt.alias("u")),
            "derived_self_join": lambda: (t >> pdt.mutate(c=t.a * 2), t >> pdt.filter(t.b > 10) >> pdt.alias("u")),
            "double_alias": lambda: (t >> pdt.alias("v"), t >> pdt.alias("u") >> pdt.alias("w")),
        }.items():
            n += 1
            try:
                l, r = mk()
                j = l >> pdt.join(r, l.a == r.a, "inner")
                out = j >> pdt.export(pdt.Polars())
                exp_rows = sum(1 for x in (l >> pdt.export(pdt.Polars()))["a"] for y in (r >> pdt.export(pdt.Polars()))["a"] if x == y)
                if out.height != exp_rows:
                    bad.append(f"{be} {name}: self-join has {out.height} rows, expected {exp_rows}")
                if len(set(out.columns)) != len(out.columns) or out.columns != (j >> pdt.columns()):
                    bad.append(f"{be} {name}: bad column names {out.columns}")
                try:
                    l >> pdt.join(l >> pdt.mutate(z=1), l.a == l.a, "inner")
                    bad.append(f"{be} {name}: join of a table with its own derivative was accepted without alias")
                except ValueError:
                    pass
                try:
                    r >> pdt.mutate(q=t.a)
                    if name == "self_join":
                        bad.append(f"{be} {name}: origin reference accepted after plain alias()")
                except pdt.errors.ColumnNotFoundError:
                    pass
                if be == "sqlite":
                    q = j >> pdt.build_query()
                    if q.count(" AS t") + q.count("AS t_") < 1 or "t_1" not in q:
                        bad.append(f"{be} {name}: the two occurrences of the table are not aliased apart: {q[:200]}")
            except Exception as e:  # noqa: BLE001
                bad.append(f"{be} {name}: {type(e).__name__}: {str(e)[:200]}")
    return n, bad


def x5b_check():
    """self-join with the alias() copy on either side: references through either table object denote that side"""
    import polars as pl
    import sqlalchemy as sqa

    n, bad = 0, []
    df = pl.DataFrame({"id": [1, 2, 3, 4, 5], "boss": [None, 1, 1, 2, 4], "pay": [100, 70, 60, 40, 30]})
    ids, boss, pay = df["id"].to_list(), df["boss"].to_list(), df["pay"].to_list()
    # expected: for every employee with a boss: (employee id, boss id, employee pay - boss pay)
    want = sorted((i, b, p - pay[ids.index(b)]) for i, b, p in zip(ids, boss, pay) if b is not None)
    for be in ("polars", "sqlite"):
        if be == "polars":
            emp = pdt.Table(df, name="emp")
        else:
            eng = sqa.create_engine("sqlite://")
            df.write_database("emp", eng)
            emp = pdt.Table("emp", pdt.SqlAlchemy(eng))
        mgr = emp >> pdt.alias("mgr")
        shapes = {
            "alias_left": lambda: mgr >> pdt.join(emp, mgr.id == emp.boss, "inner"),
            "alias_right": lambda: emp >> pdt.join(mgr, mgr.id == emp.boss, "inner"),
            "alias_left_derived": lambda: (mgr >> pdt.filter(mgr.pay > 0)) >> pdt.join(emp >> pdt.mutate(k=emp.pay * 1), mgr.id == emp.boss, "inner"),
            "alias_left_cross_filter": lambda: mgr >> pdt.cross_join(emp) >> pdt.filter(mgr.id == emp.boss),
        }
        for name, mk in shapes.items():
            n += 1
            try:
                j = mk()
                out = j >> pdt.mutate(e_id=emp.id, m_id=mgr.id, d=emp.pay - mgr.pay) >> pdt.select(pdt.C.e_id, pdt.C.m_id, pdt.C.d) >> pdt.export(pdt.Polars())
                got = sorted(out.rows())
                if got != want:
                    bad.append(f"{be} {name}: (employee, boss, pay difference) = {got}, expected {want}")
                nm_e, nm_m = j[emp.pay].name, j[mgr.pay].name
                full = j >> pdt.export(pdt.Polars())
                if sorted(zip(full[nm_e].to_list(), full[nm_m].to_list())) != sorted((p, pay[ids.index(b)]) for b, p in zip(boss, pay) if b is not None):
                    bad.append(f"{be} {name}: the columns named j[emp.pay].name={nm_e!r} / j[mgr.pay].name={nm_m!r} do not hold employee / boss pay")
            except Exception as e:  # noqa: BLE001
                bad.append(f"{be} {name}: {type(e).__name__}: {str(e)[:200]}")
    return n, bad


def make_x6(backend, kind):
    """alias() is transparent: ctx >> alias() >> step == ctx >> step (contexts include a hidden grouping column)"""
    from .. import pipelines as P

    def run(carve):
        import warnings

        n, bad = 0, []
        B = {st.label: st for st in P.steps()}
        E = {st.label: st for st in P.expr_steps()}
        ctxs = [list(c) for c in P.contexts()]
        ctxs.append([P.Step("group_by(f,s)", lambda x, c: x >> pdt.group_by(x.f, x.s), "keep", ("f", "s"), False, False), P.Step("select(h,a,b)", lambda x, c: x >> pdt.select(x.h, x.a, x.b), "keep", ("h", "a", "b"), False, False)])
        ctxs.append([P.Step("group_by(f)", lambda x, c: x >> pdt.group_by(x.f), "keep", ("f",), False, False), P.Step("mutate(f=~f)", lambda x, c: x >> pdt.mutate(f=~x.f), "keep", ("f",), False, False)])
        tails = [B[l] for l in ("filter(a>1)", "mutate(x=a+h)", "mutate(sm=a.sum)", "mutate(w=row_number)", "summarize(n,m)", "summarize(sa)", "select(h,a)", "arrange(h.desc)", "ungroup", "group_by(a)")] + [E[l] for l in ("agg_window(nopart)", "agg_window_filter(nopart)", "arith") if l in E]
        aliases = (("alias()", lambda x: x >> pdt.alias("al")), ("alias(keep_col_refs=True)", lambda x: x >> pdt.alias("al", keep_col_refs=True)))
        with warnings.catch_warnings():
            warnings.simplefilter("ignore")
            for cx in ctxs:
                for tl in tails:
                    pl_ = P.plan(cx + [tl])
                    if pl_ is None or pl_[1]:
                        continue
                    ordered = pl_[0]
                    res = {}
                    for aname, af in (("none", lambda x: x),) + aliases:
                        c = P.Ctx(backend, kind)
                        x = c.t
                        try:
                            for st in cx:
                                if not P._has(x, *st.needs):
                                    raise LookupError
                                x = st.fn(x, c)
                            x = af(x)
                            if not P._has(x, *tl.needs):
                                raise LookupError
                            y = tl.fn(x, c)
                            df = y >> pdt.ungroup() >> pdt.export(pdt.Polars())
                            res[aname] = ("ok", list(df.columns), P.norm_rows([tuple(r) for r in df.rows()], ordered))
                        except LookupError:
                            res[aname] = ("n/a",)
                        except P.OK_REFUSALS:
                            res[aname] = ("refused",)
                        except (ValueError, TypeError, pdt.errors.ColumnNotFoundError, pdt.errors.FunctionTypeError, pdt.errors.DataTypeError) as e:
                            res[aname] = ("rejected", type(e).__name__)
                        except Exception as e:  # noqa: BLE001
                            res[aname] = ("error", f"{type(e).__name__}: {str(e)[:120]}")
                    if res["none"][0] != "ok":
                        continue
                    n += 1
                    for aname, _ in aliases:
                        r = res[aname]
                        if r[0] == "refused":
                            continue
                        if r != res["none"]:
                            bad.append(f"[{backend},{kind}] {' >> '.join(s.label for s in cx)} >> {aname} >> {tl.label}: {str(r)[:260]} differs from the result without alias {str(res['none'])[:260]}")
        return _enum_outcome(f"[{backend},{kind}] ctx >> alias() >> step exports the same table as ctx >> step", n, bad)

    return run


def make_x7(backend, chunk, seed, per_chunk=120):
    """alias() inserted at a random position of a random pipeline does not change the result (whenever both are accepted)"""
    from .. import pipelines as P

    def run(carve):
        import random
        import warnings

        S = [st for st in P.steps() + P.expr_steps()]
        B = {st.label: st for st in P.steps()}
        rnd = random.Random(f"C16/X7/{seed}/{backend}/{chunk}")
        n, bad, tried = 0, [], 0
        with warnings.catch_warnings():
            warnings.simplefilter("ignore")
            while n < per_chunk and tried < per_chunk * 30:
                tried += 1
                depth = rnd.choice((2, 3, 3, 4))
                pipe = [rnd.choice(S) for _ in range(depth)]
                if any(st.label == "alias" for st in pipe) or sum(1 for st in pipe if st.breaks) > 1:
                    continue
                pos = rnd.randint(0, depth)
                with_alias = pipe[:pos] + [B["alias"]] + pipe[pos:]
                pl_ = P.plan(pipe)
                if pl_ is None or pl_[1] or P.plan(with_alias) is None:
                    continue
                kind = rnd.choice(("mixed", "mixed", "single"))
                a = P.run_pipeline(backend, pipe, kind)
                if a[0] != "ok":
                    continue
                b = P.run_pipeline(backend, with_alias, kind)
                if b[0] in ("refused", "n/a", "hidden-group-col"):
                    continue
                n += 1
                lab = f"[{backend},{kind}] " + " >> ".join(st.label for st in with_alias)
                if b[0] != "ok":
                    bad.append(f"{lab}: with the alias the pipeline gives {b[:2]}, without it is accepted")
                    continue
                ordered = pl_[0] and P.plan(with_alias)[0]
                if a[1] != b[1] or P.norm_rows(a[2], ordered) != P.norm_rows(b[2], ordered):
                    bad.append(f"{lab}: columns {b[1]} / {len(b[2])} rows; without the alias {a[1]} / {len(a[2])} rows (or other values)")
        return _enum_outcome(f"[{backend}] alias() inserted at a random position of {per_chunk} random pipelines leaves the result unchanged (chunk {chunk}, seed {seed})", n, bad)

    return run


def x9_check():
    """alias() / subqueries on SQL against the same pipelines on Polars: generated table aliases and generated subquery column
    names never collide with real names, the subquery carries the grouping columns, and the row order fixed before an alias
    survives the subquery (also as the tie breaker of a later arrange)"""
    import warnings

    import polars as pl
    import sqlalchemy as sqa

    C = pdt.C
    df = pl.DataFrame({"a": [3, 1, 2, 2, None, 1], "b": list("xyzwvu"), "c": [1.5, -2.0, 0.0, None, 4.0, 2.5], "k": [9, 5, 7, 2, 8, 3], "g": [1, 1, 1, 2, 2, 2]})
    eng = sqa.create_engine("sqlite://")
    df.write_database("t", eng)
    df.write_database("t_1", eng)
    n, bad = 0, []

    def tabs(be):
        if be == "polars":
            return pdt.Table(df, name="t"), pdt.Table(df, name="t_1")
        return pdt.Table("t", pdt.SqlAlchemy(eng)), pdt.Table("t_1", pdt.SqlAlchemy(eng))

    cases = {
        "self-join + join with a real table named like the generated alias (t_1)": (lambda t, t1: (lambda s: t >> pdt.inner_join(s, t.b == s.b) >> pdt.inner_join(t1, t.b == t1.b))(t >> pdt.alias()), False),
        "two self-joins + table t_1 first": (lambda t, t1: (lambda s, s2: t1 >> pdt.inner_join(t, t.b == t1.b) >> pdt.inner_join(s, t.b == s.b) >> pdt.inner_join(s2, t.b == s2.b))(t >> pdt.alias(), t >> pdt.alias()), False),
        "hidden column a renamed inside the subquery next to a column a_1": (lambda t, t1: t >> pdt.mutate(a_1=t.a * 100) >> pdt.mutate(a=t.a + 1) >> pdt.arrange(t.k) >> pdt.slice_head(4) >> pdt.alias(keep_col_refs=True) >> pdt.filter(t.a > 0), False),
        "grouping column neither selected nor referenced above the subquery": (lambda t, t1: t >> pdt.group_by(t.a) >> pdt.mutate(r=pdt.row_number(arrange=t.k)) >> pdt.alias() >> pdt.filter(C.r == 1) >> pdt.summarize(n=pdt.count()) >> pdt.select(C.n), False),
        "a reference to a window column taken before alias(keep_col_refs=True) is a plain column after it": (lambda t, t1: (lambda t2: t2 >> pdt.alias(keep_col_refs=True) >> pdt.filter(t2.k > 0) >> pdt.filter(t2.w > 1) >> pdt.select(t2.k, t2.w))(t >> pdt.mutate(w=t.k.rank())), False),
        "column names that differ only in case inside a subquery": (lambda t, t1: t >> pdt.mutate(A=t.k * 10) >> pdt.arrange(t.k) >> pdt.slice_head(3) >> pdt.alias() >> pdt.filter(C.A > 25) >> pdt.select(C.A, C.a), False),
        "hidden column overwritten again after the subquery": (lambda t, t1: t >> pdt.mutate(c=t.k * 2) >> pdt.arrange(t.k) >> pdt.slice_head(3) >> pdt.alias(keep_col_refs=True) >> pdt.filter(t.k > 0) >> pdt.mutate(c=t.c + C.c) >> pdt.select(t.k, C.c), False),
        "rename swap after a sliced alias(), then filter through the table-bound reference": (lambda t, t1: (lambda s: s >> pdt.rename({"k": "g", "g": "k"}) >> pdt.filter(s.k >= 5) >> pdt.select(s.k, s.g))(t >> pdt.arrange(t.k) >> pdt.slice_head(4) >> pdt.alias()), False),
        "rename + reuse of the old name after a sliced alias()": (lambda t, t1: (lambda s: s >> pdt.rename({"k": "kk"}) >> pdt.mutate(k=s.g * 100) >> pdt.filter(s.k >= 5) >> pdt.select(s.k, C.k))(t >> pdt.arrange(t.k) >> pdt.slice_head(4) >> pdt.alias()), False),
        "constant column of an aliased right operand of a left join, then group_by on it": (lambda t, t1: (lambda r: t >> pdt.left_join(r, t.k == r.k + 4) >> pdt.group_by(r.cst) >> pdt.summarize(n=pdt.count()))(t1 >> pdt.mutate(cst=1) >> pdt.alias("rr")), False),
        "constant column of an aliased right operand of a left join, then arrange on it": (lambda t, t1: (lambda r: t >> pdt.left_join(r, t.k == r.k + 4) >> pdt.arrange(r.cst.nulls_first(), t.k) >> pdt.select(t.k, r.cst))(t1 >> pdt.mutate(cst=1) >> pdt.alias("rr")), True),
        "self-join with a hidden column of the same name on both sides, read through either side": (lambda t, t1: (lambda m0: (t >> pdt.select(t.k, t.g)) >> pdt.inner_join(m0 >> pdt.select(m0.k, m0.g), t.g + 1 == m0.g) >> pdt.mutate(lb=t.b, mb=m0.b) >> pdt.select(t.k, C.lb, C.mb))(t >> pdt.alias("m")), False),
        "arrange before alias() is kept by the outer query": (lambda t, t1: (lambda s: s >> pdt.filter(s.r <= 5) >> pdt.select(s.k))(t >> pdt.mutate(r=pdt.row_number(arrange=t.k)) >> pdt.arrange(t.k.descending()) >> pdt.alias()), True),
        "arrange before alias() breaks the ties of an arrange after it": (lambda t, t1: (lambda s: s >> pdt.filter(s.r <= 3) >> pdt.arrange(s.g) >> pdt.select(s.k))(t >> pdt.mutate(r=pdt.row_number(arrange=t.c.nulls_last(), partition_by=t.g)) >> pdt.arrange(t.k) >> pdt.alias()), True),
        "window function without arrange= after the alias sees the order fixed before it": (lambda t, t1: (lambda s: s >> pdt.filter(s.r <= 5) >> pdt.mutate(sh=s.k.shift(1)) >> pdt.select(s.k, C.sh))(t >> pdt.mutate(r=pdt.row_number(arrange=t.k)) >> pdt.arrange(t.k.descending()) >> pdt.alias()), True),
    }
    with warnings.catch_warnings():
        warnings.simplefilter("ignore")
        for label, (mk, ordered) in cases.items():
            n += 1
            res = {}
            for be in ("polars", "sqlite"):
                try:
                    out = mk(*tabs(be)) >> pdt.export(pdt.Polars())
                    rows = out.rows()
                    res[be] = (out.columns, rows if ordered else sorted(rows, key=str))
                except (pdt.errors.SubqueryError, pdt.errors.NotSupportedError):
                    res[be] = "refused"
                except Exception as e:  # noqa: BLE001
                    res[be] = f"raises {type(e).__name__}: {str(e)[:120]}"
            if isinstance(res["polars"], str) or (res["sqlite"] != "refused" and res["sqlite"] != res["polars"]):
                bad.append(f"{label}: polars {res['polars']}; sqlite {res['sqlite']}")
    return n, bad


def _conc(goal, fn):
    def run(carve):
        n, bad = fn()
        return _enum_outcome(goal, n, bad)

    return run


def obligations(tier):
    fi = H.fn_info
    obs = []
    for skel in [TS.Skeleton(c) for c in (("vis",), ("vis", "hid"), ("grp", "vis"), ("vis", "hid", "grp"))]:
        for keep in (False, True):
            obs.append(Obligation(f"C16/X1/{skel}/keep={keep}", "X1", "alias re-roots the metadata", make_x1(skel, keep), functions=[fi(verbs_mod.alias), fi(TS.Cache.update)], bounded=f"table width {skel.w} (names symbolic)"))
    for kind in ("Select", "Rename", "Mutate", "Filter", "Arrange", "Summarize", "SliceHead", "GroupBy", "Ungroup", "Alias", "AliasKeep", "Join"):
        cls = getattr(VT, kind.replace("AliasKeep", "Alias"))
        obs.append(Obligation(f"C16/X2/{kind}._clone", "X2", f"clone invariant of {kind}", make_x2(kind), functions=[fi(VT.Verb._clone), fi(cls._clone)] if "_clone" in cls.__dict__ else [fi(VT.Verb._clone)],
                              bounded="two concrete node instances per class (child clone = contract)"))
    sk = [TS.Skeleton(c) for c in (("vis",), ("vis", "vis"), ("vis", "hid"), ("hid", "vis", "vis"))]
    for ls, rs in itertools.product(sk, sk):
        obs.append(Obligation(f"C16/X4/{ls}<-{rs}", "X4", "transfer_col_references", make_x4(ls, rs), functions=[fi(pdt._internal.pipe.cache.transfer_col_references), fi(TS.Cache.update)], bounded=f"widths {ls.w}, {rs.w} (names symbolic)"))
    obs.append(Obligation("C16/X3/collect", "X3", "collect() keeps names, order, data, types, references and grouping", _conc("collect() on 8 pipelines x keep_col_refs", x3_check), functions=[fi(verbs_mod.collect), fi(H.table_impl_mod.TableImpl.from_resource)], bounded="13 concrete pipelines (incl. renames and joins with automatic suffixes, references taken before them) on two frames (native Polars execution)"))
    obs.append(Obligation("C16/X9/subquery_names_and_order", "X9", "alias() / subqueries on SQL: generated aliases and column names, grouping columns, row order across the subquery (native, vs Polars)", _conc("pipelines with alias() give the same table on SQLite as on Polars", x9_check),
                          functions=[fi(H.sql_backend.create_aliases), fi(H.sql_backend.SqlImpl.compile_ast)], bounded="7 pipelines x 2 backends on one 6-row table"))
    obs.append(Obligation("C16/X5/self_join", "X5", "self-join after alias() on Polars and SQLite", _conc("self-joins of aliased (derived) tables execute and match the expected row count; occurrences are aliased apart in SQL", x5_check),
                          functions=[fi(verbs_mod.join), fi(H.sql_backend.create_aliases), fi(VT.Join._clone)], bounded="3 concrete self-join shapes x 2 backends (native execution)"))
    obs.append(Obligation("C16/X5b/self_join_sides", "X5", "self-join with the alias copy on either side: references denote the right side", _conc("references through either table object of an aliased self-join denote that side (4 shapes x 2 backends, against a hand-computed expectation)", x5b_check),
                          functions=[fi(verbs_mod.join), fi(VT.Join._clone), fi(VT.Alias._clone)], bounded="4 concrete self-join shapes x 2 backends (native execution)"))
    for be in ("polars", "sqlite"):
        for kind in ("mixed", "single") if tier == "quick" else ("mixed", "single", "empty", "tall"):
            obs.append(Obligation(f"C16/X6/{be}/{kind}", "X6", "alias() / alias(keep_col_refs=True) is transparent for every following step", make_x6(be, kind), functions=[fi(verbs_mod.alias), fi(TS.Cache.update), fi(VT.Alias._clone)],
                                  bounded="18 context pipelines (incl. hidden grouping columns) x 13 following steps; native execution"))
    import os

    from . import c06

    obs.append(Obligation("C16/X8/alias_below_outer_join", "X8", "alias() on an operand of an outer join leaves the data unchanged: computed columns below the alias are still NULL on the rows the join adds (native, Python oracle)",
                          c06.n5_core_run, functions=[fi(verbs_mod.alias), fi(TS.Cache.requires_subquery)], bounded="the C06/N5 join matrix (operand variants with alias() and a nested join below the alias)"))
    seed = int(os.environ.get("VERIF_SEED", "0") or 0)
    for be in ("polars", "sqlite"):
        for chunk in range(4 if tier == "quick" else 16):
            obs.append(Obligation(f"C16/X7/{be}/{chunk}", "X7", "alias() inserted at a random position of a random pipeline is transparent (native)", make_x7(be, chunk, seed), functions=[fi(verbs_mod.alias), fi(TS.Cache.update), fi(VT.Alias._clone)],
                                  bounded=f"120 seeded random pipelines of 2-4 steps per chunk, alias at a random position; seed {seed}"))
    return obs


DESIGN_REF = "DESIGN.md §5.16"
ASSUMPTIONS = c11.ASSUMPTIONS + ["X2 takes the child's _clone result as a contract (fresh node, fresh uuids for all source columns); X3/X5 are native executions on concrete data (bounded)"]
LEVEL = "other"
EXPLANATION = "Mix of inductive-step VCs with symbolic names (alias, transfer_col_references), structural contracts of every _clone implementation evaluated on real nodes with the child clone as contract, and native executions (collect, self-join). All bounded; reported as stand-ins."
