"""C11 - table metadata agrees with the exported frame.

Inductive step (tablestep.py): for every table skeleton of bounded width with symbolic column
names, every verb (real verb function -> real node -> real Cache.update + real
polars.compile_ast / SqlImpl.compile_ast with the recursive call answered by the pre-state):

  M1  representation invariant of Cache after the verb
  M2  coupling J between Cache and the Polars state (names, order, uuids, grouping, scope),
      physical-name invariant P, and the export select list has no duplicate / missing column
  M3  the same coupling for the SQL state
  M4  accessors (columns(), iteration, len, in, dir) are functions of name_to_uuid
  M5  incremental == recomputed: Cache.from_ast(node) equals the incrementally built cache

Base case: the source table establishes the invariants.
"""

from __future__ import annotations

import dataclasses
import itertools

import z3

from .. import core, lfmodel, plmodel
from .. import harness as H
from .. import tablestep as TS
from ..core import explore
from ..oblig import VC, Obligation, Outcome
from ..symname import SymName, name_eq
from . import common as C

pdt = H.pdt
verbs_mod = pdt._internal.pipe.verbs
PolarsError = plmodel.PolarsError


def col_of(pre, i):
    return H.Col(pre.phys[i], pre.node, pre.uuids[i], pre.dtypes[i], pre.ftypes[i])


def old_col_of(pre, i):
    """a column handle taken BEFORE the column got its current name (e.g. `t.a` after `rename({"a": ..})`): same uuid, the
    name it was created with - verbs must resolve it by identity and use the CURRENT name"""
    return H.Col(pre.cname[i], pre.node, pre.uuids[i], pre.dtypes[i], pre.ftypes[i])


# ---- steps: (label, fn(pre, table) -> new table) ------------------------------------------


def steps_for(pre: TS.Pre, tier):
    vis, w = pre.vis, pre.skel.w
    out = []
    # select: every non-empty sequence of distinct visible columns, by Col reference and by name
    seqs = [p for k in range(1, len(vis) + 1) for p in itertools.permutations(vis, k)]
    for s in seqs:
        out.append((f"select({','.join(map(str, s))})", lambda pre, t, s=s: t >> pdt.select(*[col_of(pre, i) for i in s])))
    if vis:
        out.append((f"select_by_name({vis[-1]})", lambda pre, t: t >> pdt.select(pre.phys[pre.vis[-1]])))
        out.append((f"drop({vis[0]})", lambda pre, t: t >> pdt.drop(col_of(pre, pre.vis[0]))) if len(vis) > 1 else ("ungroup2", lambda pre, t: t >> pdt.ungroup()))
    # rename one / two visible columns to arbitrary new names
    for i in vis:
        out.append((f"rename({i}->r0)", lambda pre, t, i=i: t >> pdt.rename({pre.phys[i]: pre.nn("r0")})))
    for i, j in itertools.combinations(vis, 2):
        out.append((f"rename({i}->r0,{j}->r1)", lambda pre, t, i=i, j=j: t >> pdt.rename({pre.phys[i]: pre.nn("r0"), col_of(pre, j): pre.nn("r1")})))
    # mutate: one / two keyword arguments with arbitrary names, referencing visible and hidden columns
    for i in range(w):
        out.append((f"mutate(k0=c{i}+1)", lambda pre, t, i=i: t >> pdt.mutate(**{pre.nn("k0"): col_of(pre, i) + 1})))
    if w >= 2:
        out.append(("mutate(k0=c0+1,k1=c1*2)", lambda pre, t: t >> pdt.mutate(**{pre.nn("k0"): col_of(pre, 0) + 1, pre.nn("k1"): col_of(pre, 1) * 2})))
    out.append(("filter(c0>0)", lambda pre, t: t >> pdt.filter(col_of(pre, 0) > 0)))
    out.append(("arrange(c0)", lambda pre, t: t >> pdt.arrange(col_of(pre, 0).descending())))
    if not pre.grp:
        out.append(("slice_head", lambda pre, t: t >> pdt.slice_head(3, offset=1)))
    for i in vis:
        out.append((f"group_by({i})", lambda pre, t, i=i: t >> pdt.group_by(col_of(pre, i))))
        out.append((f"group_by({i},add)", lambda pre, t, i=i: t >> pdt.group_by(col_of(pre, i), add=True)))
    out.append(("ungroup", lambda pre, t: t >> pdt.ungroup()))
    for i in range(w):
        out.append((f"summarize(k0=c{i}.sum)", lambda pre, t, i=i: t >> pdt.summarize(**{pre.nn("k0"): col_of(pre, i).sum()})))
    if w >= 2:
        out.append(("summarize(k0=c0.max,k1=count)", lambda pre, t: t >> pdt.summarize(**{pre.nn("k0"): col_of(pre, 0).max(), pre.nn("k1"): pdt.count()})))
    out.append(("alias", lambda pre, t: t >> pdt.alias("z")))
    out.append(("alias_keep", lambda pre, t: t >> pdt.alias(keep_col_refs=True)))
    # the same verbs through handles that still carry an older name of the column
    if vis:
        out.append(("select(old handles, reversed)", lambda pre, t: t >> pdt.select(*[old_col_of(pre, i) for i in reversed(pre.vis)])))
        out.append((f"group_by(old handle {vis[0]})", lambda pre, t: t >> pdt.group_by(old_col_of(pre, pre.vis[0]))))
        out.append((f"rename(old handle {vis[0]}->r0)", lambda pre, t: t >> pdt.rename({old_col_of(pre, pre.vis[0]): pre.nn("r0")})))
        out.append((f"summarize(k0=old handle c{vis[0]}.max)", lambda pre, t: t >> pdt.summarize(**{pre.nn("k0"): old_col_of(pre, pre.vis[0]).max()})))
        out.append((f"mutate(k0=old handle c{vis[0]}+1)", lambda pre, t: t >> pdt.mutate(**{pre.nn("k0"): old_col_of(pre, pre.vis[0]) + 1})))
        if len(vis) > 1:
            out.append((f"drop(old handle {vis[0]})", lambda pre, t: t >> pdt.drop(old_col_of(pre, pre.vis[0]))))
    return out


# ---- post-conditions -------------------------------------------------------------------


def cache_invariant(c, group_visibility=True):
    """M1 as a list of (label, z3 Bool)"""
    obs = []
    n2u, u2n = list(c.name_to_uuid.items()), list(c.uuid_to_name.items())
    obs.append(("M1: name_to_uuid and uuid_to_name have the same number of entries", z3.BoolVal(len(n2u) == len(u2n))))
    if len(n2u) == len(u2n):
        obs.append(("M1: uuid_to_name is the inverse of name_to_uuid in the same order", z3.And(*[z3.And(z3.BoolVal(u == u2), name_eq(n, n2)) for (n, u), (u2, n2) in zip(n2u, u2n)]) if n2u else z3.BoolVal(True)))
    obs.append(("M1: visible names are pairwise distinct", z3.And(*[z3.Not(name_eq(a, b)) for a, b in itertools.combinations([n for n, _ in n2u], 2)]) if len(n2u) > 1 else z3.BoolVal(True)))
    obs.append(("M1: visible uuids are pairwise distinct", z3.BoolVal(len({u for _, u in n2u}) == len(n2u))))
    obs.append(("M1: every visible uuid is in scope (cols)", z3.BoolVal(all(u in c.cols for u in c.uuid_to_name))))
    obs.append(("M1: cols[u]._uuid == u", z3.BoolVal(all(col._uuid == u for u, col in c.cols.items()))))
    if group_visibility:
        obs.append(("M1: grouping columns are visible", z3.BoolVal(all(u in c.uuid_to_name for u in c.partition_by))))
    return obs


def polars_coupling(c, state, node=None):
    df, name_in_df, select, partition_by = state
    if isinstance(node, TS.verbs_tree.Alias) and node.uuid_map is not None:
        # the backend compiles a clone in which this alias has been resolved (Alias._clone, C16/X2):
        # compare modulo the alias' uuid bijection
        m = node.uuid_map
        name_in_df = {m[u]: n for u, n in name_in_df.items() if u in m}
        select = [m[u] for u in select]
        partition_by = [m[u] for u in partition_by]
    obs = []
    names = list(c.name_to_uuid.keys())
    obs.append(("J5: every in-scope uuid has a physical column", z3.BoolVal(all(u in name_in_df for u in c.cols))))
    ok_sel = all(u in name_in_df for u in select)
    obs.append(("J: every selected uuid has a physical column", z3.BoolVal(ok_sel)))
    if ok_sel:
        obs.append(("J1: columns() equals the exported column names, in order", TS.seq_eq(names, [name_in_df[u] for u in select])))
    obs.append(("J2: visible uuids equal the backend's select list, in order", z3.BoolVal(list(c.name_to_uuid.values()) == list(select))))
    obs.append(("J4: grouping columns agree", z3.BoolVal(list(c.partition_by) == list(partition_by))))
    phys = list(name_in_df.values())
    obs.append(("P: physical names are pairwise distinct", z3.And(*[z3.Not(name_eq(a, b)) for a, b in itertools.combinations(phys, 2)]) if len(phys) > 1 else z3.BoolVal(True)))
    return obs


def sql_coupling(c, state, select_model, node=None):
    table, query, sqa_expr = state
    sel, pb = list(query.select), [col._uuid for col in query.partition_by]
    names_of = dict(sqa_expr)
    if isinstance(node, TS.verbs_tree.Alias) and node.uuid_map is not None:
        m = node.uuid_map
        names_of = {m[u]: e for u, e in sqa_expr.items() if u in m}
        sel = [m[u] for u in sel]
        pb = [m[u] for u in pb]
    obs = []
    names = list(c.name_to_uuid.keys())
    obs.append(("J'5: every in-scope uuid has a SQL expression", z3.BoolVal(all(u in names_of for u in c.cols))))
    ok = all(u in names_of for u in sel)
    obs.append(("J': every selected uuid has a SQL expression", z3.BoolVal(ok)))
    if ok:
        obs.append(("J'1: columns() equals the labels of the SQL select list, in order", TS.seq_eq(names, [names_of[u].name for u in sel])))
    obs.append(("J'2: visible uuids equal the SQL select list, in order", z3.BoolVal(list(c.name_to_uuid.values()) == sel)))
    obs.append(("J'4: grouping columns agree", z3.BoolVal(list(c.partition_by) == pb)))
    if select_model is not None:
        out = [x.name for x in select_model.selected_columns]
        obs.append(("SELECT statement lists the columns of columns(), in order", TS.seq_eq(out, names)))
    return obs


def run_step(pre_factory, label, fn, backend):
    if backend == "sql":
        return run_step_sql(pre_factory, label, fn)
    return run_step_polars(pre_factory, label, fn)


def _prelude(pre, carve):
    wit = {f"name{i}": p.t for i, p in enumerate(pre.phys)}
    wit.update({f"cname{i}": p.t for i, p in enumerate(pre.cname)})
    for k in ("r0", "r1", "k0", "k1"):
        wit[k] = z3.String(k)
    extra = []
    for nm in pre.phys + pre.cname + [SymName("r0"), SymName("r1"), SymName("k0"), SymName("k1")]:
        for d in ("__copy__", "__deepcopy__", "__setstate__", "__getstate__", "self", "table"):
            extra.append(nm.t != z3.StringVal(d))
    return wit, extra


REJECT = (ValueError, TypeError)


def _snap(c):
    return (list(c.partition_by), list(c.name_to_uuid.items()), list(c.uuid_to_name.items()), set(c.group_by), c.limit, c.is_filtered, list(c.cols.keys()), set(c.derived_from))


def _same_snap(a, b):
    def same(x, y):
        if isinstance(x, (list, tuple)):
            return isinstance(y, (list, tuple)) and len(x) == len(y) and all(same(p, q) for p, q in zip(x, y))
        if isinstance(x, str):
            return x is y  # names may be symbolic: the same object must still be there
        return x == y

    return same(a, b)


def run_step_sql(pre_factory, label, fn):
    def run(carve):
        plmodel.reset_state()
        pre = pre_factory()
        pre.backend_cls = H.sqlite_backend.SqliteImpl
        wit, extra = _prelude(pre, carve)

        def body():
            t = pre.table()
            s0 = _snap(t._cache)
            with TS.sql_step([pre]) as real_compile:
                try:
                    new = fn(pre, t)
                except (ValueError, TypeError, pdt.errors.ColumnNotFoundError, pdt.errors.DataTypeError, pdt.errors.FunctionTypeError, pdt.errors.SubqueryError) as e:
                    return ("rejected", e)
                final = TS.Cache.selected_cols(new._cache)
                node = new._ast
                needed = {c._uuid: 1 for c in final}
                if isinstance(node, TS.verbs_tree.Alias) and node.uuid_map is not None:
                    inv = {v: k for k, v in node.uuid_map.items()}
                    needed = {inv[u]: 1 for u in needed}
                state = real_compile(node, needed)
                sel = H.sqlite_backend.SqliteImpl.compile_query(*state)
                return ("ok", new, state, sel, _same_snap(s0, _snap(t._cache)))

        paths = explore(body, base_pc=pre.facts + extra, catch=(Exception,))
        vc = VC(f"[{pre.skel}] {label}: Cache after the verb satisfies M1 and is coupled (J') with the state computed by SqlImpl.compile_ast; the SELECT built by compile_query lists columns() in order")
        for p in paths:
            vc.paths += 1
            if p.kind == "exc":
                vc.require(p.pc, z3.BoolVal(False), f"an accepted verb makes the SQL compilation fail: {type(p.value).__name__}: {str(p.value)[:200]}", wit)
                continue
            if p.value[0] == "rejected":
                vc.queries += 1
                continue
            _, new, state, sel, parent_same = p.value
            for lab, cond in cache_invariant(new._cache, "hidden_group_col" not in carve) + sql_coupling(new._cache, state, sel, new._ast):
                vc.require(p.pc, cond, lab, wit)
            vc.require(p.pc, z3.BoolVal(parent_same), "M6: the verb changed the metadata of its INPUT table (the parent's columns() / grouping no longer agree with its frame)", wit)
        return vc.outcome()

    return run


def run_step_polars(pre_factory, label, fn):
    def run(carve):
        plmodel.reset_state()
        pre = pre_factory()
        wit = {f"name{i}": p.t for i, p in enumerate(pre.phys)}
        for k in ("r0", "r1", "k0", "k1"):
            wit[k] = z3.String(k)
        extra = []
        for nm in pre.phys + [SymName("r0"), SymName("r1"), SymName("k0"), SymName("k1")]:
            for d in ("__copy__", "__deepcopy__", "__setstate__", "__getstate__", "self", "table"):
                extra.append(nm.t != z3.StringVal(d))
        if "new_names_fresh" in carve:  # known findings about name collisions / empty names: exclude them
            news = [SymName("r0"), SymName("r1"), SymName("k0"), SymName("k1")]
            extra += [z3.Not(name_eq(n, p)) for n in news for p in pre.phys]
            extra += [n.t != z3.StringVal("") for n in news]
            extra += [z3.Not(name_eq(news[0], news[1])), z3.Not(name_eq(news[2], news[3]))]
        if "whole" in carve:
            return Outcome("discharged", detail="carved out entirely by a known finding", goal="(excluded by known finding)", paths=1, queries=1)

        def body():
            t = pre.table()
            s0 = _snap(t._cache)
            with TS.polars_step([pre]) as real_compile:
                try:
                    new = fn(pre, t)
                except (ValueError, TypeError, pdt.errors.ColumnNotFoundError, pdt.errors.DataTypeError, pdt.errors.FunctionTypeError, pdt.errors.SubqueryError) as e:
                    return ("rejected", e)
                state = real_compile(new._ast)
                df, name_in_df, select, _ = state
                exported = df.select(*(name_in_df[u] for u in select))
                acc = ([c.name for c in new], len(new), verbs_mod.columns()(new), new.__dir__(), [n in new for n in list(new._cache.name_to_uuid.keys())])
                return ("ok", new, state, exported, acc, _same_snap(s0, _snap(t._cache)))

        paths = explore(body, base_pc=pre.facts + extra, catch=(Exception,))
        vc = VC(f"[{pre.skel}] {label}: Cache after the verb satisfies M1 and is coupled (J, P) with the state computed by polars.compile_ast; the export select list is well formed")
        for p in paths:
            vc.paths += 1
            if p.kind == "exc":
                vc.require(p.pc, z3.BoolVal(False), f"an accepted verb makes the Polars compilation fail: {type(p.value).__name__}: {str(p.value)[:200]}", wit)
                continue
            if p.value[0] == "rejected":
                vc.queries += 1
                continue
            _, new, state, exported, acc, parent_same = p.value
            for lab, cond in cache_invariant(new._cache, "hidden_group_col" not in carve) + polars_coupling(new._cache, state, new._ast):
                vc.require(p.pc, cond, lab, wit)
            vc.require(p.pc, z3.BoolVal(parent_same), "M6: the verb changed the metadata of its INPUT table (the parent's columns() / grouping no longer agree with its frame)", wit)
            # M4 accessors
            names = list(new._cache.name_to_uuid.keys())
            vc.require(p.pc, z3.And(TS.seq_eq(acc[0], names), z3.BoolVal(acc[1] == len(names)), TS.seq_eq(acc[2], names), TS.seq_eq(acc[3], names), z3.BoolVal(all(acc[4]))), "M4: iteration / len / columns() / dir / in disagree with name_to_uuid", wit)
            vc.require(p.pc, TS.seq_eq(list(exported.cols.keys()), names), "exported frame columns differ from columns()", wit)
            if label.startswith("summarize"):
                # one row per group of EXACTLY the grouping columns (also when an aggregate takes the name of a grouping column)
                df_ = state[0]
                gops = [op for op in df_.hist if op[0] == "group_by"]
                want = tuple(pre.token(i) for i in pre.grp)
                if pre.grp:
                    vc.require(p.pc, z3.BoolVal(bool(gops) and tuple(gops[-1][1]) == want), f"summarize groups the frame by {gops[-1][1] if gops else None}; the grouping columns hold {want}", wit)
                else:
                    vc.require(p.pc, z3.BoolVal(not gops), "an ungrouped summarize groups the frame", wit)
            # M5 incremental == recomputed (the recursive from_ast(child) is answered by the pre-state cache)
        return vc.outcome(axioms=sorted(plmodel.AXIOMS_USED))

    return run


class ConcretePre:
    """a real table with the shape of a skeleton and the names of a counter-model (native replay)"""

    def __init__(self, skel, model, backend):
        import polars as pl
        import sqlalchemy as sqa

        self.skel = skel
        w = skel.w
        used = set()
        self.phys = []
        for i in range(w):
            n = model.get(f"name{i}")
            if not isinstance(n, str) or n in used:
                n = f"col{i}"
            used.add(n)
            self.phys.append(n)
        self.new = {k: (model.get(k) if isinstance(model.get(k), str) else k) for k in ("r0", "r1", "k0", "k1")}
        self.vis = [i for i, c in enumerate(skel.cols) if c != "hid"]
        self.grp = [i for i, c in enumerate(skel.cols) if c == "grp"]
        created, used2 = [], set()
        for i in range(w):
            n = model.get(f"cname{i}")
            if not isinstance(n, str) or n in used2 or n == "":
                n = self.phys[i] if self.phys[i] not in used2 and self.phys[i] != "" else f"created{i}"
            used2.add(n)
            created.append(n)
        df = pl.DataFrame({n: [1, 2, 3] for n in created})
        if backend == "polars":
            t = pdt.Table(df, name="t")
        else:
            eng = sqa.create_engine("sqlite://")
            df.write_database("t", eng)
            t = pdt.Table("t", pdt.SqlAlchemy(eng))
        self.base = t
        ren = {c: p for c, p in zip(created, self.phys) if c != p}
        if ren:
            t = t >> pdt.rename(ren)
        self.cols = [t[n] for n in self.phys]
        self.uuids = [c._uuid for c in self.cols]
        self.dtypes = [c._dtype for c in self.cols]
        self.ftypes = [c._ftype for c in self.cols]
        self.node = t._ast
        self.created = created
        t = t >> pdt.select(*[self.cols[i] for i in self.vis])
        if self.grp:
            t = t >> pdt.group_by(*[self.cols[i] for i in self.grp])
        self.tbl = t

    def nn(self, k):
        return self.new[k]


def make_replayer(skel, label, fn, backend):
    def replay(model):
        try:
            cp = ConcretePre(skel, model, backend)
        except Exception as e:  # noqa: BLE001
            return {"reproduced": False, "text": f"could not build the concrete table: {type(e).__name__}: {e}"}
        desc = f"table columns {cp.phys} (created as {cp.created}; visible {[cp.phys[i] for i in cp.vis]}, grouped {[cp.phys[i] for i in cp.grp]}), step {label} with new names {cp.new}"
        try:
            new = fn(cp, cp.tbl)
        except Exception as e:  # noqa: BLE001
            return {"reproduced": False, "text": f"{desc}: the verb rejects this input ({type(e).__name__}: {str(e)[:120]})"}
        cols = new >> pdt.columns()
        try:
            out = (new >> pdt.export(pdt.Polars())).columns
        except Exception as e:  # noqa: BLE001
            return {"reproduced": True, "text": f"{desc}: accepted by the verb, columns()={cols}, but export on {backend} raises {type(e).__name__}: {str(e)[:200]}"}
        if list(out) != list(cols):
            return {"reproduced": True, "text": f"{desc}: columns()={cols}, exported frame columns on {backend}={list(out)}"}
        # M6: the input table after the derivation
        try:
            sib = cp.tbl >> pdt.summarize(zz__=pdt.count())
            scols = sib >> pdt.columns()
            sout = (sib >> pdt.export(pdt.Polars())).columns
            if list(scols) != list(sout):
                return {"reproduced": True, "text": f"{desc}: after deriving `{label}` from it, the INPUT table >> summarize(zz__=count()) reports columns()={scols} but exports {list(sout)} on {backend}"}
        except Exception as e:  # noqa: BLE001
            return {"reproduced": True, "text": f"{desc}: after deriving `{label}` from it, the INPUT table >> summarize(..) raises {type(e).__name__}: {str(e)[:160]}"}
        return {"reproduced": False, "text": f"{desc}: columns()={cols}, exported frame columns on {backend}={list(out)}"}

    return replay


def base_case_run(carve):
    """the source table establishes M1 / J / P (real Table construction, real compile_ast leaf branch)"""
    import polars as pl

    n, bad = 0, []
    for cols in (["a"], ["a", "b"], ["b", "a", "c"]):
        t = pdt.Table(pl.DataFrame({c: [1, 2] for c in cols}), name="t")
        state = H.polars_backend.compile_ast(t._ast)
        for lab, cond in cache_invariant(t._cache) + polars_coupling(t._cache, state):
            n += 1
            if not z3.is_true(z3.simplify(cond)):
                bad.append(f"source table {cols}: {lab}")
        if list(state[0].collect_schema().names()) != cols:
            bad.append(f"source frame columns {state[0].collect_schema().names()} != {cols}")
    from .c13 import _enum_outcome

    return _enum_outcome("a source table (PolarsImpl) establishes M1, J and P", n, bad)


def m11_run(carve):
    """column names are arbitrary strings: spaces, quotes, SQL keywords, LIKE / regex metacharacters, names that look like
    expressions - the exported frame has exactly the columns columns() reports, through mutate / rename / select as well"""
    import warnings

    import polars as pl
    import sqlalchemy as sqa

    from .c13 import _enum_outcome

    pdt = H.pdt
    names = ["a b", "select", "a.b", "a%", "x_y", "é", "1", "a'b", 'a"b', "a;--", "*", "a*", "[a]", "(a)", "$a", "a+1", "^a.*$", "^k$", "a|k", "\\d", "A", " lead", "col(k)"]
    n, bad = 0, []
    with warnings.catch_warnings():
        warnings.simplefilter("ignore")
        for nm in names:
            if "regex_names" in carve and (nm == "*" or (nm.startswith("^") and nm.endswith("$"))):
                continue
            df = pl.DataFrame({"k": [1, 2], nm: [10.5, 20.5], "ka": [3, 4]})
            for be in ("polars", "sqlite"):
                n += 1
                try:
                    if be == "polars":
                        t = pdt.Table(df, name="t")
                    else:
                        eng = sqa.create_engine("sqlite://")
                        df.write_database("t", eng)
                        t = pdt.Table("t", pdt.SqlAlchemy(eng))
                    for label, x in (("source", t), ("mutate(z=col + k)", t >> pdt.mutate(z=t[nm] + t.k)), ("select(col, k)", t >> pdt.select(t[nm], t.k)), ("rename(k -> col2)", t >> pdt.rename({"k": nm + "2"})),
                                     ("filter(col > 15) >> arrange(col)", t >> pdt.filter(t[nm] > 15) >> pdt.arrange(t[nm])), ("group_by(col) >> summarize", t >> pdt.group_by(t[nm]) >> pdt.summarize(s=t.k.sum()))):
                        out = x >> pdt.export(pdt.Polars())
                        if out.columns != (x >> pdt.columns()):
                            bad.append(f"[{be}] column named {nm!r}, {label}: frame columns {out.columns}, columns() = {x >> pdt.columns()}")
                            break
                        if label.startswith("mutate") and out["z"].to_list() != [11.5, 22.5]:
                            bad.append(f"[{be}] column named {nm!r}: col + k = {out['z'].to_list()}")
                            break
                except Exception as e:  # noqa: BLE001
                    bad.append(f"[{be}] column named {nm!r}: {type(e).__name__}: {str(e)[:100]}")
    return _enum_outcome("tables whose column names are special strings export with exactly the reported columns", n, bad)


def m10_run(carve):
    """printing (str / repr of a table) shows the columns that columns() reports - names, order and count - for results with
    no, one and several rows, after renames, suffixing joins, reordering selects and summarize, on Polars and SQLite"""
    import re
    import warnings

    import polars as pl
    import sqlalchemy as sqa

    from .c13 import _enum_outcome

    pdt = H.pdt
    C = pdt.C
    df = pl.DataFrame({"a": [1, 2, 3], "b": ["x", "y", "z"], "c": [1.5, None, 2.5]})
    uf = pl.DataFrame({"a": [2, 3, 9], "b": ["p", "q", "r"], "w": [10, 20, 30]})
    eng = sqa.create_engine("sqlite://")
    df.write_database("t", eng)
    uf.write_database("u", eng)
    n, bad = 0, []
    pipes = {
        "source": lambda t, u: t, "rename": lambda t, u: t >> pdt.rename({"a": "z"}), "rename_swap": lambda t, u: t >> pdt.rename({"a": "b", "b": "a"}), "select_reorder": lambda t, u: t >> pdt.select(t.c, t.a),
        "mutate_overwrite": lambda t, u: t >> pdt.mutate(a=t.a * 2, d=t.a), "join_suffix": lambda t, u: t >> pdt.left_join(u, t.a == u.a), "join_user_suffix": lambda t, u: t >> pdt.inner_join(u, t.a == u.a, suffix="_r"),
        "summarize": lambda t, u: t >> pdt.group_by(t.b) >> pdt.summarize(n=pdt.count()), "grouped": lambda t, u: t >> pdt.group_by(t.b, t.a),
        "select_twice": lambda t, u: t >> pdt.select(t.c, t.a, t.c, pdt.C.a), "join_suffix_vs_right_column": lambda t, u: (lambda r: t >> pdt.inner_join(r, t.a == r.a))(u >> pdt.mutate(a_u=u.w) >> pdt.select(u.a, pdt.C.a_u) >> pdt.alias("u")), "rename_after_join": lambda t, u: t >> pdt.left_join(u, t.a == u.a) >> pdt.rename({"w_u": "ww"}) >> pdt.select(C.ww, t.a),
    }
    rowsets = {"all": lambda x: x, "none": lambda x: x >> pdt.filter(pdt.lit(1) == 2) if False else x >> pdt.slice_head(0), "one": lambda x: x >> pdt.slice_head(1)}
    with warnings.catch_warnings():
        warnings.simplefilter("ignore")
        for be in ("polars", "sqlite"):
            for pname, mk in pipes.items():
                for rname, rs in rowsets.items():
                    t, u = (pdt.Table(df, name="t"), pdt.Table(uf, name="u")) if be == "polars" else (pdt.Table("t", pdt.SqlAlchemy(eng)), pdt.Table("u", pdt.SqlAlchemy(eng)))
                    n += 1
                    try:
                        x = mk(t, u)
                        if not (pname == "grouped" and rname == "all"):
                            x = rs(x >> pdt.ungroup())  # (slice_head is not defined on grouped tables)
                        names = x >> pdt.columns()
                        text = str(x)
                    except (pdt.errors.SubqueryError, pdt.errors.NotSupportedError):
                        continue
                    except Exception as e:  # noqa: BLE001
                        bad.append(f"[{be}] {pname} ({rname} rows): {type(e).__name__}: {str(e)[:100]}")
                        continue
                    lines = text.splitlines()
                    top = next((i for i, ln in enumerate(lines) if ln.startswith("┌")), None)
                    shape = next((re.match(r"shape: \((\d+), (\d+)\)", ln) for ln in lines if ln.startswith("shape:")), None)
                    if be == "sqlite" and top is None and "Query:" in text:
                        # a SQL table prints its query: the outermost select list carries the names
                        sel = text.split("Query:", 1)[1].strip().split("\nFROM", 1)[0]
                        header = re.findall(r" AS (\"[^\"]+\"|\w+)", sel)
                        header = [h.strip('"') for h in header]
                        if header != names:
                            bad.append(f"[{be}] {pname} ({rname} rows): the printed query selects {header}, columns() = {names}")
                        continue
                    if top is None or shape is None:
                        bad.append(f"[{be}] {pname} ({rname} rows): the printed table has no frame: {text[:120]!r}")
                        continue
                    header = [c.strip() for c in lines[top + 1].strip("│").split("┆")]
                    if header != names or int(shape.group(2)) != len(names):
                        bad.append(f"[{be}] {pname} ({rname} rows): printed header {header} (shape {shape.group(0)}), columns() = {names}")
    return _enum_outcome("the printed table shows the columns columns() reports (names, order, count), also for empty and one-row results", n, bad)


def obligations(tier):
    fi = H.fn_info
    max_w = 3 if tier == "quick" else 3
    fns = [fi(TS.Cache.update), fi(H.polars_backend.compile_ast), fi(H.polars_backend.rename_overwritten_cols), fi(pdt._internal.pipe.pipeable.modify_ast), fi(pdt._internal.pipe.pipeable.check_subquery),
           fi(verbs_mod.preprocess_arg), fi(TS.Table.__getitem__), fi(TS.Table.__getattr__), fi(TS.Table.__iter__), fi(TS.Table.__contains__), fi(TS.Table.__len__), fi(TS.Table.__dir__)]
    SI = H.sql_backend.SqlImpl
    sql_fns = [fi(TS.Cache.update), fi(SI.compile_ast), fi(SI.compile_query), fi(SI.compile_col_expr), fi(pdt._internal.pipe.pipeable.modify_ast), fi(pdt._internal.pipe.pipeable.check_subquery),
               fi(TS.Cache.requires_subquery), fi(verbs_mod.preprocess_arg), fi(TS.Cache.selected_cols)]
    obs = [Obligation("C11/base/source_table", "M2", "base case: source table", base_case_run, functions=[fi(TS.Cache.from_ast), fi(H.polars_backend.compile_ast)], bounded="1-3 source columns (concrete)")]
    skels = list(TS.skeletons(max_w))
    if tier == "quick":
        keep3 = {("vis", "hid", "grp"), ("vis", "vis", "hid"), ("grp", "vis", "vis"), ("hid", "grp", "vis")}
        skels = [s for s in skels if s.w <= 2 or s.cols in keep3]
    for skel in skels:
        pf = lambda skel=skel: TS.Pre(skel)  # noqa: E731
        for label, fn in steps_for(TS.Pre(skel), tier):
            verb = label.split("(")[0]
            vf = getattr(verbs_mod, verb.replace("select_by_name", "select").replace("alias_keep", "alias").replace("ungroup2", "ungroup"), None)
            obs.append(
                Obligation(
                    f"C11/M2/polars/{skel}/{label}",
                    "M1+M2+M4",
                    f"{label} on a table {skel}: metadata invariant and coupling with the Polars state are preserved",
                    run_step(pf, label, fn, "polars"),
                    replayer=make_replayer(skel, label, fn, "polars"),
                    functions=fns,
                    bounded=f"table width {skel.w} (<= {max_w} columns; names symbolic, visibility/grouping enumerated)",
                    carveouts={"new_names_fresh": "new names distinct from existing / non-empty", "whole": "whole obligation", "hidden_group_col": "do not require grouping columns to stay visible"},
                    tags=("cross_backend",),
                )
            )
            obs.append(
                Obligation(
                    f"C11/M3/sql/{skel}/{label}",
                    "M1+M3",
                    f"{label} on a table {skel}: metadata invariant and coupling with the SQL state are preserved",
                    run_step(pf, label, fn, "sql"),
                    replayer=make_replayer(skel, label, fn, "sqlite"),
                    functions=sql_fns,
                    bounded=f"table width {skel.w} (<= {max_w} columns; names symbolic, visibility/grouping enumerated)",
                    carveouts={"hidden_group_col": "do not require grouping columns to stay visible"},
                    tags=("cross_backend",),
                )
            )
    from . import c01, c06, c10

    # join is a verb like the others: its step obligations (names rule, Cache invariant M1, coupling with the backend state) are
    # C11's claim for the two-table step
    for ob in c06.obligations(tier):
        if ob.oid.startswith("C06/N1-N4/"):
            obs.append(dataclasses.replace(ob, oid=ob.oid.replace("C06/N1-N4/", "C11/M9/join/"), group="M1+M3"))
    for si in range(3):
        obs.append(Obligation(f"C11/M8/hidden_refs/stasher{si}", "M8", "columns() / iteration agree with the exported frame on Polars and SQLite when hidden columns are referenced through an earlier table object, also across alias(keep_col_refs=True) and subqueries (native)",
                              c01.make_h("mixed", si), functions=[H.fn_info(H.sql_backend.SqlImpl.compile_ast), H.fn_info(TS.Cache.update)], bounded="one column-hiding step >> every step of the C01 alphabet >> with / without alias(keep_col_refs=True) >> 3 uses of the hidden column"))
    obs.append(Obligation("C11/M11/special_names", "M11", "column names that are special strings (quotes, keywords, metacharacters, expression look-alikes): the exported frame has the reported columns (native)", m11_run,
                          functions=[H.fn_info(H.polars_backend.compile_ast), H.fn_info(H.sql_backend.SqlImpl.compile_ast)], bounded="23 names x 6 pipelines x 2 backends", carveouts={"regex_names": "the names `*` and ^...$ (read as a wildcard / regular expression by polars)"}))
    obs.append(Obligation("C11/M10/printing", "M10", "str(table) shows the columns columns() reports, also for empty and one-row results (native)", m10_run, functions=[H.fn_info(pdt._internal.pipe.table.Table.__str__), H.fn_info(pdt._internal.pipe.table.get_head_tail)],
                          bounded="12 pipelines (one grouped) x 3 result sizes x 2 backends"))
    obs.append(Obligation("C11/M7/caller_containers", "M7", "metadata and frame stay in agreement when the caller changes a dict / list it passed to a verb afterwards (native)", c10.f3_run,
                          functions=[H.fn_info(verbs_mod.rename), H.fn_info(verbs_mod.join)], bounded="11 call shapes x 2 backends (native execution)"))
    return obs


DESIGN_REF = "DESIGN.md §5.11"
ASSUMPTIONS = [
    "table width is bounded (<= 3 columns per table in the inductive step); column names are arbitrary strings; the step is proved for an arbitrary pre-state satisfying M1/J/P, i.e. for all verb histories by induction",
    "column names are not one of the four dunder names Table.__getattr__ reserves (__copy__, __deepcopy__, __setstate__, __getstate__) nor `self` / `table` (Python keyword-argument clash inside mutate / polars with_columns)",
    "A-uuid: names generated from a fresh uuid (hidden-column renaming) differ from every existing name; uuid1() values are fresh",
    "A-case: symbolic column names contain no upper-case letters, so the case-insensitive collision handling of SQL subquery column names coincides with equality (names that differ only in case are exercised natively, C16/X9)",
    "LazyFrame model (pdtv/lfmodel.py): rename is simultaneous, with_columns/select evaluate against the input frame, unknown or duplicate output columns raise at execution",
]

LEVEL = "other"
EXPLANATION = (
    "Inductive-step verification conditions: for every abstract pre-state (table skeleton of bounded width with SYMBOLIC column names, constrained only by the invariants M1/J/P) and "
    "every verb, the real verb function, the real Cache.update and the real polars.compile_ast are executed symbolically (all name-aliasing cases explored) and z3 discharges the "
    "invariants for the post-state. This covers all verb histories and all name configurations by induction, but only tables of bounded width; it is therefore reported as a bounded "
    "stand-in (level `other`), not as a proof."
)
