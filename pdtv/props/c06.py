"""C06 - join: exact row combinations, collision-free names, all columns reachable.

Inductive step with two pre-state tables (symbolic, possibly colliding names; visible and hidden
columns), real join verb -> real Cache.update -> real Polars / SQL compile_ast:
  N1  visible names afterwards: the left names unchanged and in order, then every right visible column in
      order under its own name or its name + suffix (user suffix: all right columns get it; without
      collision: unchanged); names pairwise distinct; no column lost (|L| + |R| visible columns)
  N2  Cache after the join satisfies M1 and is coupled (J / J') with both backend states
  N3  every column of both inputs, visible or hidden, keeps its data and stays addressable by uuid
  N4  shape of the emitted join: Polars join(how, left_on, right_on, coalesce=False) with the left/right
      key expressions taken from the proper side (also for `right.c == left.c`), cross join for an empty
      condition, join_where otherwise; SQL JOIN with isouter / full flags matching `how`
"""

from __future__ import annotations

import itertools

import z3

from .. import core, lfmodel, plmodel, sqlmodel
from .. import harness as H
from .. import tablestep as TS
from ..oblig import VC, Obligation, Outcome
from ..symname import SymName, name_eq
from . import c09, c11
from .c11 import col_of

pdt = H.pdt
verbs_mod = pdt._internal.pipe.verbs


def join_steps(L, R):
    out = []
    li, ri = L.vis[0], R.vis[0]
    for how in ("inner", "left", "full"):
        out.append((f"{how},l==r", dict(how=how, suffix=None, eq=True), lambda pres, ts, how=how: ts[0] >> pdt.join(ts[1], col_of(pres[0], pres[0].vis[0]) == col_of(pres[1], pres[1].vis[0]), how)))
    out.append(("inner,r==l(swapped)", dict(how="inner", suffix=None, eq=True), lambda pres, ts: ts[0] >> pdt.join(ts[1], col_of(pres[1], pres[1].vis[0]) == col_of(pres[0], pres[0].vis[0]), "inner")))
    out.append(("inner,suffix=_x", dict(how="inner", suffix="_x", eq=True), lambda pres, ts: ts[0] >> pdt.join(ts[1], col_of(pres[0], pres[0].vis[0]) == col_of(pres[1], pres[1].vis[-1]), "inner", suffix="_x")))
    out.append(("cross", dict(how="inner", suffix=None, eq=None), lambda pres, ts: ts[0] >> pdt.cross_join(ts[1])))
    out.append(("left,l<r", dict(how="left", suffix=None, eq=False), lambda pres, ts: ts[0] >> pdt.join(ts[1], col_of(pres[0], pres[0].vis[0]) < col_of(pres[1], pres[1].vis[0]), "left")))
    out.append(("inner,l<=r&l==r", dict(how="inner", suffix=None, eq=False), lambda pres, ts: ts[0] >> pdt.join(ts[1], [col_of(pres[0], pres[0].vis[0]) <= col_of(pres[1], pres[1].vis[0]), col_of(pres[0], pres[0].vis[0]) == col_of(pres[1], pres[1].vis[-1])], "inner")))
    return out


def names_rule(pres, new, info):
    """N1 as (label, z3 Bool) list"""
    L, R = pres
    names = list(new._cache.name_to_uuid.keys())
    uu = list(new._cache.name_to_uuid.values())
    nl, nr = len(L.vis), len(R.vis)
    obs = [("N1: no visible column is lost or duplicated (|L| + |R| visible columns)", z3.BoolVal(len(names) == nl + nr))]
    if len(names) != nl + nr:
        return obs
    obs.append(("N1: left uuids then right uuids, in order", z3.BoolVal(uu == [L.uuids[i] for i in L.vis] + [R.uuids[i] for i in R.vis])))
    obs.append(("N1: left names are unchanged", TS.seq_eq(names[:nl], [L.phys[i] for i in L.vis])))
    rnames = names[nl:]
    orig = [R.phys[i] for i in R.vis]
    if info["suffix"]:
        obs.append(("N1: with a user suffix every right column is named <name><suffix>", TS.seq_eq(rnames, [o + info["suffix"] for o in orig])))
    else:
        collide = z3.Or(*[name_eq(a, b) for a in orig for b in [L.phys[i] for i in L.vis]])
        obs.append(("N1: without a collision the right names are unchanged", z3.Implies(z3.Not(collide), TS.seq_eq(rnames, orig))))
        for rn, o in zip(rnames, orig):
            t = rn.t if isinstance(rn, SymName) else z3.StringVal(rn)
            obs.append(("N1: a right column keeps its name or gets a suffix appended", z3.Or(name_eq(rn, o), z3.And(z3.PrefixOf(o.t, t), z3.Length(t) > z3.Length(o.t)))))
    return obs


def make_run(pre_factories, label, info, fn, backend):
    def run(carve):
        plmodel.reset_state()
        pres = [f() for f in pre_factories]
        extra = []
        if "join_helper_names" in carve:
            for x in [n for p in pres for n in p.phys]:
                extra.append(x.t != z3.StringVal("__INDEX__"))
                for a in pres[0].phys:
                    extra.append(x.t != z3.Concat(a.t, z3.StringVal("_right")))
        paths, wit = TS.explore_step(pres, fn, backend, extra_facts=extra)
        vc = VC(f"[{pres[0].skel} x {pres[1].skel}] join({label}) on {backend}: names rule N1, Cache invariant M1, coupling with the backend state, join shape N4")
        toks = [{p.token(i) for i in range(p.skel.w)} for p in pres]
        for p in paths:
            vc.paths += 1
            if p.kind == "exc":
                vc.require(p.pc, z3.BoolVal(False), f"an accepted join makes the {backend} compilation fail: {type(p.value).__name__}: {str(p.value)[:200]}", wit)
                continue
            if p.value[0] == "rejected":
                vc.queries += 1
                continue
            _, new, state, aux, tables, _probe = p.value
            for lab, cond in names_rule(pres, new, info) + c11.cache_invariant(new._cache):
                vc.require(p.pc, cond, lab, wit)
            if backend == "polars":
                for lab, cond in c11.polars_coupling(new._cache, state, new._ast):
                    vc.require(p.pc, cond, lab, wit)
                vc.require(p.pc, TS.seq_eq(list(aux["exported"].cols.keys()), list(new._cache.name_to_uuid.keys())), "exported frame columns differ from columns()", wit)
                df = state[0]
                last = df.hist[-1] if df.hist else None
                if info["eq"] is True:
                    ok = last is not None and last[0] == "join" and last[1] == info["how"] and last[5] is False and len(last[2]) == len(last[3]) == 1 and _leaves(last[2]) <= toks[0] and _leaves(last[3]) <= toks[1]
                    vc.require(p.pc, z3.BoolVal(bool(ok)), f"N4: expected join(how={info['how']}, coalesce=False) with the left key from the left table and the right key from the right table, got {last}", wit)
                elif info["eq"] is None:
                    vc.require(p.pc, z3.BoolVal(last is not None and last[0] == "join" and last[1] == "cross"), f"N4: expected a cross join, got {last}", wit)
                else:
                    ok = last is not None and ((info["how"] == "left" and last[0] == "join_on") or (info["how"] != "left" and last[0] == "join_where"))
                    vc.require(p.pc, z3.BoolVal(bool(ok)), f"N4: expected join_where (+ index emulation for a left join), got {last}", wit)
            else:
                for lab, cond in c11.sql_coupling(new._cache, state, aux, new._ast):
                    vc.require(p.pc, cond, lab, wit)
                table = state[0]
                ok = table.kind == "join" and table.info["isouter"] == (info["how"] != "inner") and table.info["full"] == (info["how"] == "full")
                vc.require(p.pc, z3.BoolVal(bool(ok)), f"N4: SQL FROM is {table.kind} with isouter={table.info.get('isouter')}, full={table.info.get('full')} for how={info['how']}", wit)
        return vc.outcome()

    return run


def _leaves(tok):
    out = set()

    def walk(t):
        if isinstance(t, tuple):
            if t and t[0] == "src":
                out.add(t)
            else:
                for x in t:
                    walk(x)

    walk(tok)
    return out


def make_replayer(ls, rs, label, fn, backend):
    def replay(model):
        try:
            m0 = {k.split(".", 1)[1]: v for k, v in model.items() if k.startswith("l.")}
            m1 = {k.split(".", 1)[1]: v for k, v in model.items() if k.startswith("r.")}
            cl, cr = c11.ConcretePre(ls, m0, backend), None
            import polars as pl
            import sqlalchemy as sqa

            # the right table must live in the same engine / have a different name
            used = set()
            rn = []
            for i in range(rs.w):
                n = m1.get(f"name{i}")
                if not isinstance(n, str) or n in used:
                    n = f"rcol{i}"
                used.add(n)
                rn.append(n)
            df = pl.DataFrame({n: [1, 2, 4] for n in rn})
            if backend == "polars":
                tr = pdt.Table(df, name="r")
            else:
                eng = cl.base._ast.engine
                df.write_database("r", eng)
                tr = pdt.Table("r", pdt.SqlAlchemy(eng))

            class RP:
                pass

            rp = RP()
            rp.phys, rp.vis = rn, [i for i, c in enumerate(rs.cols) if c != "hid"]
            rp.cols = [tr[n] for n in rn]
            rp.uuids = [c._uuid for c in rp.cols]
            rp.dtypes = [c._dtype for c in rp.cols]
            rp.ftypes = [c._ftype for c in rp.cols]
            rp.node = tr._ast
            tr2 = tr >> pdt.select(*[rp.cols[i] for i in rp.vis])
            new = fn([cl, rp], [cl.tbl, tr2])
        except Exception as e:  # noqa: BLE001
            return {"reproduced": False, "text": f"could not build / the verb rejects the concrete instance: {type(e).__name__}: {str(e)[:200]}"}
        desc = f"left columns {cl.phys} (visible {[cl.phys[i] for i in cl.vis]}), right columns {rn} (visible {[rn[i] for i in rp.vis]}), join({label})"
        cols = new >> pdt.columns()
        exp_n = len(cl.vis) + len(rp.vis)
        try:
            out = (new >> pdt.export(pdt.Polars())).columns
        except Exception as e:  # noqa: BLE001
            return {"reproduced": True, "text": f"{desc}: accepted, columns()={cols}, but export on {backend} raises {type(e).__name__}: {str(e)[:200]}"}
        bad = list(out) != list(cols) or len(cols) != exp_n or len(set(cols)) != len(cols)
        return {"reproduced": bad, "text": f"{desc}: columns()={cols} (expected {exp_n} distinct names), exported columns on {backend}={list(out)}"}

    return replay


def n5_run(carve, literal_preds=True):
    """native join matrix: exact row combinations against a hand-computed expectation, on Polars and SQLite"""
    import warnings

    import polars as pl
    import sqlalchemy as sqa

    from .c13 import _enum_outcome

    L = pl.DataFrame({"k": [1, 2, 2, 3, None, 7], "x": [10, 20, 21, 30, 40, 70], "h": [1, 2, 3, 4, 5, 6], "kf": [1.0, 2.0, 2.0, 3.0, None, 7.0], "z": [0, -1, 2, 3, None, 7]})
    R = pl.DataFrame({"k": [2, 2, 3, 4, None, 7], "y": [200, 201, 300, 400, 500, 5], "g": [1, 2, 3, 4, 5, 6], "zf": [2.5, -0.5, 3.5, 3.9, None, -1.5]})
    R2 = pl.DataFrame({"g2": [1, 2, 3, 4, 5, 6], "v": [7, None, 9, None, 11, 12]})
    lrows, rrows = L.rows(), R.rows()
    preds = {
        "eq": (lambda l, r: l.k == r.k, lambda a, b: a[0] is not None and b[0] is not None and a[0] == b[0]),
        "eq_swapped": (lambda l, r: r.k == l.k, lambda a, b: a[0] is not None and b[0] is not None and a[0] == b[0]),
        "lt": (lambda l, r: l.x < r.y, lambda a, b: a[1] < b[1]),
        "eq_and_lt": (lambda l, r: (l.k == r.k) & (l.x < r.y), lambda a, b: a[0] is not None and b[0] is not None and a[0] == b[0] and a[1] < b[1]),
        "eq_and_ge_expr": (lambda l, r: (l.k == r.k) & (l.h + 1 >= r.g), lambda a, b: a[0] is not None and b[0] is not None and a[0] == b[0] and a[2] + 1 >= b[2]),
        "two_eq": (lambda l, r: (l.k == r.k) & (l.h == r.g), lambda a, b: a[0] is not None and b[0] is not None and a[0] == b[0] and a[2] == b[2]),
        "two_eq_second_swapped": (lambda l, r: (l.k == r.k) & (r.g == l.h), lambda a, b: a[0] is not None and b[0] is not None and a[0] == b[0] and a[2] == b[2]),
        "three_eq_mixed_sides": (lambda l, r: (r.k == l.k) & (l.h == r.g) & (r.y >= l.x), lambda a, b: a[0] is not None and b[0] is not None and a[0] == b[0] and a[2] == b[2] and b[1] >= a[1]),
        "all3": (lambda l, r: pdt.all(l.k == r.k, l.x < r.y, l.h + 1 >= r.g), lambda a, b: a[0] is not None and b[0] is not None and a[0] == b[0] and a[1] < b[1] and a[2] + 1 >= b[2]),
        "all3_eq": (lambda l, r: pdt.all(l.k == r.k, l.h == r.g, r.y >= l.x), lambda a, b: a[0] is not None and b[0] is not None and a[0] == b[0] and a[2] == b[2] and b[1] >= a[1]),
        "expr_key": (lambda l, r: l.k + 1 == r.k, lambda a, b: a[0] is not None and b[0] is not None and a[0] + 1 == b[0]),
        # keys of different numeric type (Float64 on the left, Int64 on the right)
        "eq_float_int": (lambda l, r: l.kf == r.k, lambda a, b: a[3] is not None and b[0] is not None and a[3] == b[0]),
        "eq_int_float_swapped": (lambda l, r: r.k == l.kf, lambda a, b: a[3] is not None and b[0] is not None and a[3] == b[0]),
        "eq_float_int_and_lt": (lambda l, r: (l.kf == r.k) & (l.x < r.y), lambda a, b: a[3] is not None and b[0] is not None and a[3] == b[0] and a[1] < b[1]),
        # an integer key against a float key with FRACTIONAL values, written from either side (the comparison is made in the common type)
        "int_lt_float_frac": (lambda l, r: l.z < r.zf, lambda a, b: a[4] is not None and b[3] is not None and a[4] < b[3]),
        "int_le_float_frac": (lambda l, r: l.z <= r.zf, lambda a, b: a[4] is not None and b[3] is not None and a[4] <= b[3]),
        "float_frac_le_int": (lambda l, r: r.zf <= l.z, lambda a, b: a[4] is not None and b[3] is not None and b[3] <= a[4]),
        "eq_and_int_ge_float_frac": (lambda l, r: (l.k == r.k) & (l.z >= r.zf), lambda a, b: a[0] is not None and b[0] is not None and a[0] == b[0] and a[4] is not None and b[3] is not None and a[4] >= b[3]),
        "int_eq_float_frac": (lambda l, r: l.z == r.zf, lambda a, b: a[4] is not None and b[3] is not None and a[4] == b[3]),
        # literal conjuncts: False matches no pair, True is neutral
        "eq_and_literal_false": (lambda l, r: (l.k == r.k) & False, lambda a, b: False),
        "literal_false": (lambda l, r: pdt.lit(False), lambda a, b: False),
        "eq_and_literal_true": (lambda l, r: (l.k == r.k) & True, lambda a, b: a[0] is not None and b[0] is not None and a[0] == b[0]),
        "lt_float_int": (lambda l, r: l.kf < r.k, lambda a, b: a[3] is not None and b[0] is not None and a[3] < b[0]),
    }
    n, bad = 0, []

    def expected(how, py, lrows=lrows, rrows=rrows):
        out = []
        matched_r = set()
        for a in lrows:
            m = [j for j, b in enumerate(rrows) if py(a, b)]
            matched_r.update(m)
            out += [a[:3] + rrows[j][:3] for j in m]
            if not m and how in ("left", "full"):
                out.append(a[:3] + (None, None, None))
        if how == "full":
            out += [(None, None, None) + b[:3] for j, b in enumerate(rrows) if j not in matched_r]
        return out

    key = lambda r: tuple((v is None, v if v is not None else 0) for v in r)  # noqa: E731
    with warnings.catch_warnings():
        warnings.simplefilter("ignore")
        for be in ("polars", "sqlite"):
            if be == "polars":
                l, r, r2 = pdt.Table(L, name="l"), pdt.Table(R, name="r"), pdt.Table(R2, name="r2")
            else:
                eng = sqa.create_engine("sqlite://")
                L.write_database("l", eng)
                R.write_database("r", eng)
                R2.write_database("r2", eng)
                l, r, r2 = pdt.Table("l", pdt.SqlAlchemy(eng)), pdt.Table("r", pdt.SqlAlchemy(eng)), pdt.Table("r2", pdt.SqlAlchemy(eng))
            for pname, (on, py) in preds.items():
                if ("literal_predicate" in carve or not literal_preds) and pname in ("eq_and_literal_false", "literal_false"):
                    continue
                for how in ("inner", "left", "full"):
                    if how == "full" and pname not in ("eq", "eq_swapped", "two_eq", "two_eq_second_swapped", "expr_key", "eq_float_int", "eq_int_float_swapped", "int_eq_float_frac"):
                        continue
                    for variant in ("plain", "right_hidden", "left_filtered", "left_filtered_alias", "right_filtered_alias", "right_const", "right_const_alias", "left_const", "right_filtered", "right_computed", "left_computed", "right_computed_alias", "right_nested_join_alias", "left_computed_alias"):
                        if "join_helper" in carve and False:
                            continue
                        n += 1
                        try:
                            ll, rr = l, r
                            want = expected(how, py)
                            if variant == "right_hidden":
                                rr = r >> pdt.select(r.y)  # the key of the right table is hidden; it is read through `r.k` afterwards
                            if variant in ("left_filtered", "left_filtered_alias"):
                                # a filter of an operand is applied BEFORE the join: rows it removes are neither matched nor padded
                                ll = l >> pdt.filter(l.h > 1)
                                want = expected(how, py, lrows=[a for a in lrows if a[2] > 1])
                                if variant == "left_filtered_alias":
                                    ll = ll >> pdt.alias("lf")
                            extra_cols, extra_want = [], None
                            if variant in ("right_const", "right_const_alias"):
                                # a constant column of the null-extended side must be NULL on unmatched rows
                                rr = r >> pdt.mutate(cc=5)
                                if variant == "right_const_alias":
                                    rr = rr >> pdt.alias("rc") >> pdt.rename({"k": "k", "y": "y", "g": "g"})
                                    continue  # after alias() the original references of r are out of scope; covered by C16/X6
                                extra_cols = [rr.cc]
                                want = [w + ((5,) if w[3] is not None or w[4] is not None or w[5] is not None else (None,)) for w in want]
                            if variant == "right_computed":
                                # a computed column that is not null for null input (fill_null / when(is_null)) must still be NULL on the rows the join adds
                                rr = r >> pdt.mutate(cc=pdt.when(r.k.is_null()).then(-1).otherwise(r.y.fill_null(0) + 1))
                                extra_cols = [rr.cc]
                                want = [w + (((-1 if w[3] is None else w[4] + 1),) if (w[4] is not None or w[5] is not None) else (None,)) for w in want]
                            if variant == "left_computed":
                                ll = l >> pdt.mutate(cc=pdt.coalesce(l.k, 0) + 100)
                                extra_cols = [ll.cc]
                                want = [w + (((w[0] if w[0] is not None else 0) + 100,) if w[2] is not None else (None,)) for w in want]
                            if variant == "left_const":
                                ll = l >> pdt.mutate(cc=7)
                                extra_cols = [ll.cc]
                                want = [w + ((7,) if w[2] is not None else (None,)) for w in want]
                            if variant in ("right_filtered", "right_filtered_alias"):
                                rr = r >> pdt.filter(r.g != 2)
                                want = expected(how, py, rrows=[b for b in rrows if b[2] != 2])
                                if variant == "right_filtered_alias":
                                    rr = rr >> pdt.alias("rf")
                            lh_, rh_ = l, r  # the table objects through which the columns are referenced
                            if variant == "left_filtered_alias":
                                lh_ = ll
                            if variant == "right_filtered_alias":
                                rh_ = rr
                            if variant == "right_computed_alias":
                                # the computed column sits below an alias(): the subquery requirement must see through it
                                rr = r >> pdt.mutate(cc=pdt.when(r.k.is_null()).then(-1).otherwise(r.y.fill_null(0) + 1)) >> pdt.alias("rc")
                                rh_, extra_cols = rr, [rr.cc]
                                want = [w + (((-1 if w[3] is None else w[4] + 1),) if (w[4] is not None or w[5] is not None) else (None,)) for w in want]
                            if variant == "right_nested_join_alias":
                                # ... and through a join below the alias
                                r2m = r2 >> pdt.mutate(zz=r2.v.fill_null(0))
                                rr = r >> pdt.inner_join(r2m, r.g == r2m.g2) >> pdt.alias("rn")
                                rh_, extra_cols = rr, [rr.zz]
                                vmap = dict(zip(R2["g2"].to_list(), R2["v"].to_list()))
                                want = [w + (((vmap[w[5]] if vmap[w[5]] is not None else 0),) if w[5] is not None else (None,)) for w in want]
                            if variant == "left_computed_alias":
                                if how != "full":
                                    continue
                                ll = l >> pdt.mutate(cc=pdt.coalesce(l.k, 0) + 100) >> pdt.alias("lc")
                                lh_, extra_cols = ll, [ll.cc]
                                want = [w + (((w[0] if w[0] is not None else 0) + 100,) if w[2] is not None else (None,)) for w in want]
                            j = ll >> pdt.join(rr, on(lh_, rh_), how)
                            names = ["lk__", "lx__", "lh__", "rk__", "ry__", "rg__"] + (["cc__"] if extra_cols else [])
                            out = j >> pdt.mutate(lk__=lh_.k, lx__=lh_.x, lh__=lh_.h, rk__=rh_.k, ry__=rh_.y, rg__=rh_.g, **({"cc__": extra_cols[0]} if extra_cols else {})) >> pdt.select(*[pdt.C[c] for c in names]) >> pdt.export(pdt.Polars())
                            got = sorted(out.rows(), key=key)
                            if got != sorted(want, key=key):
                                miss = [w for w in sorted(want, key=key) if w not in got][:3]
                                extra = [g for g in got if g not in want][:3]
                                bad.append(f"[{be}] {how} join on {pname} ({variant}): {len(got)} rows, expected {len(want)}; missing {miss}, unexpected {extra}")
                        except (pdt.errors.SubqueryError, pdt.errors.NotSupportedError):
                            pass
                        except Exception as e:  # noqa: BLE001
                            bad.append(f"[{be}] {how} join on {pname} ({variant}): {type(e).__name__}: {str(e)[:160]}")
    return _enum_outcome("every join kind x predicate shape x operand variant yields exactly the expected row combinations (left and right values read through the original column references)", n, bad)


def n5_core_run(carve):
    """the N5 matrix as registered under other properties (without the literal-False predicates of F-join-literal-predicate-polars, which is C06's finding)"""
    return n5_run(carve, literal_preds=False)


def n6_run(carve):
    """the join wrappers are the join verb with the documented `how`: same node (how, validate, on) and same visible columns"""
    import polars as pl

    from .c13 import _enum_outcome

    l = pdt.Table(pl.DataFrame({"k": [1, 2], "x": [1, 2]}), name="l")
    r = pdt.Table(pl.DataFrame({"k": [1, 3], "y": [5, 6]}), name="r")
    n, bad = 0, []
    V = pdt._internal.tree.verbs
    for wrapper, how in ((pdt.inner_join, "inner"), (pdt.left_join, "left"), (pdt.full_join, "full")):
        for kw in ({}, {"validate": "1:m"}, {"suffix": "_zz"}):
            for on in (lambda: l.k == r.k, lambda: "k", lambda: [l.k == r.k, l.x <= r.y] if how != "full" else [l.k == r.k, l.x == r.y]):
                n += 1
                a = l >> wrapper(r, on(), **kw)
                b = l >> pdt.join(r, on(), how, **kw)
                na, nb = a._ast, b._ast
                if not isinstance(na, V.Join) or (na.how, na.validate, na.on.ast_repr()) != (nb.how, nb.validate, nb.on.ast_repr()) or [c.name for c in a] != [c.name for c in b]:
                    bad.append(f"{wrapper.__name__}(.., {kw}) builds Join(how={getattr(na, 'how', None)}, validate={getattr(na, 'validate', None)}, on={na.on.ast_repr() if hasattr(na, 'on') else None}, columns {[c.name for c in a]}); join(how={how!r}) builds (how={nb.how}, validate={nb.validate}, on={nb.on.ast_repr()}, columns {[c.name for c in b]})")
    n += 1
    a, b = l >> pdt.cross_join(r), l >> pdt.join(r, [], "inner")
    if a._ast.how != "inner" or a._ast.on.ast_repr() != b._ast.on.ast_repr() or [c.name for c in a] != [c.name for c in b]:
        bad.append(f"cross_join builds Join(how={a._ast.how}, on={a._ast.on.ast_repr()}) with columns {[c.name for c in a]}")
    return _enum_outcome("inner_join / left_join / full_join / cross_join build exactly the node of join(how=...)", n, bad)


def obligations(tier):
    fi = H.fn_info
    fns = [fi(verbs_mod.join), fi(verbs_mod.rename), fi(TS.Cache.update), fi(pdt._internal.pipe.pipeable.check_subquery), fi(TS.Cache.requires_subquery)]
    fns_p = fns + [fi(H.polars_backend.compile_ast), fi(H.polars_backend.rename_overwritten_cols), fi(H.table_impl_mod.split_join_cond), fi(H.table_impl_mod.get_left_right_on)]
    fns_s = fns + [fi(H.sql_backend.SqlImpl.compile_ast), fi(H.sql_backend.SqlImpl.compile_query)]
    obs = []
    jsk = [TS.Skeleton(c) for c in (("vis",), ("vis", "hid"), ("vis", "vis"), ("hid", "vis"))]
    for ls, rs in itertools.product(jsk, jsk):
        if tier == "quick" and ls.w + rs.w > 3 and not (ls.cols, rs.cols) in ((("vis", "hid"), ("vis", "hid")),):
            continue
        pf = [lambda ls=ls: TS.Pre(ls, "l"), lambda rs=rs: TS.Pre(rs, "r")]
        for label, info, fn in join_steps(TS.Pre(ls, "l"), TS.Pre(rs, "r")):
            for backend, f in (("polars", fns_p), ("sql", fns_s)):
                obs.append(Obligation(f"C06/N1-N4/{backend}/{ls}x{rs}/{label}", "N1+N2+N4", f"join({label}) of {ls} and {rs} on {backend}", make_run(pf, label, info, fn, backend),
                                      functions=f, bounded=f"table widths {ls.w} and {rs.w} (names symbolic, collisions explored)", tags=("cross_backend",),
                                      carveouts={"join_helper_names": "no column is named __INDEX__ or <left column>_right"}, replayer=make_replayer(ls, rs, label, fn, "polars" if backend == "polars" else "sqlite")))
    obs.append(Obligation("C06/N5/native_matrix", "N5", "exact row combinations of inner / left / full joins natively", n5_run, functions=fns_p + [fi(H.sql_backend.SqlImpl.compile_ast)], carveouts={"literal_predicate": "a literal False conjunct in the join condition"},
                          bounded="20 predicate shapes (incl. pdt.all(...) of three predicates) (incl. Float64 vs Int64 keys - also fractional values against integer keys -, equalities written from either side) x 3 join kinds x 13 operand variants (plain, hidden right key, filtered left / right (also below alias(), also for full joins), constant or computed non-null-preserving column on either side, also below alias() and below a nested join) x 2 backends on one pair of 6-row tables with nulls, duplicates and unmatched rows"))
    obs.append(Obligation("C06/N6/wrappers", "N6", "inner_join / left_join / full_join / cross_join are join(how=...)", n6_run, functions=[fi(verbs_mod.inner_join), fi(verbs_mod.left_join), fi(verbs_mod.full_join), fi(verbs_mod.cross_join), fi(verbs_mod.join)],
                          bounded="3 wrappers x 3 keyword sets x 3 shapes of `on` (+ cross_join); the wrappers are straight-line calls"))
    return obs


DESIGN_REF = "DESIGN.md §5.6"
ASSUMPTIONS = c11.ASSUMPTIONS + [
    "row semantics of the engine joins (join / join_where / cross, SQL JOIN .. ON) are library axioms; N4 checks that the requested kind, keys and flags are what the code emits",
    "N3 (all columns keep their data and stay referable after a join) is the join part of C09's obligations",
    "the iteration order of the set of right names in the suffix search equals insertion order here; other orders are covered by the symmetry of the symbolic names",
]
LEVEL = "other"
EXPLANATION = c11.EXPLANATION.replace("every verb", "every join variant (inner / left / full, swapped equality, user suffix, cross join, inequality predicates) of two tables")
