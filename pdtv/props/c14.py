"""C14 - ill-formed pipelines are rejected when built, with the documented error.

  G0   traversal completeness per expression class: iter_children yields exactly the ColExpr-typed fields, so
       iter_subtree_* visits every nested construct (this is what makes each rule hold wherever it is nested)
  G1..G10  rule x syntactic position x preceding history x backend: the verb call itself raises the documented
       exception class, the same on Polars and SQLite, and the input table stays usable (executed natively)
  G11  backend independence: the only uses of `_cache.backend` in the verb layer are the equality test in
       join/union and requires_subquery (static scan of the real source)
  G13  converse: an accepted pipeline exports on Polars without an internal error (carried by the step
       obligations of C11/C09/C06/C07, which treat any exception of compile_ast as a violation)
"""

from __future__ import annotations

import ast
import inspect
import itertools
import textwrap
import warnings

import z3

from .. import harness as H
from ..oblig import Obligation, Outcome
from .c13 import _enum_outcome

pdt = H.pdt
E = pdt.errors
CE = H.col_expr_mod


def make_tables():
    import polars as pl
    import sqlalchemy as sqa

    df = pl.DataFrame({"a": [1, 2, 2, None], "b": [1.5, None, 3.5, 4.5], "s": ["x", "y", None, "w"], "f": [True, False, None, True]})
    df2 = pl.DataFrame({"a": [1, 2], "z": [5, 6]})
    eng = sqa.create_engine("sqlite://")
    df.write_database("t", eng)
    df2.write_database("u", eng)
    return {
        "polars": (pdt.Table(df, name="t"), pdt.Table(df2, name="u")),
        "sqlite": (pdt.Table("t", pdt.SqlAlchemy(eng)), pdt.Table("u", pdt.SqlAlchemy(eng))),
    }


POS = {
    "num": {
        "top": lambda bad, t: bad,
        "in_arithmetic": lambda bad, t: (bad + 1) * 2,
        "case_value": lambda bad, t: pdt.when(t.f).then(bad).otherwise(0),
        "case_default": lambda bad, t: pdt.when(t.f).then(1).otherwise(bad),
        "case_condition": lambda bad, t: pdt.when(bad > 0).then(1).otherwise(0),
        "fn_argument": lambda bad, t: pdt.coalesce(bad, 0),
        "nested_twice": lambda bad, t: pdt.when(t.f).then(pdt.max(bad, 1) + 1).otherwise(0),
    },
    "bool": {
        "top": lambda bad, t: bad,
        "in_boolean_op": lambda bad, t: bad & t.f,
        "negated": lambda bad, t: ~bad,
        "case_condition": lambda bad, t: pdt.when(bad).then(True).otherwise(False),
        "case_value": lambda bad, t: pdt.when(t.f).then(bad).otherwise(False),
    },
}


def positions(mk_bad, t, kind):
    """nest the offending (sub)expression at several syntactic positions; yields (label, factory) - the expression is
    built inside the rule's thunk because the library type-checks eagerly (a documented error raised while the
    expression is being built also counts as rejected-when-built)"""
    for label, f in POS[kind].items():
        yield label, (lambda f=f: f(mk_bad(), t))


def histories(t, u):
    yield "source", t
    yield "after_mutate_select", t >> pdt.mutate(q=t.a * 2) >> pdt.select(t.a, t.b, t.s, t.f)
    yield "after_rename_filter", t >> pdt.rename({"b": "bb"}) >> pdt.filter(t.a > 0)
    yield "after_arrange", t >> pdt.arrange(t.a)


def rules(t, u, hist_tbl):
    """(rule id, description, expected exception classes, thunk applying the ill-formed verb to hist_tbl)"""
    T = hist_tbl
    out = []

    def add(rid, desc, exc, thunk):
        out.append((rid, desc, exc, thunk))

    # G1 type errors in expressions -> DataTypeError
    for via, mk in (("table_ref", lambda: t.a + t.s), ("C_ref", lambda: pdt.C.a + pdt.C.s)):
        for pos, e in positions(mk, t, "num"):
            add(f"G1/type_error/mutate/{via}/{pos}", "Int + String", (E.DataTypeError,), lambda e=e: T >> pdt.mutate(x=e()))
    for via, mk in (("table_ref", lambda: t.s.str.len() > t.s), ("C_ref", lambda: pdt.C.s.str.len() > pdt.C.s)):
        for pos, e in positions(mk, t, "bool"):
            add(f"G1/type_error/filter/{via}/{pos}", "Int > String", (E.DataTypeError,), lambda e=e: T >> pdt.filter(e()))
    add("G1/type_error/when_non_bool", "when(non-boolean)", (E.DataTypeError,), lambda: T >> pdt.mutate(x=pdt.when(t.a).then(1).otherwise(2)))
    add("G1/type_error/cast", "cast String -> Date", (E.DataTypeError,), lambda: T >> pdt.mutate(x=t.s.cast(pdt.Date())))
    add("G1/type_error/arrange", "arrange by ill-typed expression", (E.DataTypeError,), lambda: T >> pdt.arrange(pdt.C.a + pdt.C.s))
    add("G1/type_error/summarize", "summarize ill-typed", (E.DataTypeError,), lambda: T >> pdt.summarize(x=(pdt.C.a + pdt.C.s).max()))
    # G2 non-boolean filter / on
    for pos, e in positions(lambda: t.a + 1, t, "num"):
        add(f"G2/non_boolean_filter/{pos}", "filter with a non-boolean predicate", (E.DataTypeError,), lambda e=e: T >> pdt.filter(e()))
    add("G2/non_boolean_on", "join on a non-boolean expression", (E.DataTypeError,), lambda: T >> pdt.join(u, t.a + u.a, "inner"))
    # G3 window / aggregate functions in filter / on ; window in summarize
    for wname, w in (("window", lambda: t.a.shift(1, arrange=t.b)), ("aggregate", lambda: t.a.max()), ("row_number", lambda: pdt.row_number(arrange=t.a)), ("window_via_C", lambda: pdt.C.a.shift(1, arrange=pdt.C.s))):
        for pos, e in positions(w, t, "num"):
            add(f"G3/{wname}_in_filter/{pos}", f"{wname} function inside filter", (E.FunctionTypeError,), lambda e=e: T >> pdt.filter(e() > 0))
    for pos, e in positions(lambda: t.a.shift(1, arrange=t.b), t, "num"):
        add(f"G3/window_in_summarize/{pos}", "window function inside summarize", (E.FunctionTypeError,), lambda e=e, pos=pos: T >> pdt.summarize(x=e().max() if pos == "top" else e()))
    add("G3/window_in_on", "window function in join condition", (E.FunctionTypeError,), lambda: T >> pdt.join(u, t.a.shift(1, arrange=t.b) == u.a, "inner"))
    add("G3/aggregate_in_on", "aggregate function in join condition", (E.FunctionTypeError,), lambda: T >> pdt.join(u, t.a.max() == u.a, "inner"))
    # G4 nested aggregate / window
    for pos, e in positions(lambda: t.a.max(), t, "num"):
        add(f"G4/nested_agg_in_agg/{pos}", "aggregate nested in aggregate", (E.FunctionTypeError,), lambda e=e: T >> pdt.mutate(x=e().sum()))
        add(f"G4/nested_agg_in_window/{pos}", "aggregate nested in window function", (E.FunctionTypeError,), lambda e=e: T >> pdt.mutate(x=e().shift(1, arrange=t.b)))
    # the whole nested construct at every syntactic position (also inside a case condition whose branch values are literals)
    for nname, w in (("agg_in_window", lambda: t.a.max().shift(1, arrange=t.b)), ("agg_in_agg", lambda: t.a.max().sum()), ("window_in_agg", lambda: t.a.shift(1, arrange=t.b).max()), ("window_in_window", lambda: t.a.shift(1, arrange=t.b).shift(1, arrange=t.b))):
        for pos, e in positions(w, t, "num"):
            add(f"G4/{nname}/mutate/{pos}", f"{nname} nested, used in mutate", (E.FunctionTypeError,), lambda e=e: T >> pdt.mutate(x=e()))
        for pos, e in positions(w, t, "num"):
            if pos in ("top", "case_condition", "case_value"):
                add(f"G4/{nname}/arrange/{pos}", f"{nname} nested, used in arrange", (E.FunctionTypeError,), lambda e=e: T >> pdt.arrange(e()))
    add("G4/nested_in_context_kwarg", "window function inside arrange= of a window function", (E.FunctionTypeError,), lambda: T >> pdt.mutate(x=t.a.shift(1, arrange=t.b.shift(1, arrange=t.a))))
    add("G4/nested_in_partition_by", "aggregate inside filter= of an aggregate", (E.FunctionTypeError,), lambda: T >> pdt.mutate(x=t.a.sum(filter=t.b.max() > 1)))
    # G5 non-aggregated non-grouping column in summarize
    for pos, e in positions(lambda: t.b, t, "num"):
        add(f"G5/non_aggregated/{pos}", "column neither aggregated nor grouping", (E.FunctionTypeError,), lambda e=e: T >> pdt.group_by(t.a) >> pdt.summarize(x=e()))
    add("G5/non_aggregated_in_case_condition", "bare column in the condition of a case expression whose value is aggregated", (E.FunctionTypeError,), lambda: T >> pdt.summarize(x=pdt.when(t.f).then(t.a.max()).otherwise(0)))
    add("G1/filter_int_literal", "filter(1)", (E.DataTypeError,), lambda: T >> pdt.filter(1))
    add("G1/filter_none_literal", "filter(None)", (E.DataTypeError,), lambda: T >> pdt.filter(None))
    add("G5/non_aggregated_mixed", "aggregate + bare column", (E.FunctionTypeError,), lambda: T >> pdt.group_by(t.a) >> pdt.summarize(x=t.b.max() + t.b))
    # G6 unknown / hidden columns
    add("G6/unknown_C", "C.nope", (E.ColumnNotFoundError,), lambda: T >> pdt.mutate(x=pdt.C.nope + 1))
    add("G6/unknown_select_str", "select('nope')", (E.ColumnNotFoundError,), lambda: T >> pdt.select("nope"))
    add("G6/foreign_col", "column of an unrelated table", (E.ColumnNotFoundError,), lambda: T >> pdt.mutate(x=u.z))
    add("G6/foreign_col_nested", "column of an unrelated table, nested", (E.ColumnNotFoundError,), lambda: T >> pdt.filter(pdt.when(t.f).then(u.z).otherwise(1) > 0))
    add("G6/reselect_hidden", "re-select a hidden column", (E.ColumnNotFoundError,), lambda: T >> pdt.select(t.a) >> pdt.select(t.s))
    add("G6/summarized_away", "column dropped by summarize", (E.ColumnNotFoundError,), lambda: T >> pdt.group_by(t.a) >> pdt.summarize(m=t.b.max()) >> pdt.mutate(x=t.s))
    add("G6/after_alias", "origin reference after alias()", (E.ColumnNotFoundError,), lambda: T >> pdt.alias("z") >> pdt.mutate(x=t.a))
    add("G6/unknown_in_on", "unknown column in join condition", (ValueError,), lambda: T >> pdt.join(u, pdt.C.nope == u.a, "inner"))
    add("G6/rename_unknown", "rename of an unknown column", (ValueError,), lambda: T >> pdt.rename({"nope": "x"}))
    add("G6/rename_hidden_col", "rename of a hidden column given as a Col", (E.ColumnNotFoundError, ValueError), lambda: T >> pdt.select(t.s) >> pdt.rename({t.a: "y"}))
    add("G6/summarize_hidden_group_col", "summarize after the grouping column was deselected", (ValueError,), lambda: T >> pdt.group_by(t.a) >> pdt.select(t.s) >> pdt.summarize(n=pdt.count()))
    add("G6/summarize_overwritten_group_col", "summarize after the grouping column was overwritten", (ValueError,), lambda: T >> pdt.group_by(t.a) >> pdt.mutate(a=t.a * 2, zz=t.a) >> pdt.summarize(n=pdt.count()))
    add("G6/collect_hidden_group_col", "collect after the grouping column was deselected", (ValueError,), lambda: T >> pdt.group_by(t.a) >> pdt.select(t.s) >> pdt.collect())
    add("G6/group_by_hidden_col", "group_by of a hidden column", (ValueError, E.ColumnNotFoundError), lambda: T >> pdt.select(t.s) >> pdt.group_by(t.a))
    # G7 duplicate names
    add("G7/rename_collision", "rename onto an existing name", (ValueError,), lambda: T >> pdt.rename({"a": "s"}))
    add("G7/rename_two_to_one", "two columns renamed to one name", (ValueError,), lambda: T >> pdt.rename({"a": "zz", "s": "zz"}))
    add("G7/join_suffix_collision_with_renamed_right_column", "user suffix produces an existing name from a RENAMED right column", (ValueError,), lambda: (T >> pdt.mutate(v_x=t.a)) >> pdt.join(u >> pdt.rename({"z": "v"}), t.a == u.a, "inner", suffix="_x"))
    add("G6/summarized_away_in_on", "column dropped by summarize used in a join condition", (ValueError, E.ColumnNotFoundError), lambda: T >> pdt.group_by(t.a) >> pdt.summarize(m=t.b.max()) >> pdt.join(u, t.s == u.s if "s" in u else t.b == u.a, "inner"))
    add("G6/hidden_by_union_in_on", "column of the right operand of a union used in a join condition", (ValueError, E.ColumnNotFoundError), lambda: (lambda r: ((T >> pdt.select(t.a)) >> pdt.union(r >> pdt.select(r.a))) >> pdt.join(u, r.b == u.a, "inner"))(t >> pdt.alias("r9")))
    add("G7/join_suffix_collision", "user suffix produces an existing name", (ValueError,), lambda: (T >> pdt.mutate(a_x=t.a)) >> pdt.join(u, t.a == u.a, "inner", suffix="_x"))
    # G8 grouped / same-origin / different-backend joins and unions
    add("G8/join_grouped_left", "join of a grouped table", (ValueError,), lambda: T >> pdt.group_by(t.a) >> pdt.join(u, t.a == u.a, "inner"))
    add("G8/join_grouped_right", "join with a grouped table", (ValueError,), lambda: T >> pdt.join(u >> pdt.group_by(u.a), t.a == u.a, "inner"))
    add("G8/join_same_origin", "join of a table with its own derivative", (ValueError,), lambda: T >> pdt.join(t >> pdt.mutate(k=t.a), t.a == t.a, "inner"))
    add("G8/join_union_with_its_right_operand", "join of a union with the table that was its right operand", (ValueError,), lambda: ((T >> pdt.select(t.a)) >> pdt.union(u >> pdt.select(u.a))) >> pdt.join(u, pdt.C.a == u.z, "inner"))
    add("G8/join_union_operand_on_the_right", "join of a table with a union it is an operand of", (ValueError,), lambda: u >> pdt.join((T >> pdt.select(t.a)) >> pdt.union(u >> pdt.select(u.a)) >> pdt.rename({"a": "ua"}), u.a == pdt.C.ua, "inner"))
    add("G8/join_union_with_its_left_operand", "join of a union with its left operand", (ValueError,), lambda: ((T >> pdt.select(t.a)) >> pdt.union(u >> pdt.select(u.a)) >> pdt.rename({"a": "ua"})) >> pdt.join(t, pdt.C.ua == t.a, "inner"))
    add("G8/union_grouped", "union of a grouped table", (ValueError,), lambda: (T >> pdt.select(t.a) >> pdt.group_by(t.a)) >> pdt.union(u >> pdt.select(u.a)))
    add("G8/union_different_columns", "union with different columns", (ValueError,), lambda: T >> pdt.union(u))
    add("G8/union_incompatible_types", "union of String with Int column", (TypeError,), lambda: (T >> pdt.select(t.s) >> pdt.rename({"s": "a"})) >> pdt.union(u >> pdt.select(u.a)))
    add("G8/full_join_inequality", "full join with an inequality", (ValueError,), lambda: T >> pdt.join(u, t.a < u.a, "full"))
    # G9 slice_head on grouped
    add("G9/slice_head_grouped", "slice_head on a grouped table", (ValueError,), lambda: T >> pdt.group_by(t.a) >> pdt.slice_head(1))
    add("G9/slice_head_negative_n", "slice_head with a negative n", (ValueError,), lambda: T >> pdt.slice_head(-1))
    add("G9/slice_head_negative_offset", "slice_head with a negative offset", (ValueError,), lambda: T >> pdt.slice_head(2, offset=-2))
    add("G8/join_transferred_references", "join of a table with a table that carries its column references (transfer_col_references)", (ValueError,),
        lambda: T >> pdt.join(pdt.transfer_col_references(T >> pdt.alias("mat"), T), t.a == t.a, "inner"))
    # G10 markers outside arrange
    for pos, e in positions(lambda: t.a.descending(), t, "num"):
        add(f"G10/marker_in_mutate/{pos}", "ordering marker outside arrange", (TypeError,), lambda e=e: T >> pdt.mutate(x=e()))
    add("G10/marker_in_filter", "ordering marker in filter", (TypeError,), lambda: T >> pdt.filter(t.f.nulls_last()))
    add("G10/marker_nested_in_arrange", "marker below a function inside arrange", (TypeError,), lambda: T >> pdt.arrange((t.a.descending() + 1)))
    return out


def g12_run(carve):
    """columns of parametrised types (Decimal(p, s), Enum) mixed with other types: a type error is the documented
    DataTypeError (expressions) / TypeError (union), never an internal error; well-typed uses are accepted and export (Polars)"""
    import decimal

    import polars as pl

    from .c13 import _enum_outcome

    D = decimal.Decimal
    n, bad = 0, []
    with warnings.catch_warnings():
        warnings.simplefilter("ignore")
        dec = pdt.Table(pl.DataFrame({"a": pl.Series([D("1.00"), D("2.50"), None], dtype=pl.Decimal(10, 2)), "k": [1, 2, 3], "e": pl.Series(["x", "y", None], dtype=pl.Enum(["x", "y"]))}), name="dec")
        ints = pdt.Table(pl.DataFrame({"a": [1, 2, 3], "k": [1, 2, 3], "e": pl.Series(["x", "y", None], dtype=pl.Enum(["x", "y"]))}), name="ints")
        documented = (E.DataTypeError, TypeError)
        rejected = {
            "case branches Decimal / Int64 column": lambda: dec >> pdt.mutate(z=pdt.when(dec.k > 1).then(dec.a).otherwise(dec.k)),
            "case branches Decimal / int literal": lambda: dec >> pdt.mutate(z=pdt.when(dec.k > 1).then(dec.a).otherwise(1)),
            "case branches float literal / Decimal, aggregated": lambda: dec >> pdt.summarize(z=pdt.when(dec.k > 1).then(0.5).otherwise(dec.a).max()),
            "case branches nested in filter": lambda: dec >> pdt.filter(pdt.when(dec.k > 1).then(dec.k).otherwise(dec.a).is_null()),
            "union Decimal | Int64": lambda: (dec >> pdt.select(dec.a)) >> pdt.union(ints >> pdt.select(ints.a)),
            "union Int64 | Decimal": lambda: (ints >> pdt.select(ints.a)) >> pdt.union(dec >> pdt.select(dec.a)),
            "coalesce(Decimal, String)": lambda: dec >> pdt.mutate(z=pdt.coalesce(dec.a, "x")),
            "Enum + Int": lambda: dec >> pdt.mutate(z=dec.e + 1),
        }
        for label, th in rejected.items():
            n += 1
            try:
                th()
                bad.append(f"{label}: accepted")
            except documented:
                pass
            except Exception as ex:  # noqa: BLE001
                bad.append(f"{label}: raises {type(ex).__name__} ({str(ex)[:80]}) instead of DataTypeError / TypeError")
        accepted = {
            "case with Decimal branches": lambda: dec >> pdt.mutate(z=pdt.when(dec.k > 1).then(dec.a).otherwise(None)),
            "union Decimal | Decimal": lambda: dec >> pdt.union(dec >> pdt.alias("dec2")),
            "shift / fill_null / == None / is_in(None) / coalesce(col, None) on Decimal and Enum columns": lambda: dec >> pdt.mutate(s=dec.a.shift(1, arrange=dec.k), f=dec.a.fill_null(None), q=dec.a == None, i=dec.e.is_in(None), c=pdt.coalesce(dec.e, None), es=dec.e.shift(1, arrange=dec.k)),  # noqa: E711
            "Decimal arithmetic and comparison": lambda: dec >> pdt.mutate(p=dec.a + dec.a, c=dec.a > dec.a, m=pdt.max(dec.a, dec.a)),
        }
        for label, th in accepted.items():
            n += 1
            try:
                th() >> pdt.export(pdt.Polars())
            except Exception as ex:  # noqa: BLE001
                bad.append(f"{label}: {type(ex).__name__}: {str(ex)[:100]}")
    return _enum_outcome("Decimal / Enum columns: ill-typed mixes raise the documented error when built, well-typed uses export", n, bad)


def g_rules_run(carve):
    n, bad = 0, []
    with warnings.catch_warnings():
        warnings.simplefilter("ignore")
        tabs = make_tables()
        outcomes = {}
        for be, (t, u) in tabs.items():
            other = tabs["polars" if be == "sqlite" else "sqlite"][1]
            for hname, ht in histories(t, u):
                try:
                    rs = rules(t, u, ht)
                except Exception as e:  # noqa: BLE001
                    # the construction of an offending expression itself may raise the documented error (eager type check)
                    bad.append(f"{be}/{hname}: building the rule table failed: {type(e).__name__}: {e}")
                    continue
                for rid, desc, exc, thunk in rs:
                    if any(rid.startswith(c) for c in carve):
                        continue
                    n += 1
                    key = (hname, rid)
                    try:
                        res = thunk()
                        got = "accepted"
                        try:
                            res >> pdt.export(pdt.Polars())
                            got = "accepted and exported"
                        except Exception as e2:  # noqa: BLE001
                            got = f"accepted, then export raises {type(e2).__name__}"
                    except exc as e:
                        got = "ok:" + type(e).__name__
                    except Exception as e:  # noqa: BLE001
                        got = f"raises {type(e).__name__}: {str(e)[:100]}"
                    outcomes.setdefault(key, {})[be] = got
                    if not got.startswith("ok:"):
                        bad.append(f"[{be}, {hname}] {rid} ({desc}): expected {'/'.join(c.__name__ for c in exc)} from the verb call, got: {got}")
                    # the input table stays usable
                    try:
                        ht >> pdt.ungroup() >> pdt.export(pdt.Polars())
                    except Exception as e:  # noqa: BLE001
                        bad.append(f"[{be}, {hname}] after the rejected {rid} the input table is unusable: {type(e).__name__}: {e}")
            # different backends
            n += 1
            for name, th, exc in (("G8/join_different_backends", lambda: t >> pdt.join(other, t.a == other.a, "inner"), TypeError), ("G8/union_different_backends", lambda: (t >> pdt.select(t.a)) >> pdt.union(other >> pdt.select(other.a)), TypeError)):
                try:
                    th()
                    bad.append(f"[{be}] {name}: accepted")
                except exc:
                    pass
                except Exception as e:  # noqa: BLE001
                    bad.append(f"[{be}] {name}: raises {type(e).__name__} instead of {exc.__name__}")
        for key, d in outcomes.items():
            if len(set(d.values())) > 1:
                bad.append(f"{key}: backends disagree: {d}")
    return _enum_outcome("every rejection rule x syntactic position x history x backend raises the documented exception at the verb call; identical on Polars and SQLite; input stays usable", n, bad)


# ---- G0 ---------------------------------------------------------------------------------------------------


def g0_run(carve):
    import polars as pl

    n, bad = 0, []
    t = pdt.Table(pl.DataFrame({"a": [1], "b": [2], "f": [True]}), name="t")
    cases = {
        "ColFn(args)": (t.a + t.b, lambda e: list(e.args)),
        "ColFn(args+partition_by+arrange)": (t.a.shift(1, arrange=[t.b, t.a.descending()], partition_by=t.f), lambda e: list(e.args) + [x for v in e.context_kwargs.values() for x in v]),
        "ColFn(filter)": (pdt.count(filter=t.f), lambda e: list(e.args) + [x for v in e.context_kwargs.values() for x in v]),
        "CaseExpr": (pdt.when(t.f).then(t.a).when(t.a > 1).then(t.b).otherwise(t.a + 1), lambda e: [x for c in e.cases for x in c] + [e.default_val]),
        "CaseExpr(no default)": (pdt.when(t.f).then(t.a), lambda e: [x for c in e.cases for x in c]),
        "Cast": (t.a.cast(pdt.Float64()), lambda e: [e.val]),
        "EvalAligned": (pdt.eval_aligned(t.a + t.b, with_=t), lambda e: [e.val]),
        "Col": (t.a, lambda e: []),
        "LiteralCol": (CE.LiteralCol(1), lambda e: []),
    }
    for name, (e, fields) in cases.items():
        if "EvalAligned" in name and "evalaligned" in carve:
            continue
        n += 1
        got = list(e.iter_children())
        want = fields(e)  # Order objects (arrange=) are yielded as such; they forward the traversal to their expression
        if len(got) != len(want) or any(a is not b for a, b in zip(got, want)):
            bad.append(f"{name}.iter_children yields {[type(x).__name__ for x in got]}, the ColExpr-typed fields are {[type(x).__name__ for x in want]}")
        sub = list(e.iter_subtree_postorder())
        if sub[-1] is not e or any(not any((w.order_by if isinstance(w, CE.Order) else w) is s_ for s_ in sub) for w in want):
            bad.append(f"{name}.iter_subtree_postorder misses direct children")
        # map_children visits the same fields
        import copy

        seen = []
        c = copy.copy(e)
        c.map_children(lambda x: (seen.append(x), x)[1])
        if [id(x) for x in seen] != [id(x) for x in want]:
            bad.append(f"{name}.map_children visits {len(seen)} children, iter_children {len(got)}, fields {len(want)}")
    return _enum_outcome("iter_children / map_children of every ColExpr class enumerate exactly the ColExpr-typed fields", n, bad)


# ---- G11 --------------------------------------------------------------------------------------------------


def g11_run(carve):
    n, bad = 0, []
    mods = [pdt._internal.pipe.verbs, pdt._internal.pipe.pipeable, pdt._internal.tree.col_expr, pdt._internal.pipe.table]
    allowed = {("verbs", "join"), ("verbs", "_union_impl"), ("verbs", "export"), ("verbs", "build_query"), ("verbs", "show_query"), ("table", "__repr__"), ("table", "_repr_html_"), ("table", "backend")}
    for m in mods:
        tree = ast.parse(inspect.getsource(m))
        for fn in [x for x in ast.walk(tree) if isinstance(x, ast.FunctionDef)]:
            for node in ast.walk(fn):
                if isinstance(node, ast.Attribute) and node.attr in ("backend", "backend_name"):
                    n += 1
                    key = (m.__name__.rsplit(".", 1)[1], fn.name)
                    if key not in allowed:
                        bad.append(f"{m.__name__}.{fn.name} L{node.lineno} inspects `{ast.unparse(node)}`: validation must not depend on the backend")
    return _enum_outcome("the verb / expression layer reads the backend only to compare two tables' backends (join, union) and to dispatch export / build_query / printing", n, bad)


def obligations(tier):
    fi = H.fn_info
    V = pdt._internal.pipe.verbs
    vf = [fi(getattr(V, n)) for n in ("select", "rename", "filter", "group_by", "summarize", "slice_head", "join", "_union_impl", "mutate", "arrange", "preprocess_arg")]
    ef = [fi(CE.ColFn.dtype), fi(CE.ColFn.ftype), fi(CE.CaseExpr.dtype), fi(CE.CaseExpr.ftype), fi(CE.Cast.dtype), fi(CE.wrap_literals)]
    tf = [fi(CE.ColFn.iter_children), fi(CE.CaseExpr.iter_children), fi(CE.Cast.iter_children), fi(CE.EvalAligned.iter_children), fi(CE.ColExpr.iter_subtree_postorder), fi(CE.ColFn.map_children), fi(CE.CaseExpr.map_children)]
    return [
        Obligation("C14/G0/traversal", "G0", "traversal completeness per expression class", g0_run, functions=tf, bounded="one instance per expression class / field shape", carveouts={"evalaligned": "EvalAligned"}),
        Obligation("C14/G1-G10/rules", "G1-G10", "rejection rules x positions x histories x backends", g_rules_run, functions=vf + ef, bounded="~110 rule/position instances x 4 histories x 2 backends (native execution)",
                   carveouts={}),
        Obligation("C14/G12/parametrised_types", "G12", "Decimal(p, s) / Enum columns: type errors are DataTypeError / TypeError at the verb call, well-typed uses export (Polars)", g12_run, functions=[H.fn_info(H.types_mod.lca_type), H.fn_info(H.types_mod.converts_to)],
                   bounded="8 ill-typed and 4 well-typed uses of a Decimal(10, 2) and an Enum column"),
        Obligation("C14/G11/backend_independence", "G11", "validation code does not inspect the backend", g11_run, functions=vf, bounded=None),
    ]


DESIGN_REF = "DESIGN.md §5.14"
ASSUMPTIONS = [
    "G1-G10 execute the real verbs on concrete tables (Polars and in-memory SQLite): a bounded matrix of rule x syntactic position x preceding history",
    "G13 (accepted => exports on Polars without internal error) is carried by the step obligations of C11/C09/C06/C07/C02 (any exception of compile_ast on an accepted verb is a violation there)",
    "errors raised inside Polars for well-formed plans are not decided",
]
LEVEL = "other"
EXPLANATION = "Bounded native enumeration of rejection rules x syntactic positions x histories x backends on the real verbs, a traversal-completeness contract per expression class, and a static scan that the validation layer does not read the backend."
