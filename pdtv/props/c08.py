"""C08 - SQL: a verb needing a subquery raises SubqueryError or is compiled correctly.

  S1  Polars-backed tables never raise SubqueryError (all abstract states x all verbs)
  S3  placement: for every abstract clause state s (LIMIT / aggregation grouped|ungrouped / WHERE|HAVING / ORDER BY /
      window column / pending group_by) and every verb V, executed through the real verb function, the real
      Cache.requires_subquery / check_subquery and the real SqlImpl.compile_ast:
           accepted (no SubqueryError)  =>  fits(V, s)     (spec/clause_model.py; over-refusal is allowed)
  S5  the never-needs-it fragment (element-wise mutate/filter, select, rename, arrange, one grouped summarize, a final
      slice_head) is never refused
  J6  the clause state recorded in Cache stays coupled with the SQL Query state after every accepted verb
  S6  limit/offset composition of consecutive slice_head, for all (symbolic) n, offset: the rows selected are
      rows [O+k, O+k+min(n, max(L-k,0))) of the underlying order                                     [proof]
  S4  alias repairs: with an alias() directly below, a verb that needs a subquery is accepted (check_subquery
      rewrites to a SubqueryMarker) and the state after the marker is clean
  S7/S8  the SubqueryMarker branch selects every needed column once under distinct names; no assert of compile_ast fails
"""

from __future__ import annotations

import itertools

import z3

from .. import core, plmodel, sqlmodel
from .. import harness as H
from .. import tablestep as TS
from ..oblig import VC, Obligation, Outcome
from ..spec import clause_model as CM
from ..symname import SymName
from . import c11
from .c11 import col_of

pdt = H.pdt
Ftype = H.Ftype
verbs_mod = pdt._internal.pipe.verbs
SubqueryError = pdt.errors.SubqueryError

STATES = [CM.S(limit=l, agg=a, filtered=f, ordered=o, k1=k, grouped_now=g, c1_hidden=h)
          for l in (False, True) for a in ("none", "grouped", "ungrouped") for f in (False, True) for o in (False, True)
          for k in (("ew", "win") if a == "none" else ("agg",)) for g in ((False, True) if a in ("none", "grouped") else (False,))
          for h in ((False, True) if (k == "win" and not f and not o) else (False,))]


def build_pre(s: CM.S, backend_cls, hid_first=False):
    """pre-state table realising the abstract state s: columns c0 (plain, group key), c1 (kind k1), [c2 hidden]"""
    if s.agg == "ungrouped":
        cols, kinds = ["vis"], [s.k1]
        c1 = 0
        c0 = None
    elif s.agg == "grouped":
        # grouped_now: the summarized table has been regrouped over its grouping column (group_by(g) >> summarize >> group_by(g))
        cols, kinds = ["grp" if s.grouped_now else "vis", "vis"], ["ew", s.k1]
        c0, c1 = 0, 1
    else:
        cols, kinds = ["grp" if s.grouped_now else "vis", "hid" if s.c1_hidden else "vis", "hid"], ["ew", s.k1, "ew"]
        c0, c1 = 0, 1
        if hid_first:
            # the hidden column was created BEFORE the visible ones (e.g. it was overwritten by a mutate): it comes first in the backend state
            cols, kinds = [cols[2], cols[0], cols[1]], [kinds[2], kinds[0], kinds[1]]
            c0, c1 = 1, 2
    ft = {"ew": Ftype.ELEMENT_WISE, "win": Ftype.WINDOW, "agg": Ftype.AGGREGATE}
    pre = TS.Pre(TS.Skeleton(cols), "t", backend_cls=backend_cls, ftypes=[ft[k] for k in kinds], limit=5 if s.limit else TS.no_limit(), is_filtered=s.filtered)
    if s.agg == "grouped":
        pre.group_by = (pre.uuids[0],)
    pre.c0, pre.c1 = c0, c1
    pre.hid = (0 if hid_first else 2) if s.agg == "none" else None
    return pre


def sql_kw(pre, s: CM.S, L=None, O=None):
    kw = {}
    base = col_of(pre, pre.c0 if pre.c0 is not None else pre.c1)
    if s.filtered:
        kw["having" if s.agg == "grouped" else "where"] = [base > 0]
    if s.ordered:
        kw["order_by"] = [H.col_expr_mod.Order(base, False, None)]
    if s.limit:
        kw["limit"] = core.SymInt(L) if L is not None else 7
        kw["offset"] = core.SymInt(O) if O is not None else 2
    if s.agg == "grouped":
        kw["group_by"] = [pre.uuids[0]]
    return kw


def verb_cases(pre, s: CM.S):
    """(label, verb, fits-kwargs, in_fragment(S5), fn(pres, tables))"""
    c0, c1 = pre.c0, pre.c1
    e = c0 if c0 is not None else c1
    out = []
    class _K:
        """column i of the pre-state the step is applied to (P[0]), not of the template pre"""

        def __init__(self):
            self.P = None

        def __call__(self, i):
            return col_of(self.P, i)

    K = _K()

    def bind(f):
        def g(P, T):
            K.P = P[0]
            return f(P, T)

        return g

    out.append(("filter(c0>0)", "filter", dict(refs_k1=c0 is None), True, lambda P, T: T[0] >> pdt.filter(K(e) > 0)))
    if c0 is not None:
        out.append(("filter(c1>0)", "filter", dict(refs_k1=True), s.k1 == "ew" or s.agg == "grouped", lambda P, T: T[0] >> pdt.filter(K(c1) > 0)))
    out.append(("mutate(k=c0+1)", "mutate", dict(fn="ew", refs_k1=c0 is None), True, lambda P, T: T[0] >> pdt.mutate(k=K(e) + 1)))
    if c0 is not None:
        out.append(("mutate(k=c1+1)", "mutate", dict(fn="ew", refs_k1=True), s.k1 == "ew" or s.agg == "grouped", lambda P, T: T[0] >> pdt.mutate(k=K(c1) + 1)))
    out.append(("mutate(k=c0.sum())", "mutate", dict(fn="aggwin", refs_k1=c0 is None), False, lambda P, T: T[0] >> pdt.mutate(k=K(e).sum())))
    out.append(("mutate(k=row_number(arrange=c0))", "mutate", dict(fn="window", refs_k1=c0 is None), False, lambda P, T: T[0] >> pdt.mutate(k=pdt.row_number(arrange=K(e)))))
    if c0 is not None:
        out.append(("mutate(k=c1.max())", "mutate", dict(fn="aggwin", refs_k1=True), False, lambda P, T: T[0] >> pdt.mutate(k=K(c1).max())))
        out.append(("mutate(k=c0.shift(1,arrange=c1))", "mutate", dict(fn="window", refs_k1=True), False, lambda P, T: T[0] >> pdt.mutate(k=K(c0).shift(1, arrange=K(c1)))))
    out.append(("summarize(k=c0.sum())", "summarize", dict(refs_k1=c0 is None), s.agg == "none" and s.grouped_now, lambda P, T: T[0] >> pdt.summarize(k=K(e).sum())))
    if c0 is not None:
        out.append(("summarize(k=c1.max())", "summarize", dict(refs_k1=True), s.agg == "none" and s.grouped_now and s.k1 == "ew", lambda P, T: T[0] >> pdt.summarize(k=K(c1).max())))
    out.append(("summarize(k=count())", "summarize", dict(refs_k1=False), s.agg == "none" and s.grouped_now, lambda P, T: T[0] >> pdt.summarize(k=pdt.count())))
    out.append(("arrange(c0)", "arrange", {}, True, lambda P, T: T[0] >> pdt.arrange(K(e))))
    if not s.grouped_now:
        out.append(("slice_head(n,offset=k)", "slice_head", {}, True, lambda P, T: T[0] >> pdt.slice_head(3, offset=1)))
        out.append(("slice_head(0)", "slice_head", {}, True, lambda P, T: T[0] >> pdt.slice_head(0)))
    out.append(("group_by(c0)", "group_by", {}, s.agg == "none", lambda P, T: T[0] >> pdt.group_by(K(e))))
    if not s.c1_hidden:
        out.append(("select(c1)", "select", {}, True, lambda P, T: T[0] >> pdt.select(K(c1))))
        out.append(("rename", "rename", {}, True, lambda P, T: T[0] >> pdt.rename({P[0].phys[c1]: P[0].nn("r0")})))
    else:
        out.append(("select(c0)", "select", {}, True, lambda P, T: T[0] >> pdt.select(K(c0))))
    out.append(("ungroup", "ungroup", {}, True, lambda P, T: T[0] >> pdt.ungroup()))
    if s.agg == "none" and not s.c1_hidden:
        # verbs over the HIDDEN column c2 (referable through an earlier table object; its name may equal a visible name)
        hid = pre.hid
        out.append(("filter(hid>0)", "filter", dict(refs_k1=False), True, lambda P, T: T[0] >> pdt.filter(K(hid) > 0)))
        out.append(("mutate(k=hid+c0)", "mutate", dict(fn="ew", refs_k1=False), True, lambda P, T: T[0] >> pdt.mutate(k=K(hid) + K(c0))))
    if not s.grouped_now and not s.c1_hidden:
        # the table in state s as the left / right operand of a join with a plain second table (P[1])
        for how in ("inner", "left", "full"):
            out.append((f"join({how},as_left)", "join", dict(side="left", how=how), False, lambda P, T, how=how: T[0] >> pdt.join(T[1], K(e) == col_of(P[1], 0), how)))
            out.append((f"join({how},as_right)", "join", dict(side="right", how=how), False, lambda P, T, how=how: T[1] >> pdt.join(T[0], col_of(P[1], 0) == K(e), how)))
    return [(a, b, c_, d, bind(f)) for a, b, c_, d, f in out]


def in_fragment_state(s: CM.S):
    """states reachable by element-wise mutate/filter, select, rename, arrange, at most one grouped summarize, before a final slice_head"""
    return not s.limit and s.k1 in ("ew", "agg") and s.agg in ("none", "grouped")


def classify_sql(e):
    if sqlmodel.contains_kind(e, ("over",)):
        return Ftype.WINDOW
    AGG = {"SUM", "AVG", "COUNT", "MIN", "MAX", "STRING_AGG"}

    def has_agg(x):
        if not isinstance(x, sqlmodel.SX):
            return isinstance(x, (tuple, list)) and any(has_agg(y) for y in x)
        if x.kind == "func" and x.args[0] in AGG and (len(x.args) <= 2):
            return True
        return any(has_agg(a) for a in x.args)

    return Ftype.AGGREGATE if has_agg(e) else Ftype.ELEMENT_WISE


def j6(cache, state):
    table, q, sqa_expr = state
    obs = [
        ("J6: Cache records a limit  <=>  the SELECT has a LIMIT", z3.BoolVal((cache.limit != TS.no_limit()) == (q.limit is not None))),
        ("J6: Cache.group_by non-empty  <=>  the SELECT has a GROUP BY", z3.BoolVal(bool(cache.group_by) == bool(q.group_by))),
        ("J6: Cache.is_filtered  <=>  the SELECT has a WHERE / HAVING", z3.BoolVal(bool(cache.is_filtered) == bool(q.where or q.having))),
    ]
    for u, col in cache.cols.items():
        if u in sqa_expr:
            want = classify_sql(sqa_expr[u])
            got = col.ftype()
            obs.append((f"J6: function type recorded for column {col.name!r} ({got}) matches its SQL expression ({want})", z3.BoolVal(got == want)))
    return obs


def make_s3(s: CM.S, label, verb, fkw, frag, fn):
    def run(carve):
        plmodel.reset_state()
        pre = build_pre(s, H.sqlite_backend.SqliteImpl)
        ok, why = CM.fits(verb, s, **fkw)
        kw = {"t": sql_kw(pre, s)}

        def twice(P, T):
            """S9: the verdict of a verb does not depend on what was derived from the same table before"""
            try:
                fn(P, T)
                e1 = None
            except Exception as e:  # noqa: BLE001
                e1 = e
            try:
                second = fn(P, T)
            except Exception as e2:  # noqa: BLE001
                if e1 is None or type(e1) is not type(e2):
                    raise AssertionError(f"S9: the second application of the verb to the same table raises {type(e2).__name__}, the first {'was accepted' if e1 is None else 'raised ' + type(e1).__name__} (a derivation changed its parent table)") from e2
                raise
            if e1 is not None:
                raise AssertionError(f"S9: the first application raised {type(e1).__name__}, the second was accepted")
            return second

        pres = [pre] + ([TS.Pre(TS.Skeleton(("vis",)), "r", backend_cls=H.sqlite_backend.SqliteImpl)] if verb == "join" else [])
        paths, wit = TS.explore_step(pres, twice, "sql", sql_state_kw=kw)
        vc = VC(f"state {s}: {label}: accepted => fits ({'fits' if ok else 'does NOT fit'}: {why}); J6 preserved" + ("; S5: never refused" if frag and in_fragment_state(s) else ""))
        for p in paths:
            vc.paths += 1
            if p.kind == "exc":
                vc.require(p.pc, z3.BoolVal(False), f"S8: an accepted verb makes SqlImpl.compile_ast fail: {type(p.value).__name__}: {str(p.value)[:200]}", wit)
                continue
            if p.value[0] == "rejected":
                e = p.value[1]
                if isinstance(e, SubqueryError):
                    if frag and in_fragment_state(s) and "fragment" not in carve:
                        vc.require(p.pc, z3.BoolVal(False), f"S5: a verb of the never-needs-a-subquery fragment was refused: {str(e).splitlines()[1] if len(str(e).splitlines()) > 1 else e}", wit)
                    else:
                        vc.queries += 1
                elif verb in ("rename", "join") and isinstance(e, ValueError):  # name collisions of the symbolic names (C06/C14)
                    vc.queries += 1
                else:
                    vc.require(p.pc, z3.BoolVal(False), f"the verb was rejected for another reason than a subquery: {type(e).__name__}: {str(e)[:160]}", wit)
                continue
            _, new, state, aux, tables, _pr = p.value
            if "placement" not in carve:
                vc.require(p.pc, z3.BoolVal(ok), f"S3: the verb was accepted without a subquery although it does not fit: {why}", wit)
            if ok or "placement" in carve:
                for lab, cond in j6(new._cache, state):
                    if "j6_aggregated" in carve and ("GROUP BY" in lab):
                        continue
                    if "j6_limit0" in carve and "LIMIT" in lab:
                        continue
                    vc.require(p.pc, cond, lab, wit)
        return vc.outcome()

    return run


def make_s1(s: CM.S, label, fn):
    def run(carve):
        plmodel.reset_state()
        pre = build_pre(s, H.polars_backend.PolarsImpl)
        paths, wit = TS.explore_step([pre], fn, "polars")
        vc = VC(f"state {s}: {label} on a Polars-backed table never raises SubqueryError")
        for p in paths:
            vc.paths += 1
            if p.kind == "exc":
                vc.queries += 1
                continue
            if p.value[0] == "rejected":
                vc.require(p.pc, z3.BoolVal(not isinstance(p.value[1], SubqueryError)), "S1: SubqueryError on a Polars-backed table", wit)
            else:
                vc.queries += 1
        return vc.outcome()

    return run


# ---- S6 ----------------------------------------------------------------------------------------------


def make_s6(backend):
    def run(carve):
        plmodel.reset_state()
        L, O, n, k = z3.Ints("L O n k")
        pre_facts = [L >= 0, O >= 0, n >= 0, k >= 0]
        if "offset_le_limit" in carve:
            pre_facts.append(k <= L)
        s = CM.S(limit=True, agg="none", filtered=False, ordered=False, k1="ew", grouped_now=False)
        pre = build_pre(s, H.sqlite_backend.SqliteImpl if backend == "sql" else H.polars_backend.PolarsImpl)

        def fn(P, T):
            new = TS.Table.__new__(TS.Table)
            new._ast = TS.verbs_tree.SliceHead(T[0]._ast, core.SymInt(n), core.SymInt(k))
            new._cache = T[0]._cache
            return new

        # rows of the underlying order selected by slice(O, L) then slice(k, n):  [O + k, O + k + min(n, max(L - k, 0)))
        want_off = O + k
        want_len = z3.If(L - k < 0, 0, z3.If(n < L - k, n, L - k))
        vc = VC(f"{backend}: slice_head(L, offset=O) >> slice_head(n, offset=k) selects rows [O+k, O+k+min(n, max(L-k, 0))) for all L, O, n, k >= 0")
        wit = {"L": L, "O": O, "n": n, "k": k}
        if backend == "sql":
            kw = {"t": sql_kw(pre, s, L, O)}
            paths, _ = TS.explore_step([pre], fn, "sql", sql_state_kw=kw, extra_facts=pre_facts)
            for p in paths:
                vc.paths += 1
                if p.kind == "exc" or p.value[0] != "ok":
                    vc.require(p.pc, z3.BoolVal(False), f"unexpected {p.value!r}"[:200], wit)
                    continue
                q = p.value[2][1]
                lim, off = core.term(q.limit), core.term(q.offset)
                vc.require(p.pc, z3.And(lim == want_len, z3.Or(want_len == 0, off == want_off)), "composed LIMIT/OFFSET select other rows", dict(wit, got_limit=lim, got_offset=off, want_limit=want_len, want_offset=want_off))
        else:
            paths, _ = TS.explore_step([pre], fn, "polars", extra_facts=pre_facts)
            for p in paths:
                vc.paths += 1
                if p.kind == "exc" or p.value[0] != "ok":
                    vc.require(p.pc, z3.BoolVal(False), f"unexpected {p.value!r}"[:200], wit)
                    continue
                df = p.value[2][0]
                last = df.hist[-1]
                vc.require(p.pc, z3.BoolVal(last[0] == "slice" and last[1] == ("sym", "k") and last[2] == ("sym", "n")), f"Polars: expected df.slice(offset=k, length=n) on the current frame, got {last}", wit)
        return vc.outcome(axioms=["polars: df.slice(k, n) keeps rows [k, k+n) of the current order (so slices compose by definition)", "SQL: LIMIT l OFFSET o keeps rows [o, o+l) of the ordered result"])

    return run


def replay_s6(model):
    import polars as pl
    import sqlalchemy as sqa

    def iv(k, d):
        v = model.get(k, d)
        return max(0, min(int(v), 30)) if isinstance(v, int) else d

    L, O, n, k = iv("L", 3), iv("O", 0), iv("n", 2), iv("k", 1)
    df = pl.DataFrame({"h": list(range(40))})
    eng = sqa.create_engine("sqlite://")
    df.write_database("t", eng)
    res = {}
    for be, t in (("polars", pdt.Table(df, name="t")), ("sqlite", pdt.Table("t", pdt.SqlAlchemy(eng)))):
        try:
            res[be] = (t >> pdt.arrange(t.h) >> pdt.slice_head(L, offset=O) >> pdt.slice_head(n, offset=k) >> pdt.export(pdt.Polars()))["h"].to_list()
        except Exception as e:  # noqa: BLE001
            res[be] = f"{type(e).__name__}: {str(e)[:100]}"
    want = list(range(40))[O:O + L][k:k + n]
    return {"reproduced": res["sqlite"] != want or res["polars"] != want, "text": f"arrange(h) >> slice_head({L}, offset={O}) >> slice_head({n}, offset={k}) on rows 0..39: expected {want}, Polars {res['polars']}, SQLite {res['sqlite']}"}


# ---- S4 ------------------------------------------------------------------------------------------------


def make_s4(s: CM.S, label, verb, fkw, fn, keep=False):
    def run(carve):
        plmodel.reset_state()
        pre = build_pre(s, H.sqlite_backend.SqliteImpl, hid_first=keep and s.agg == "none")

        def fn2(P, T):
            aliased = T[0] >> (pdt.alias("sub", keep_col_refs=True) if keep else pdt.alias("sub"))
            return fn(P, [aliased] + list(T[1:]))

        kw = {"t": sql_kw(pre, s)}
        pres = [pre] + ([TS.Pre(TS.Skeleton(("vis",)), "r", backend_cls=H.sqlite_backend.SqliteImpl)] if verb == "join" else [])
        paths, wit = TS.explore_step(pres, fn2, "sql", sql_state_kw=kw)
        vc = VC(f"state {s}: alias() >> {label} is accepted (never SubqueryError) and compiles through a subquery without internal error")
        for p in paths:
            vc.paths += 1
            if p.kind == "exc":
                vc.require(p.pc, z3.BoolVal(False), f"S7/S8: compiling through the subquery fails: {type(p.value).__name__}: {str(p.value)[:200]}", wit)
                continue
            if p.value[0] == "rejected":
                vc.require(p.pc, z3.BoolVal(not isinstance(p.value[1], SubqueryError)), f"S4: SubqueryError although an alias() precedes the verb: {str(p.value[1])[:150]}", wit)
                continue
            _, new, state, aux, tables, _pr = p.value
            names = [c.name for c in aux.selected_columns]
            vc.require(p.pc, TS.seq_eq(names, list(new._cache.name_to_uuid.keys())), "S7: the outer SELECT does not list columns() in order", wit)
            for lab, cond in j6(new._cache, state):
                vc.require(p.pc, cond, "after the subquery: " + lab, wit)
        return vc.outcome()

    return run


class RealPre:
    """a real pipeline prefix that reaches the abstract state s (native replay on Polars and SQLite)"""

    def __init__(self, s: CM.S, backend, with_alias=False):
        import polars as pl
        import sqlalchemy as sqa

        df = pl.DataFrame({"a": [3, 1, 0, 2, 2, 5, None], "b": [10, 20, 30, None, 40, 50, 60], "h": [1, 2, 3, 4, 5, 6, 7]})
        if backend == "polars":
            t = pdt.Table(df, name="t")
        else:
            eng = sqa.create_engine("sqlite://")
            df.write_database("t", eng)
            t = pdt.Table("t", pdt.SqlAlchemy(eng))
        base = t
        self.base = t
        if s.filtered and s.agg != "grouped":
            t = t >> pdt.filter(base.a > 1)
        if s.agg == "grouped":
            t = t >> pdt.group_by(base.a) >> pdt.summarize(c1=base.b.sum())
            if s.filtered:
                t = t >> pdt.filter(base.a > 1)
            self.cols = [base.a, t.c1]
            self.c0, self.c1 = 0, 1
        elif s.agg == "ungrouped":
            t = t >> pdt.summarize(c1=base.b.sum())
            self.cols = [t.c1]
            self.c0, self.c1 = None, 0
        else:
            if s.k1 == "win":
                t = t >> pdt.mutate(c1=base.b.shift(1, arrange=base.h))
                c1col = t.c1
                t = t >> (pdt.select(base.a) if s.c1_hidden else pdt.select(base.a, pdt.C.c1))
                self.cols = [base.a, c1col, base.h]
            else:
                t = t >> pdt.select(base.a, base.b)
                self.cols = [base.a, base.b, base.h]
            self.c0, self.c1 = 0, 1
        if s.ordered:
            t = t >> pdt.arrange(self.cols[0])
        if s.limit:
            if not s.ordered:
                t = t >> pdt.arrange(self.cols[0].nulls_last(), self.cols[-1] if s.agg == "none" else self.cols[0])
            t = t >> pdt.slice_head(4, offset=1)
        if s.grouped_now:
            t = t >> pdt.group_by(self.cols[0])
        if with_alias:
            t = t >> pdt.alias("sub")
        self.tbl = t
        self.phys = [c.name for c in self.cols]
        self.uuids = [c._uuid for c in self.cols]
        self.dtypes = [c._dtype for c in self.cols]
        self.ftypes = [c._ftype for c in self.cols]
        self.node = t._ast

    def nn(self, k):
        return k


class RealRight:
    """a plain second table on the same engine (right / left operand of the join cases)"""

    def __init__(self, rp):
        import polars as pl

        df = pl.DataFrame({"kk": [1, 2, 2, 5, 9, None], "w": [100, 200, 300, 400, 500, 600]})
        be = rp.base._cache.backend
        if be.backend_name == "polars":
            t = pdt.Table(df, name="r")
        else:
            eng = pdt._internal.backend.sql.get_engine(rp.base._ast)
            df.write_database("r", eng)
            t = pdt.Table("r", pdt.SqlAlchemy(eng))
        self.tbl = t
        self.cols = [t.kk, t.w]
        self.phys = ["kk", "w"]
        self.uuids = [c._uuid for c in self.cols]
        self.dtypes = [c._dtype for c in self.cols]
        self.ftypes = [c._ftype for c in self.cols]
        self.node = t._ast


def make_replayer(s: CM.S, label, fn, with_alias=False):
    def replay(model):
        import warnings

        res = {}
        for be in ("polars", "sqlite"):
            try:
                with warnings.catch_warnings():
                    warnings.simplefilter("ignore")
                    rp = RealPre(s, be, with_alias)
                    rp2 = RealRight(rp)
                    res_tbl = fn([rp, rp2], [rp.tbl, rp2.tbl])
                    if s.c1_hidden and not label.startswith(("summarize", "select", "group_by")):
                        res_tbl = res_tbl >> pdt.mutate(zz=rp.cols[1])  # re-expose the hidden window column (legal: referenced through the earlier table)
                    if label == "slice_head(0)":
                        res_tbl = res_tbl >> pdt.summarize(n=pdt.count())  # the broken coupling shows in the next verb
                    out = res_tbl >> pdt.ungroup() >> pdt.export(pdt.Polars())
                res[be] = sorted(map(repr, out.rows())) if not (s.ordered and "slice" not in label) else list(map(repr, out.rows()))
            except SubqueryError as e:
                res[be] = "SubqueryError"
            except Exception as e:  # noqa: BLE001
                res[be] = f"raises {type(e).__name__}: {str(e)[:160]}"
        diff = res["polars"] != res["sqlite"] and res["sqlite"] != "SubqueryError"
        text = f"state {s}, then {label}: Polars -> {str(res['polars'])[:300]} ; SQLite -> {str(res['sqlite'])[:300]}"
        if not diff:
            # S9: apply the verb twice to the same SQL table
            try:
                with warnings.catch_warnings():
                    warnings.simplefilter("ignore")
                    rp = RealPre(s, "sqlite", with_alias)
                    rp2 = RealRight(rp)
                    v = []
                    for _ in range(2):
                        try:
                            fn([rp, rp2], [rp.tbl, rp2.tbl])
                            v.append("accepted")
                        except Exception as e:  # noqa: BLE001
                            v.append(type(e).__name__)
                if v[0] != v[1]:
                    diff = True
                    text += f" ; applying the verb twice to the same table: first {v[0]}, second {v[1]}"
            except Exception:  # noqa: BLE001
                pass
        return {"reproduced": bool(diff), "text": text}

    return replay


def j6_base_run(carve):
    """base case of the coupling J6: a source table starts with an empty clause state in Cache and in the SQL Query"""
    import polars as pl
    import sqlalchemy as sqa

    from .c13 import _enum_outcome

    n, bad = 0, []
    df = pl.DataFrame({"a": [1, 2], "b": [3.5, None]})
    eng = sqa.create_engine("sqlite://")
    df.write_database("t", eng)
    for be, t in (("polars", pdt.Table(df, name="t")), ("sqlite", pdt.Table("t", pdt.SqlAlchemy(eng)))):
        for via, c in (("Table()", t._cache), ("Cache.from_ast", TS.Cache.from_ast(t._ast))):
            n += 1
            if c.limit not in (0, None) or c.group_by or c.is_filtered or c.partition_by:
                bad.append(f"[{be}] {via}: a source table starts with limit={c.limit}, group_by={c.group_by}, is_filtered={c.is_filtered}, partition_by={c.partition_by}")
            if any(col.ftype() != Ftype.ELEMENT_WISE for col in c.cols.values()):
                bad.append(f"[{be}] {via}: a source column is not element-wise")
        if be == "sqlite":
            n += 1
            _, q, _ = H.sqlite_backend.SqliteImpl.compile_ast(t._ast, {})
            if q.where or q.having or q.group_by or q.order_by or q.limit is not None or q.partition_by:
                bad.append(f"[sqlite] the query of a source table is not empty: {q}")
    return _enum_outcome("a source table starts with an empty clause state (Cache and SQL Query): base case of J6", n, bad)


def make_s4b(prefix_i):
    """alias() somewhere BELOW (not directly below) the verb that needs a subquery: prefix >> alias >> V1 >> V2, native Polars vs SQLite"""
    def run(carve):
        from .. import pipelines as P
        from .c13 import _enum_outcome

        C_ = pdt.C
        B = {st.label: st for st in P.steps()}
        mk = P.Step
        prefixes = [
            [B["mutate(w=row_number)"]],
            [B["arrange(a.nl,h)"], B["slice_head(3,1)"]],
            [B["group_by(a)"], B["summarize(n,m)"]],
            [B["mutate(sm=a.sum)"]],
            [B["filter(a>1)"], B["mutate(w=row_number)"]],
            [B["summarize(sa)"]],
        ]
        v = [B[l] for l in ("filter(a>1)", "mutate(x=a+h)", "mutate(sm=a.sum)", "mutate(w=row_number)", "arrange(h.desc)", "group_by(a)", "select(h,a)", "left_join(u)")] + [
            mk("filter(w<=3)", lambda x, c: x >> pdt.filter(C_.w <= 3), "keep", ("w",), False, False),
            mk("filter(sm>5)", lambda x, c: x >> pdt.filter(C_.sm > 5), "keep", ("sm",), False, False),
            mk("mutate(tot=h.sum)", lambda x, c: x >> pdt.mutate(tot=C_.h.sum()), "keep", ("h",), False, False),
            mk("mutate(tot=m.sum)", lambda x, c: x >> pdt.mutate(tot=C_.m.sum()), "keep", ("m",), False, False),
            mk("filter(n>1)", lambda x, c: x >> pdt.filter(C_.n > 1), "keep", ("n",), False, False),
            mk("summarize(k=count)", lambda x, c: x >> pdt.summarize(k=pdt.count()), "destroy", (), False, False),
            mk("summarize(k=sa.max)", lambda x, c: x >> pdt.summarize(k=C_.sa.max()), "destroy", ("sa",), False, False),
        ]
        n, bad, refused = 0, [], 0
        pre = prefixes[prefix_i]
        for v1 in v:
            for v2 in v:
                pipe = pre + [B["alias"], v1, v2]
                r = P.compare(pipe, "mixed")
                if r is None:
                    continue
                n += 1
                if r[0] == "mismatch":
                    bad.append(r[1])
                elif r[0] == "refused":
                    refused += 1
        out = _enum_outcome(f"{' >> '.join(s_.label for s_ in pre)} >> alias >> V1 >> V2: whenever SQL accepts the pipeline its result equals the Polars result (the alias is not directly below the verb that needs the subquery)", n, bad)
        out.notes = [f"refused by SQL: {refused}"]
        return out

    return run


def obligations(tier):
    fi = H.fn_info
    fns = [fi(TS.Cache.requires_subquery), fi(TS.Cache.update), fi(pdt._internal.pipe.pipeable.check_subquery), fi(pdt._internal.pipe.pipeable.modify_ast), fi(H.sql_backend.SqlImpl.compile_ast), fi(H.sql_backend.SqlImpl.compile_query)]
    obs = []
    for s in STATES:
        pre = build_pre(s, H.sqlite_backend.SqliteImpl)
        for label, verb, fkw, frag, fn in verb_cases(pre, s):
            tag = f"{'L' if s.limit else '-'}{s.agg[0]}{'F' if s.filtered else '-'}{'O' if s.ordered else '-'}{s.k1}{'G' if s.grouped_now else '-'}{'h' if s.c1_hidden else ''}"
            obs.append(Obligation(f"C08/S3/{tag}/{label}", "S3+S5+J6", f"{label} in state {s}", make_s3(s, label, verb, fkw, frag, fn), functions=fns, replayer=make_replayer(s, label, fn),
                                  bounded="abstract clause states enumerated on a table of width <= 3 (names / limit values symbolic)",
                                  carveouts={"placement": "known placement gap", "fragment": "", "j6_aggregated": "ungrouped aggregation not recorded", "j6_limit0": "limit 0 sentinel"}))
            if tier == "thorough" or (not s.filtered and not s.ordered):
                obs.append(Obligation(f"C08/S1/{tag}/{label}", "S1", f"{label} on Polars in state {s}", make_s1(s, label, fn), functions=[fi(TS.Cache.requires_subquery)], bounded="same state enumeration"))
            ok, _ = CM.fits(verb, s, **fkw)
            if not ok and (tier == "thorough" or (not s.filtered and not s.ordered)):
                obs.append(Obligation(f"C08/S4/{tag}/{label}", "S4+S7", f"alias() >> {label} in state {s}", make_s4(s, label, verb, fkw, fn), functions=fns, bounded="same state enumeration", replayer=make_replayer(s, label, fn, with_alias=True),
                                      carveouts={"whole": ""}))

    for i in range(6):
        obs.append(Obligation(f"C08/S4b/prefix{i}", "S4", "alias() several verbs below the verb that needs a subquery: accepted pipelines equal Polars (native)", make_s4b(i), functions=fns,
                              bounded="one state-producing prefix >> alias >> V1 >> V2 for 15 x 15 verbs on one input table; native execution on Polars and SQLite"))
    from . import c06

    from . import c16

    obs.append(Obligation("C08/S4d/verbs_across_subquery", "S4", "verbs after alias() (renames, constant columns of an aliased join operand, grouping / ordering on them, window columns, name collisions): same table as on Polars (= C16/X9)",
                          c16._conc("pipelines with alias() give the same table on SQLite as on Polars", c16.x9_check), functions=fns, bounded="15 pipelines x 2 backends on one 6-row table"))
    obs.append(Obligation("C08/S4c/outer_join_matrix", "S4", "joins whose operand needs a subquery (computed / constant columns on the null-extended side, also below alias() and below a nested join): refused, or accepted with the expected rows (native, Python oracle)",
                          c06.n5_core_run, functions=fns, bounded="the C06/N5 join matrix: 15 predicate shapes x 3 join kinds x 13 operand variants x 2 backends"))
    obs.append(Obligation("C08/J6/base", "J6", "base case: empty clause state of a source table", j6_base_run, functions=[fi(TS.Cache.from_ast), fi(H.sql_backend.SqlImpl.compile_ast)], bounded="one source table per backend (the constructor takes no other input that influences the clause state)"))
    for s in STATES:
        if s.c1_hidden:
            continue
        pre = build_pre(s, H.sqlite_backend.SqliteImpl, hid_first=s.agg == "none")
        tag = f"{'L' if s.limit else '-'}{s.agg[0]}{'F' if s.filtered else '-'}{'O' if s.ordered else '-'}{s.k1}{'G' if s.grouped_now else '-'}"
        for label, verb, fkw, frag, fn in verb_cases(pre, s):
            ok, _ = CM.fits(verb, s, **fkw)
            if not ok and verb != "join" and (tier == "thorough" or not s.ordered):
                obs.append(Obligation(f"C08/S4k/{tag}/{label}", "S4+S7", f"alias(keep_col_refs=True) >> {label} in state {s} (hidden column created first)", make_s4(s, label, verb, fkw, fn, keep=True), functions=fns, bounded="same state enumeration", carveouts={"whole": ""}))
    obs.append(Obligation("C08/S6/sql", "S6", "LIMIT/OFFSET composition of consecutive slice_head (symbolic n, offsets)", make_s6("sql"), functions=[fi(H.sql_backend.SqlImpl.compile_ast)], carveouts={"offset_le_limit": "second offset within the first slice"}, replayer=replay_s6))
    obs.append(Obligation("C08/S6/polars", "S6", "Polars applies slice(offset, n) to the current frame", make_s6("polars"), functions=[fi(H.polars_backend.compile_ast)]))
    return obs


DESIGN_REF = "DESIGN.md §5.8"
ASSUMPTIONS = [
    "the placement oracle `fits` (pdtv/spec/clause_model.py) is derived from the standard SQL evaluation order; SQLite / PostgreSQL / SQL Server are assumed to follow it",
    "abstract clause states are enumerated on tables of width <= 3; values of LIMIT / OFFSET / n are symbolic integers",
    "over-refusal (SubqueryError although the verb would fit) is permitted by the property, except inside the documented never-needs-it fragment (S5)",
]
