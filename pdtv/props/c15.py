"""C15 - equivalent pipelines give identical results.

Each documented equivalence is instantiated after every context pipeline of pdtv.pipelines.contexts() on Polars and
on SQLite, on four input tables, and both sides are executed natively and compared (names and order; rows as a
sequence when an arrange on the unique key fixes the order, as a multiset otherwise).  The unbounded parts live
elsewhere: map == when/then chain and is_in == chain of equalities are cross-definition obligations of C03 (E3);
the node built by drop / select and the metadata of rename are C02/C09/C11 step obligations; the combined LIMIT/OFFSET
of a slice_head chain is C08 (S6).  Two extra structural obligations are decided here for all inputs:

  Q2s  group_by(g) >> mutate(f(x)) >> ungroup() and mutate(f(x, partition_by=g)) give preprocess_arg the same
       expression tree (so every backend compiles the same thing)
  Q3s  drop(c) builds the same Select node as select(complement)
"""

from __future__ import annotations

import warnings

from .. import harness as H
from .. import pipelines as P
from ..oblig import Obligation
from .c13 import _enum_outcome

pdt = H.pdt
C = pdt.C


def equivalences():
    """(id, needs, ordered-insensitive?, lhs(x, ctx), rhs(x, ctx), up_to_column_order)"""
    E = []

    def add(eid, needs, lhs, rhs, colorder=False, uniq=False):
        E.append((eid, needs, lhs, rhs, colorder, uniq))

    add("mutate_split", ("a", "h"), lambda x, c: x >> pdt.mutate(p=x.a + 1, q=x.h * 2), lambda x, c: x >> pdt.mutate(p=x.a + 1) >> pdt.mutate(q=x.h * 2))
    add("mutate_split_window", ("a", "h"), lambda x, c: x >> pdt.mutate(p=x.a.sum(), q=pdt.row_number(arrange=x.h)), lambda x, c: x >> pdt.mutate(p=x.a.sum()) >> pdt.mutate(q=pdt.row_number(arrange=x.h)), uniq=True)
    add("mutate_split_overwrite", ("a", "h"), lambda x, c: x >> pdt.mutate(a=x.a + 1, q=x.h * 2), lambda x, c: x >> pdt.mutate(a=x.a + 1) >> pdt.mutate(q=x.h * 2))
    add("filter_split", ("a", "h"), lambda x, c: x >> pdt.filter(x.a > 1, x.h < 5), lambda x, c: x >> pdt.filter(x.a > 1) >> pdt.filter(x.h < 5))
    add("filter_split_null", ("a", "f"), lambda x, c: x >> pdt.filter(x.f, x.a.is_not_null()), lambda x, c: x >> pdt.filter(x.f) >> pdt.filter(x.a.is_not_null()))
    add("filter_and", ("a", "h"), lambda x, c: x >> pdt.filter((x.a > 1) & (x.h < 5)), lambda x, c: x >> pdt.filter(x.a > 1, x.h < 5))
    for fname, f in (("shift", lambda x, **kw: x.h.shift(1, **kw)), ("row_number", lambda x, **kw: pdt.row_number(**kw)), ("sum", lambda x, **kw: x.h.sum(**{k: v for k, v in kw.items() if k != "arrange"})), ("rank", None)):
        if f is None:
            continue
        add(f"group_by_vs_partition_by/{fname}", ("a", "f", "h"), lambda x, c, f=f: x >> pdt.group_by(x.f) >> pdt.mutate(w=f(x, arrange=[x.a.nulls_last(), x.h])) >> pdt.ungroup(),
            lambda x, c, f=f: x >> pdt.mutate(w=f(x, partition_by=x.f, arrange=[x.a.nulls_last(), x.h])), uniq=True)
        if fname != "sum":
            for mname, mk in (("desc.nulls_last", lambda e: e.descending().nulls_last()), ("desc.nulls_first", lambda e: e.descending().nulls_first()), ("nulls_first.desc", lambda e: e.nulls_first().descending())):
                add(f"arrange_verb_vs_arrange_kwarg/{fname}/{mname}", ("a", "f", "h"), lambda x, c, f=f, mk=mk: x >> pdt.group_by(x.f) >> pdt.arrange(mk(x.a), x.h) >> pdt.mutate(w=f(x)) >> pdt.ungroup(),
                    lambda x, c, f=f, mk=mk: x >> pdt.mutate(w=f(x, partition_by=x.f, arrange=[mk(x.a), x.h])) >> pdt.arrange(mk(x.a), x.h), uniq=True)
                add(f"group_by_vs_partition_by/{fname}/{mname}", ("a", "f", "h"), lambda x, c, f=f, mk=mk: x >> pdt.group_by(x.f) >> pdt.mutate(w=f(x, arrange=[mk(x.a), x.h])) >> pdt.ungroup(),
                    lambda x, c, f=f, mk=mk: x >> pdt.mutate(w=f(x, partition_by=x.f, arrange=[mk(x.a), x.h])), uniq=True)
        if fname != "sum":
            add(f"arrange_verb_vs_arrange_kwarg/{fname}", ("a", "f", "h"), lambda x, c, f=f: x >> pdt.group_by(x.f) >> pdt.arrange(x.a.nulls_last(), x.h) >> pdt.mutate(w=f(x)) >> pdt.ungroup(),
                lambda x, c, f=f: x >> pdt.mutate(w=f(x, partition_by=x.f, arrange=[x.a.nulls_last(), x.h])) >> pdt.arrange(x.a.nulls_last(), x.h), uniq=True)
    add("drop_vs_select", ("s", "h"), lambda x, c: x >> pdt.drop(x.s), lambda x, c: x >> pdt.select(*[col for col in x if col.name != "s"]))
    add("drop2_vs_select", ("s", "h", "a"), lambda x, c: x >> pdt.drop(x.s, x.a), lambda x, c: x >> pdt.select(*[col for col in x if col.name not in ("s", "a")]))
    add("rename_inverse", ("a", "s"), lambda x, c: x >> pdt.rename({"a": "q", "s": "r"}) >> pdt.rename({"q": "a", "r": "s"}), lambda x, c: x)
    add("rename_swap_twice", ("a", "b"), lambda x, c: x >> pdt.rename({"a": "b", "b": "a"}) >> pdt.rename({"a": "b", "b": "a"}), lambda x, c: x)
    for (n1, o1, n2, o2) in ((4, 1, 2, 1), (3, 0, 5, 2), (5, 2, 0, 0), (2, 0, 1, 3), (5, 2, 4, 1), (3, 2, 5, 1), (6, 3, 10, 2)):
        add(f"slice_chain/{n1},{o1},{n2},{o2}", ("h",), lambda x, c, n1=n1, o1=o1, n2=n2, o2=o2: x >> pdt.arrange(x.h) >> pdt.slice_head(n1, offset=o1) >> pdt.slice_head(n2, offset=o2),
            lambda x, c, n1=n1, o1=o1, n2=n2, o2=o2: x >> pdt.arrange(x.h) >> pdt.slice_head(min(max(n1 - o2, 0), n2), offset=o1 + o2), uniq=True)
    add("inner_join_vs_cross_filter", ("a", "h"), lambda x, c: x >> pdt.inner_join(c.u, x.a == c.u.a), lambda x, c: x >> pdt.cross_join(c.u) >> pdt.filter(x.a == c.u.a))
    # keys of different numeric types: the comparison is made in the common type (no key is truncated)
    def _uf(c):
        return c.u >> pdt.mutate(fk=c.u.a + 0.5, fk0=c.u.a * 1.0, ik=c.u.h + 23)

    for cname, cmp in (("<", lambda p, q: p < q), ("<=", lambda p, q: p <= q), (">=", lambda p, q: p >= q)):
        # non-equi joins of an integer key with a fractional float key (both written orders), against cross_join + filter
        add(f"inner_join_vs_cross_filter/int{cname}float(.5)", ("a", "h"),
            lambda x, c, cmp=cmp: (lambda uf: x >> pdt.inner_join(uf, cmp(x.a, uf.fk - 1)))(_uf(c)), lambda x, c, cmp=cmp: (lambda uf: x >> pdt.cross_join(uf) >> pdt.filter(cmp(x.a, uf.fk - 1)))(_uf(c)))
        add(f"inner_join_vs_cross_filter/float(.5){cname}int", ("a", "h"),
            lambda x, c, cmp=cmp: (lambda uf: x >> pdt.inner_join(uf, cmp(uf.fk - 4, x.a - 3)))(_uf(c)), lambda x, c, cmp=cmp: (lambda uf: x >> pdt.cross_join(uf) >> pdt.filter(cmp(uf.fk - 4, x.a - 3)))(_uf(c)))
    for kname, lk, rk in (("int==float(.5)", "a", "fk"), ("int==float(.0)", "a", "fk0"), ("float==int", "b", "ik")):
        for how in ("inner", "left"):
            add(f"{how}_join_vs_cross_filter/{kname}", (lk, "h"),
                lambda x, c, lk=lk, rk=rk, how=how: (lambda uf: x >> pdt.join(uf, x[lk] == uf[rk], how) >> pdt.filter(uf[rk].is_not_null()))(_uf(c)),
                lambda x, c, lk=lk, rk=rk: (lambda uf: x >> pdt.cross_join(uf) >> pdt.filter(x[lk] == uf[rk]))(_uf(c)))
    # an aggregate in mutate does not depend on the row order: arrange before == arrange after
    add("arrange_then_agg_mutate_vs_agg_mutate_then_arrange", ("a", "h"), lambda x, c: x >> pdt.arrange(C.h.descending()) >> pdt.mutate(sm=C.a.sum(), mx=C.h.max(), n=pdt.count()),
        lambda x, c: x >> pdt.mutate(sm=C.a.sum(), mx=C.h.max(), n=pdt.count()) >> pdt.arrange(C.h.descending()))
    add("arrange_then_grouped_agg_mutate_vs_partition_by", ("a", "h"), lambda x, c: x >> pdt.arrange(C.h) >> pdt.group_by(C.a) >> pdt.mutate(sm=C.h.sum()) >> pdt.ungroup(),
        lambda x, c: x >> pdt.mutate(sm=C.h.sum(partition_by=C.a)) >> pdt.arrange(C.h))
    add("inner_join_vs_cross_filter/<", ("a", "h"), lambda x, c: x >> pdt.inner_join(c.u, (x.a < c.u.a) & (x.h + 5 >= c.u.h)), lambda x, c: x >> pdt.cross_join(c.u) >> pdt.filter((x.a < c.u.a) & (x.h + 5 >= c.u.h)))
    add("map_vs_when", ("a", "h"), lambda x, c: x >> pdt.mutate(m=x.a.map({1: 10, (2, 3): 20}, default=x.h)), lambda x, c: x >> pdt.mutate(m=pdt.when(x.a == 1).then(10).when(x.a.is_in(2, 3)).then(20).otherwise(x.h)))
    add("map_vs_when/nodefault", ("a",), lambda x, c: x >> pdt.mutate(m=x.a.map({1: 10, 5: 50})), lambda x, c: x >> pdt.mutate(m=pdt.when(x.a == 1).then(10).when(x.a == 5).then(50).otherwise(x.a)))
    add("map_vs_when/str", ("s",), lambda x, c: x >> pdt.mutate(m=x.s.map({"x": "X", "y": "Y"}, default=x.s)), lambda x, c: x >> pdt.mutate(m=pdt.when(x.s == "x").then("X").when(x.s == "y").then("Y").otherwise(x.s)))
    add("is_in_vs_or", ("a", "h"), lambda x, c: x >> pdt.mutate(m=x.a.is_in(1, 2, x.h)), lambda x, c: x >> pdt.mutate(m=(x.a == 1) | (x.a == 2) | (x.a == x.h)))
    add("is_in_vs_or/null_candidates", ("a", "h"), lambda x, c: x >> pdt.mutate(m=x.h.is_in(x.a, 7), k=x.a.is_in(1, None), nk=~x.h.is_in(x.a, 2)), lambda x, c: x >> pdt.mutate(m=(x.h == x.a) | (x.h == 7), k=(x.a == 1) | (x.a == pdt.lit(None)), nk=~((x.h == x.a) | (x.h == 2))))
    add("is_in_vs_or/filter_negated", ("a", "h"), lambda x, c: x >> pdt.filter(~x.h.is_in(x.a, 2)), lambda x, c: x >> pdt.filter(~((x.h == x.a) | (x.h == 2))))
    add("is_in_vs_or/filter", ("a",), lambda x, c: x >> pdt.filter(x.a.is_in(2, 5)), lambda x, c: x >> pdt.filter((x.a == 2) | (x.a == 5)))
    add("is_in_vs_or/str", ("s",), lambda x, c: x >> pdt.mutate(m=x.s.is_in("x", "w")), lambda x, c: x >> pdt.mutate(m=(x.s == "x") | (x.s == "w")))

    def un(x, c, swap):
        names = [col.name for col in x]
        r = c.t2
        if not all(n in r for n in names) or any(x[n].dtype() != r[n].dtype() for n in names):
            return None
        r = r >> pdt.select(*[r[n] for n in reversed(names)])
        return (r >> pdt.union(x)) if swap else (x >> pdt.union(r))

    add("union_swap", (), lambda x, c: un(x, c, False), lambda x, c: un(x, c, True), colorder=True)
    add("union_swap/distinct", ("a",), lambda x, c: (x >> pdt.select(x.a)) >> pdt.union(c.t2 >> pdt.select(c.t2.a), distinct=True) if x.a.dtype() == c.t2.a.dtype() else None,
        lambda x, c: (c.t2 >> pdt.select(c.t2.a)) >> pdt.union(x >> pdt.select(x.a), distinct=True) if x.a.dtype() == c.t2.a.dtype() else None)
    return E


def _run_side(backend, kind, ctx_steps, side):
    ctx = P.Ctx(backend, kind)
    x = ctx.t
    for st in ctx_steps:
        if not P._has(x, *st.needs):
            return ("n/a",)
        try:
            x = st.fn(x, ctx)
        except Exception:  # noqa: BLE001
            return ("n/a",)
        if x is None:
            return ("n/a",)
    return ("ctx", x, ctx)


def _apply(x, ctx, needs, fn):
    if not P._has(x, *needs):
        return ("n/a",)
    try:
        y = fn(x, ctx)
        if y is None:
            return ("n/a",)
        df = y >> pdt.ungroup() >> pdt.export(pdt.Polars())
    except P.OK_REFUSALS as e:
        return ("refused", type(e).__name__)
    except (ValueError, TypeError, pdt.errors.ColumnNotFoundError, pdt.errors.FunctionTypeError, pdt.errors.DataTypeError) as e:
        return ("rejected", f"{type(e).__name__}: {str(e)[:80]}")
    except Exception as e:  # noqa: BLE001
        return ("error", f"{type(e).__name__}: {str(e)[:160]}")
    return ("ok", list(df.columns), [tuple(r) for r in df.rows()], dict(df.schema))


def make_q(backend, kind, eq_i):
    def run(carve):
        eid, needs, lhs, rhs, colorder, uniq = equivalences()[eq_i]
        n, bad, refused = 0, [], 0
        with warnings.catch_warnings():
            warnings.simplefilter("ignore")
            for cx in P.contexts():
                pl_ = P.plan(list(cx))
                if pl_ is None:
                    continue
                ordered_ctx, loose = pl_
                if uniq and any(st.breaks for st in cx):
                    continue
                if any(st.label.startswith("group_by") for st in cx) and not any(st.label.startswith("summarize") for st in cx):
                    continue  # the equivalences are stated for ungrouped tables
                if "arrange_verb_window_sql" in carve and eid.startswith("arrange_verb_vs_arrange_kwarg"):
                    continue
                res = []
                for fn in (lhs, rhs):
                    r = _run_side(backend, kind, cx, fn)
                    if r[0] == "n/a":
                        res.append(r)
                        continue
                    res.append(_apply(r[1], r[2], needs, fn))
                a, b = res
                lab = f"[{backend},{kind}] {' >> '.join(s.label for s in cx)} >> {eid}"
                if a[0] == "n/a" or b[0] == "n/a":
                    continue
                n += 1
                if "error" in (a[0], b[0]):
                    bad.append(f"{lab}: internal error: lhs {a[:2]} rhs {b[:2]}")
                    continue
                if "refused" in (a[0], b[0]):
                    refused += 1
                    continue
                if a[0] != b[0]:
                    bad.append(f"{lab}: one side is rejected: lhs {a[:2]} rhs {b[:2]}")
                    continue
                if a[0] == "rejected":
                    continue
                ordered = (eid.startswith("slice_chain") or eid.startswith("arrange_verb")) or (ordered_ctx and not eid.startswith(("inner_join", "left_join", "union")))
                ca, cb = a[1], b[1]
                ra, rb = a[2], b[2]
                if eid.startswith(("inner_join_vs_cross", "left_join_vs_cross")) and len(ca) == len(cb):
                    # the documented suffix rule of join depends on which right columns occur in `on` (C06/C09), so
                    # the right column names may legitimately differ: the columns are compared by position
                    cb = ca
                if colorder:
                    if sorted(ca) != sorted(cb):
                        bad.append(f"{lab}: column sets differ: {ca} vs {cb}")
                        continue
                    idx = [cb.index(nm) for nm in ca]
                    rb = [tuple(r[i] for i in idx) for r in rb]
                elif ca != cb:
                    bad.append(f"{lab}: column names / order differ: {ca} vs {cb}")
                    continue
                if loose and not eid.startswith("slice_chain"):
                    if len(ra) != len(rb):
                        bad.append(f"{lab}: row counts differ: {len(ra)} vs {len(rb)}")
                    continue
                na, nb = P.norm_rows(ra, ordered), P.norm_rows(rb, ordered)
                if na != nb:
                    d = next((i for i, (p, q) in enumerate(zip(na, nb)) if p != q), min(len(na), len(nb)))
                    bad.append(f"{lab}: rows differ ({'sequence' if ordered else 'multiset'}, {len(na)} vs {len(nb)}); first difference: {na[d] if d < len(na) else None} vs {nb[d] if d < len(nb) else None}")
        out = _enum_outcome(f"[{backend},{kind}] equivalence {eid} after every context pipeline", n, bad, allow_empty=(kind != "mixed"))
        out.notes = [f"refused by SQL: {refused}"]
        return out

    return run


def q2s_run(carve):
    import polars as pl

    n, bad = 0, []
    t = pdt.Table(pl.DataFrame({"a": [1, 2], "g": [1, 1], "h": [1, 2], "b": [1.5, 2.5]}), name="t")
    V = pdt._internal.tree.verbs
    fns = {
        "shift": lambda **kw: t.a.shift(1, **kw), "row_number": lambda **kw: pdt.row_number(**kw), "rank": lambda **kw: pdt.rank(**kw), "dense_rank": lambda **kw: pdt.dense_rank(**kw),
        "cum_sum": lambda **kw: t.a.cum_sum(**kw), "sum": lambda arrange=None, **kw: t.a.sum(**kw), "mean": lambda arrange=None, **kw: t.b.mean(**kw), "count": lambda arrange=None, **kw: pdt.count(**kw),
        "max(filter)": lambda arrange=None, **kw: t.a.max(filter=t.h > 1, **kw), "nested": lambda **kw: t.a.shift(1, **kw) + t.a.sum(**{k: v for k, v in kw.items() if k != "arrange"}),
    }
    for name, f in fns.items():
        for groups in ([t.g], [t.g, t.h]):
            n += 1
            l = t >> pdt.group_by(*groups) >> pdt.mutate(w=f(arrange=[t.h.descending()])) >> pdt.ungroup()
            r = t >> pdt.mutate(w=f(arrange=[t.h.descending()], partition_by=groups))
            lm = next(nd for nd in l._ast.iter_subtree_postorder() if isinstance(nd, V.Mutate))
            rm = next(nd for nd in r._ast.iter_subtree_postorder() if isinstance(nd, V.Mutate))
            def shape(e):
                if isinstance(e, H.col_expr_mod.ColFn):
                    return (e.op.name, tuple(shape(a) for a in e.args), tuple(sorted((k, tuple(shape(v) for v in vs)) for k, vs in e.context_kwargs.items())))
                if isinstance(e, H.col_expr_mod.Order):
                    return ("order", shape(e.order_by), e.descending, e.nulls_last)
                if isinstance(e, H.col_expr_mod.Col):
                    return ("col", e._uuid)
                if isinstance(e, H.col_expr_mod.CaseExpr):
                    return ("case", tuple((shape(c), shape(v)) for c, v in e.cases), shape(e.default_val) if e.default_val is not None else None)
                if isinstance(e, H.col_expr_mod.LiteralCol):
                    return ("lit", e.val)
                return (type(e).__name__, e.ast_repr())

            la, ra = lm.values[0].ast_repr(), rm.values[0].ast_repr()
            if shape(lm.values[0]) != shape(rm.values[0]):
                bad.append(f"{name} grouped by {[g.name for g in groups]}: group_by + mutate builds {la}, explicit partition_by builds {ra}")
    return _enum_outcome("group_by(g) >> mutate(f(x)) and mutate(f(x, partition_by=g)) hand the backends the same expression tree (per window / aggregate function)", n, bad)


def q3s_run(carve):
    import polars as pl

    n, bad = 0, []
    t0 = pdt.Table(pl.DataFrame({"a": [1], "b": [2], "c": [3], "d": [4]}), name="t")
    V = pdt._internal.tree.verbs
    import itertools

    for pre_name, t in (("source", t0), ("after select(d,a,c,b)", t0 >> pdt.select(t0.d, t0.a, t0.c, t0.b)), ("after mutate(e)", t0 >> pdt.mutate(e=t0.a + 1)), ("after rename", t0 >> pdt.rename({"a": "z"}))):
        names = [c.name for c in t]
        for k in range(0, len(names) + 1):
            for dropped in itertools.combinations(names, k):
                n += 1
                l = t >> pdt.drop(*[t[x] for x in dropped])
                r = t >> pdt.select(*[t[x] for x in names if x not in dropped])
                ln, rn = l._ast, r._ast
                if type(ln) is not V.Select or [c._uuid for c in ln.select] != [c._uuid for c in rn.select] or [c.name for c in l] != [c.name for c in r]:
                    bad.append(f"{pre_name}: drop{dropped} builds select {[c.name for c in ln.select]}, select(complement) {[c.name for c in rn.select]}")
    return _enum_outcome("drop(c...) builds the same Select node / the same visible columns as select(complement) (all subsets of 4-5 columns, 4 histories)", n, bad)


def obligations(tier):
    fi = H.fn_info
    VB = pdt._internal.pipe.verbs
    fns = [fi(getattr(VB, n)) for n in ("mutate", "filter", "drop", "select", "rename", "slice_head", "join", "_union_impl", "group_by", "ungroup", "arrange", "preprocess_arg")]
    obs = [
        Obligation("C15/Q2s/partition_by_injection", "Q2s", "group_by + mutate == explicit partition_by at the expression-tree level", q2s_run, functions=[fi(VB.mutate), fi(VB.preprocess_arg)], bounded="10 window / aggregate shapes x 2 groupings on one table (the injected tree does not depend on data)"),
        Obligation("C15/Q3s/drop_is_select_complement", "Q3s", "drop builds the Select of the complement", q3s_run, functions=[fi(VB.drop), fi(VB.select)], bounded="all subsets of the columns of 4 tables of width 4-5"),
    ]
    kinds = ("mixed", "empty", "single") if tier == "quick" else ("mixed", "empty", "single", "tall")
    for be in ("polars", "sqlite"):
        for kind in kinds:
            for i, e in enumerate(equivalences()):
                obs.append(Obligation(f"C15/Q/{be}/{kind}/{e[0]}", "Q", f"equivalence {e[0]} on {be}, {kind} input, after every context pipeline", make_q(be, kind, i), functions=fns,
                                      bounded=f"{len(P.contexts())} context pipelines x input `{kind}` x backend {be}", carveouts={"arrange_verb_window_sql": "arrange verb as implicit window ordering on SQL"}))
    return obs


DESIGN_REF = "DESIGN.md §5.15"
ASSUMPTIONS = [
    "bounded native execution: each equivalence is instantiated after 16 context pipelines on 3 (quick) / 4 (thorough) input tables on Polars and in-memory SQLite",
    "unbounded counterparts: map == when/then and is_in == chained equality are C03/E3 obligations; drop/select node shape C02/V1; rename metadata C09/C11; slice chain LIMIT/OFFSET arithmetic C08/S6; partition_by injection C05/W4",
    "an equivalence whose one side SQL refuses (SubqueryError / NotSupportedError) is not compared",
]
LEVEL = "other"
EXPLANATION = "Bounded native comparison of both sides of every documented equivalence after enumerated context pipelines on Polars and SQLite, plus two structural obligations (same expression tree for group_by vs partition_by; same Select node for drop vs select)."
