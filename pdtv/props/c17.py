"""C17 - casts follow the documented conversion table.

K1a  documented pairs are accepted            K1b  accepted pairs are documented (or same family / null source)
K2   rejection happens at construction with DataTypeError (TypeError for a const target)
K3   for every accepted pair the engine types exist (to_polars / sqa_type never fail)
      -> K1-K3 are evaluated on the real Cast constructor over the finite type universe      [bounded in type parameters]
K4   value obligations under the library models, for all values: null stays null on both backends for every
     accepted pair; float->int truncates toward zero, bool->int is 0/1, int->float is exact, same-sort casts
     keep the value; real Cast tree compiled by the real compile_col_expr / compile_cast.      [proof]
"""

from __future__ import annotations

import uuid

import z3

from pydiverse.common import Bool, Date, Datetime, Decimal, Enum, Float, Float32, Float64, Int, Int64, String

from .. import core, plmodel, sqlmodel
from .. import harness as H
from .. import nv as N
from .. import typeuniverse as TU
from ..core import explore
from ..oblig import VC, Obligation, Outcome
from . import common as C
from .c13 import _enum_outcome, _fmt

T = H.types_mod
Cast = H.col_expr_mod.Cast
DataTypeError = H.pdt._internal.errors.DataTypeError


def tclass(t):
    if isinstance(t, Enum):
        return "enum"
    return TU.family(t)


# documented conversions (ColExpr.cast docstring + property statement), by (source family, target class)
DOC = {
    ("float", "int"): "Float -> IntN: extracts the integer part",
    ("string", "int"): "String -> IntN: parses the string as an integer",
    ("string", "float"): "String -> FloatN: parses the string as a floating point number",
    ("int", "string"): "Int -> String: base 10",
    ("float", "string"): "Float -> String: decimal notation",
    ("datetime", "date"): "Datetime -> Date: removes the time component",
    ("datetime", "string"): "Datetime -> String",
    ("date", "string"): "Date -> String",
    ("bool", "int"): "property statement: bool to int gives 0/1",
    ("int", "float"): "implicit conversion of integers to floating point numbers",
    ("date", "datetime"): "implicit conversion of dates to datetimes / date to datetime adds midnight",
}


def documented(s, t):
    fs, ft, ct = TU.family(s), TU.family(t), tclass(t)
    if fs == "list" or ft == "list":
        return fs == ft
    if fs == "nulltype":
        return True
    if fs == ft:
        return True
    return (fs, ct) in DOC


def canonical_targets(ct):
    return {"int": TU.SIZED_INTS, "float": [Float32(), Float64()], "string": [String()], "date": [Date()], "datetime": [Datetime()]}[ct]


def _col(t):
    return H.Col("x", H._LEAF, uuid.uuid1(), t, H.Ftype.ELEMENT_WISE)


def _try_cast(s, t):
    try:
        return ("ok", Cast(_col(s), t))
    except DataTypeError as e:
        return ("DataTypeError", e)
    except BaseException as e:  # noqa: BLE001
        return (type(e).__name__, e)


def k1a_run(carve):
    n, bad = 0, []
    for s in TU.UNIVERSE:
        fs = TU.family(s)
        for (df, ct), why in DOC.items():
            if df != fs:
                continue
            for t in canonical_targets(ct):
                st, v = _try_cast(s, t)
                n += 1
                if st != "ok":
                    bad.append(f"cast {s} -> {t} is documented ({why}) but is rejected: {st}: {v}")
    return _enum_outcome("every documented (source family, target) pair is accepted by Cast.__init__", n, bad)


def k1b_run(carve):
    n, bad = 0, []
    for s in TU.UNIVERSE:
        for t in TU.BASE:
            if "bool_to_float" in carve and TU.family(s) == "bool" and TU.family(t) == "float":
                continue
            st, v = _try_cast(s, t)
            n += 1
            if st == "ok" and not documented(s, t):
                bad.append(f"cast {s} -> {t} is accepted but is neither in the documented table nor a same-family / null-source conversion")
            elif st not in ("ok", "DataTypeError"):
                bad.append(f"cast {s} -> {t} fails with {st}: {v} (expected acceptance or DataTypeError)")
    # const targets
    for s in TU.BASE[:6]:
        for t in TU.UNIVERSE[len(TU.BASE) : len(TU.BASE) + 6]:
            st, v = _try_cast(s, t)
            n += 1
            if st != "TypeError":
                bad.append(f"cast {s} -> {t} (const target): {st}, expected TypeError")
    return _enum_outcome("accepted casts are documented; every other pair raises DataTypeError when the expression is built (TypeError for a const target)", n, bad)


def k3_run(carve):
    n, bad = 0, []
    impls = [H.sqlite_backend.SqliteImpl]
    try:
        from pydiverse.transform._internal.backend.mssql import MsSqlImpl
        from pydiverse.transform._internal.backend.postgres import PostgresImpl

        impls += [PostgresImpl, MsSqlImpl]
    except Exception:  # noqa: BLE001
        pass
    for s in TU.UNIVERSE:
        for t in TU.BASE:
            st, v = _try_cast(s, t)
            if st != "ok":
                continue
            if "nested_list" in carve and TU.family(t) == "list" and TU.family(T.without_const(t).inner) == "list":
                continue
            n += 1
            try:
                t.to_polars()
            except BaseException as e:  # noqa: BLE001
                bad.append(f"accepted cast {s} -> {t}: target.to_polars() raises {type(e).__name__}: {e}")
            for im in impls:
                try:
                    im.sqa_type(t)
                except BaseException as e:  # noqa: BLE001
                    bad.append(f"accepted cast {s} -> {t}: {im.__name__}.sqa_type raises {type(e).__name__}: {e}")
    return _enum_outcome("for every accepted cast the engine type of the target exists on Polars and on every SQL dialect", n, bad)


def spec_cast(x: N.NV, s_sort, t_sort, s, t):
    """documented value where the documentation fixes it; None = only `null stays null` is claimed"""
    if s_sort == t_sort and TU.family(s) == TU.family(t) and s_sort in (N.INT, N.REAL, N.BOOL):
        return x
    if s_sort == N.REAL and t_sort == N.INT and TU.family(t) == "int":
        return N.NV(x.null, z3.If(x.val >= 0, z3.ToInt(x.val), -z3.ToInt(-x.val)))
    if s_sort == N.BOOL and t_sort == N.INT:
        return N.NV(x.null, z3.If(x.val, z3.IntVal(1), z3.IntVal(0)))
    if s_sort == N.INT and t_sort == N.REAL and TU.family(s) == "int":
        return N.NV(x.null, z3.ToReal(x.val))
    return None


K4_SOURCES = [Int64(), H.pdt.Int8(), Float64(), Float32(), Decimal(10, 2), Bool(), String(), String(5), Date(), Datetime(), Enum("a", "b")]


def make_k4(s, t, backend, strict):
    def run(carve):
        plmodel.reset_state()
        sqlmodel.AXIOMS_USED.clear()
        x = H.SymCol("x", s)

        def body():
            with H.patched():
                e = Cast(x.col, t, strict=strict)
                return H.compile_polars(e, [x]) if backend == "polars" else H.compile_sqlite(e, [x])

        paths = explore(body)
        ss, ts = H.sort_of_dtype(s), H.sort_of_dtype(t)
        sp = spec_cast(x.nv, ss, ts, s, t)
        vc = VC(f"den_{backend}(compile(Cast(x:{s} -> {t}, strict={strict}))): null stays null" + ("; value = documented conversion" if sp is not None else ""), facts=N.domain_facts())
        wit = {"x_null": x.nv.null, "x_val": x.nv.val}
        for p in paths:
            vc.paths += 1
            if p.kind == "exc":
                if C.exc_is_refusal(p.value):
                    vc.queries += 1
                    continue
                vc.require(p.pc, z3.BoolVal(False), f"raises {type(p.value).__name__}: {p.value}", wit)
                continue
            got = p.value.nv if backend == "polars" else sqlmodel.den(p.value)
            w = dict(wit, got_null=got.null, got_val=got.val)
            vc.require(p.pc, got.null == x.nv.null, "null does not stay null / a non-null value becomes null", w)
            if sp is not None:
                vc.require(p.pc, N.eq(got, sp), "value differs from the documented conversion", w)
            if backend == "polars":
                tp = getattr(p.value, "pltype", None)
                want = t.to_polars()
                ok = tp is not None and (tp == want or (isinstance(tp, type) and isinstance(want, tp)) or str(tp) == str(want))
                vc.require(p.pc, z3.BoolVal(bool(ok)), f"the Polars expression is cast to {tp}, requested {want}", w)
        return vc.outcome(axioms=sorted(plmodel.AXIOMS_USED | sqlmodel.AXIOMS_USED))

    return run


def k5_run(carve):
    """native: a cast of a LITERAL operand gives the same value as the cast of a column holding that value, on both
    backends, for every accepted pair of the sample types (the const-ness of the operand must not change the cast)"""
    import datetime as dt
    import warnings

    import polars as pl
    import sqlalchemy as sqa

    from .c13 import _enum_outcome

    pdt = H.pdt
    samples = {
        "Int64": (pdt.Int64(), [3, -2, 0]), "Float64": (pdt.Float64(), [2.75, -1.5, 4.0]), "String": (pdt.String(), ["12", "-7", "3"]), "Bool": (pdt.Bool(), [True, False, True]),
        "Date": (pdt.Date(), [dt.date(2020, 2, 29), dt.date(1999, 12, 31), dt.date(1970, 1, 2)]), "Datetime": (pdt.Datetime(), [dt.datetime(2020, 2, 29, 13, 14, 15), dt.datetime(1999, 12, 31, 23, 59, 59), dt.datetime(1970, 1, 2, 0, 0, 1)]),
    }
    targets = [pdt.Int64(), pdt.Int32(), pdt.Float64(), pdt.String(), pdt.Date(), pdt.Datetime(), pdt.Bool()]
    df = pl.DataFrame({k: pl.Series(k, v, dtype=t.to_polars()) for k, (t, v) in samples.items()})
    eng = sqa.create_engine("sqlite://")
    df.write_database("t", eng)
    n, bad = 0, []
    by_backend = {}

    def norm(v):
        if isinstance(v, float):
            return round(v, 9)
        return v

    with warnings.catch_warnings():
        warnings.simplefilter("ignore")
        for be, t in (("polars", pdt.Table(df, name="t")), ("sqlite", pdt.Table("t", pdt.SqlAlchemy(eng)))):
            for sname, (st, vals) in samples.items():
                for tgt in targets:
                    try:
                        e_col = t[sname].cast(tgt)
                    except pdt.errors.DataTypeError:
                        continue
                    n += 1
                    try:
                        col_res = (t >> pdt.mutate(r=e_col) >> pdt.export(pdt.Polars()))["r"].to_list()
                    except (pdt.errors.NotSupportedError,):
                        continue
                    except Exception as ex:  # noqa: BLE001
                        bad.append(f"[{be}] column {sname}.cast({tgt}) fails at export: {type(ex).__name__}: {str(ex)[:120]}")
                        continue
                    by_backend.setdefault((sname, str(tgt)), {})[be] = [norm(x) for x in col_res]
                    for v, want in zip(vals, col_res):
                        try:
                            lit_res = (t >> pdt.mutate(r=pdt.lit(v).cast(tgt)) >> pdt.export(pdt.Polars()))["r"].to_list()
                        except pdt.errors.NotSupportedError:
                            continue
                        except Exception as ex:  # noqa: BLE001
                            bad.append(f"[{be}] lit({v!r}).cast({tgt}) fails ({type(ex).__name__}: {str(ex)[:100]}) although the column cast {sname}.cast({tgt}) works")
                            break
                        if any(norm(x) != norm(want) for x in lit_res):
                            bad.append(f"[{be}] lit({v!r}).cast({tgt}) = {lit_res[0]!r}, the column cast of the same value gives {want!r}")
                            break
    # nested casts in ONE expression give the value of the same casts applied in separate steps (no cast may be skipped or merged)
    chains = [("Int64", [pdt.Float64(), pdt.String()]), ("Date", [pdt.Datetime(), pdt.String()]), ("Float64", [pdt.Int64(), pdt.String()]), ("String", [pdt.Int64(), pdt.Float64()]), ("Bool", [pdt.Int64(), pdt.String()]),
              ("Int64", [pdt.Float64(), pdt.Int64()]), ("Datetime", [pdt.Date(), pdt.Datetime()]), ("Float64", [pdt.Int64(), pdt.Float64()]), ("Int64", [pdt.Int32(), pdt.Float64()]), ("Datetime", [pdt.Date(), pdt.String()])]
    with warnings.catch_warnings():
        warnings.simplefilter("ignore")
        for be, t in (("polars", pdt.Table(df, name="t")), ("sqlite", pdt.Table("t", pdt.SqlAlchemy(eng)))):
            for sname, (t1, t2) in chains:
                n += 1
                try:
                    one = (t >> pdt.mutate(r=t[sname].cast(t1).cast(t2)) >> pdt.export(pdt.Polars()))["r"].to_list()
                    two = (t >> pdt.mutate(r1=t[sname].cast(t1)) >> pdt.mutate(r=pdt.C.r1.cast(t2)) >> pdt.export(pdt.Polars()))["r"].to_list()
                    if be == "polars":
                        two = (t >> pdt.mutate(r1=t[sname].cast(t1)) >> pdt.collect() >> pdt.mutate(r=pdt.C.r1.cast(t2)) >> pdt.export(pdt.Polars()))["r"].to_list()
                except (pdt.errors.NotSupportedError, pdt.errors.DataTypeError):
                    continue
                except Exception as ex:  # noqa: BLE001
                    bad.append(f"[{be}] {sname}.cast({t1}).cast({t2}) fails: {type(ex).__name__}: {str(ex)[:120]}")
                    continue
                if [norm(x) for x in one] != [norm(x) for x in two]:
                    bad.append(f"[{be}] {sname}.cast({t1}).cast({t2}) in one expression gives {one}, the two casts applied one after the other give {two}")
    # the two backends agree on the value wherever the result is not a text rendering of a float / bool / datetime
    for (sname, tname), d in by_backend.items():
        if len(d) == 2 and not (tname.startswith("String") and sname in ("Float64", "Bool", "Datetime", "Date")):
            n += 1
            if d["polars"] != d["sqlite"]:
                bad.append(f"column {sname}.cast({tname}): Polars gives {d['polars']}, SQLite gives {d['sqlite']}")
    return _enum_outcome("a cast of a literal operand gives the value of the cast of a column holding that value, and Polars and SQLite agree on the values (6 source types x 7 targets x 3 values)", n, bad)


def k9_run(carve):
    """Float -> String 'writes the floating point number in decimal notation in base 10' - for ordinary, very large and very
    small magnitudes, identically on Polars and SQLite (native)"""
    import warnings
    from decimal import Decimal

    import polars as pl
    import sqlalchemy as sqa

    from .c13 import _enum_outcome

    pdt = H.pdt
    vals = [2.5, -0.125, 100.0, 123456.75, 1e15, 2.0**53, 1e22, -1e-7, 1.5e-10, None]
    if "float_text_magnitude" in carve:
        vals = [v for v in vals if v is None or 1e-4 <= abs(v) < 1e15]
    df = pl.DataFrame({"f": pl.Series(vals, dtype=pl.Float64), "h": list(range(len(vals)))})
    eng = sqa.create_engine("sqlite://")
    df.write_database("t", eng)

    def canon(v):
        if v is None:
            return None
        t = format(Decimal(repr(v)), "f")
        return t if "." in t else t + ".0"

    want = [canon(v) for v in vals]
    n, bad = 0, []
    with warnings.catch_warnings():
        warnings.simplefilter("ignore")
        for be, t in (("polars", pdt.Table(df, name="t")), ("sqlite", pdt.Table("t", pdt.SqlAlchemy(eng)))):
            n += 1
            try:
                got = (t >> pdt.mutate(s=t.f.cast(pdt.String())) >> pdt.arrange(t.h) >> pdt.export(pdt.Polars()))["s"].to_list()
            except Exception as ex:  # noqa: BLE001
                bad.append(f"[{be}] {type(ex).__name__}: {str(ex)[:100]}")
                continue
            for v, g, w in zip(vals, got, want):
                if g != w:
                    bad.append(f"[{be}] {v!r}.cast(String) = {g!r}; decimal notation: {w!r}")
    return _enum_outcome("Float -> String writes the number in decimal notation, identically on both backends", n, bad)


def k8_run(carve):
    """the VALUE of a cast is usable like a stored value of the target type: a Date cast to Datetime equals / orders against
    Datetime columns and literals, prints like one, and casts back (native, Python oracle, both backends)"""
    import datetime as dt
    import warnings

    import polars as pl
    import sqlalchemy as sqa

    from .c13 import _enum_outcome

    pdt = H.pdt
    ds = [dt.date(2020, 1, 2), None, dt.date(1999, 12, 31), dt.date(2020, 2, 29)]
    ts = [dt.datetime(2020, 1, 2), dt.datetime(2020, 1, 2, 1), dt.datetime(1999, 12, 31, 0, 0, 0, 5), dt.datetime(2020, 2, 28, 23, 59, 59)]
    mid = [None if d is None else dt.datetime(d.year, d.month, d.day) for d in ds]

    def N(f):
        return lambda a, b: None if a is None or b is None else f(a, b)

    want = {
        "eq": [N(lambda a, b: a == b)(a, b) for a, b in zip(mid, ts)], "le": [N(lambda a, b: a <= b)(a, b) for a, b in zip(mid, ts)], "lt": [N(lambda a, b: a < b)(a, b) for a, b in zip(mid, ts)],
        "eql": [None if a is None else a == dt.datetime(2020, 1, 2) for a in mid], "s": [None if a is None else a.strftime("%Y-%m-%d %H:%M:%S.%f") for a in mid],
        "mx": [max([x for x in (a, b) if x is not None]) for a, b in zip(mid, ts)], "h": [None if a is None else 0 for a in mid], "back": ds,
        "i2f": [2.0, None, -3.0, 0.0], "f2i": [2, None, -3, 0], "b2i": [1, None, 0, 1],
        # generic targets pdt.Float() / pdt.Int(): the value really is converted (the next cast / operator sees a float / an int)
        "i2F_s": ["2.0", None, "-3.0", "0.0"], "i2F_div": [1.0, None, -1.5, 0.0],
    }
    df = pl.DataFrame({"d": pl.Series(ds, dtype=pl.Date), "t": pl.Series(ts, dtype=pl.Datetime("us")), "i": [2, None, -3, 0], "f": [2.9, None, -3.9, 0.4], "b": [True, None, False, True], "h": [0, 1, 2, 3]})
    eng = sqa.create_engine("sqlite://")
    df.write_database("t", eng)
    n, bad = 0, []
    with warnings.catch_warnings():
        warnings.simplefilter("ignore")
        for be, t in (("polars", pdt.Table(df, name="t")), ("sqlite", pdt.Table("t", pdt.SqlAlchemy(eng)))):
            c = t.d.cast(pdt.Datetime())
            exprs = {"eq": c == t.t, "le": c <= t.t, "lt": c < t.t, "eql": c == dt.datetime(2020, 1, 2), "s": c.cast(pdt.String()), "mx": pdt.max(c, t.t), "h": c.dt.hour(), "back": c.cast(pdt.Date()),
                     "i2f": t.i.cast(pdt.Float64()) + 0.0, "f2i": t.f.cast(pdt.Int64()) + 0, "b2i": t.b.cast(pdt.Int64()) + 0,
                     "i2F_s": t.i.cast(pdt.Float()).cast(pdt.String()), "i2F_div": t.i.cast(pdt.Float()) / 2}
            for name, e in exprs.items():
                n += 1
                try:
                    got = (t >> pdt.mutate(r=e) >> pdt.arrange(t.h) >> pdt.export(pdt.Polars()))["r"].to_list()
                except Exception as ex:  # noqa: BLE001
                    bad.append(f"[{be}] {name}: raises {type(ex).__name__}: {str(ex)[:100]}")
                    continue
                if got != want[name]:
                    bad.append(f"[{be}] {name} of d.cast(Datetime) / numeric casts: {got}; documented {want[name]}")
        # a cast inside a join key is applied before the keys are compared (Float -> Int truncates toward zero)
        gf = pl.DataFrame({"g": [3.0, 3.7, -3.0, 0.0], "gi": [3, 9, -3, 0]})
        gf.write_database("g", eng)
        pairs = sorted((h, g) for h, f in zip(df["h"].to_list(), df["f"].to_list()) for g in gf["g"].to_list() if f is not None and float(int(f)) == g)
        for be in ("polars", "sqlite"):
            t, g = (pdt.Table(df, name="t"), pdt.Table(gf, name="g")) if be == "polars" else (pdt.Table("t", pdt.SqlAlchemy(eng)), pdt.Table("g", pdt.SqlAlchemy(eng)))
            for label, on in (("f.cast(Int64) == g (Float64 key)", lambda: t.f.cast(pdt.Int64()) == g.g), ("g == f.cast(Int64)", lambda: g.g == t.f.cast(pdt.Int64())), ("f.cast(Int64) == gi.cast(Float64)", lambda: t.f.cast(pdt.Int64()) == g.gi.cast(pdt.Float64()))):
                n += 1
                try:
                    out = t >> pdt.inner_join(g, on()) >> pdt.select(t.h, g.g) >> pdt.export(pdt.Polars())
                    want_p = pairs if "gi" not in label else sorted((h, gg) for h, f in zip(df["h"].to_list(), df["f"].to_list()) for gg, gi in zip(gf["g"].to_list(), gf["gi"].to_list()) if f is not None and int(f) == gi)
                    if sorted(out.rows()) != want_p:
                        bad.append(f"[{be}] inner_join on {label}: pairs {sorted(out.rows())}, documented {want_p}")
                except (pdt.errors.SubqueryError, pdt.errors.NotSupportedError):
                    pass
                except Exception as ex:  # noqa: BLE001
                    bad.append(f"[{be}] inner_join on {label}: raises {type(ex).__name__}: {str(ex)[:100]}")
    return _enum_outcome("cast results take part in later comparisons / functions / casts / join keys like stored values of the target type", n, bad)


def k7_run(carve):
    """native: casts do not depend on how the source table was handed to Table(): dict, eager frame, LazyFrame, with Datetime
    columns of every polars time unit (the library works with microseconds throughout) - the cast results are the documented
    ones for every source form"""
    import datetime as dt
    import warnings

    import polars as pl

    from .c13 import _enum_outcome

    pdt = H.pdt
    vals = [dt.datetime(2020, 2, 29, 13, 14, 15, 123000), dt.datetime(1999, 12, 31, 23, 59, 59), None, dt.datetime(1970, 1, 2, 0, 0, 1, 5000)]
    ints = [3, None, -2, 0]
    want = {
        "s": [None if v is None else v.strftime("%Y-%m-%d %H:%M:%S.%f") for v in vals],
        "d": [None if v is None else v.date() for v in vals],
        "i": [None if v is None else str(v) for v in ints],
        "back": [None if v is None else dt.datetime(v.year, v.month, v.day) for v in vals],
    }
    sources = {"dict": lambda: pdt.Table({"t": vals, "n": ints}, name="src")}
    for unit in ("us", "ms", "ns"):
        frame = pl.DataFrame({"t": pl.Series("t", vals, dtype=pl.Datetime(unit)), "n": pl.Series("n", ints, dtype=pl.Int64)})
        sources[f"DataFrame[{unit}]"] = lambda frame=frame: pdt.Table(frame, name="src")
        sources[f"LazyFrame[{unit}]"] = lambda frame=frame: pdt.Table(frame.lazy(), name="src")
    n, bad = 0, []
    with warnings.catch_warnings():
        warnings.simplefilter("ignore")
        for label, mk in sources.items():
            n += 1
            try:
                t = mk()
                out = t >> pdt.mutate(s=t.t.cast(pdt.String()), d=t.t.cast(pdt.Date()), i=t.n.cast(pdt.String()), back=t.t.cast(pdt.Date()).cast(pdt.Datetime())) >> pdt.export(pdt.Polars())
            except Exception as e:  # noqa: BLE001
                bad.append(f"Table({label}): {type(e).__name__}: {str(e)[:120]}")
                continue
            for c, w in want.items():
                got = out[c].to_list()
                if got != w:
                    bad.append(f"Table({label}): column {c} = {got}; documented {w}")
            if out.schema["t"] != pl.Datetime("us") or out.schema["back"] != pl.Datetime("us"):
                bad.append(f"Table({label}): Datetime columns are exported as {out.schema['t']} / {out.schema['back']}, documented Datetime(us)")
    return _enum_outcome("cast results (Datetime -> String / Date, Int -> String, Date -> Datetime) are the documented ones for every way of handing the data to Table()", n, bad)


def k6_run(carve):
    """the static type of x.cast(T) is T (its concrete representative for the generic Int / Float): a cast is never dropped or
    replaced by another target, for column, expression and literal operands"""
    import polars as pl

    from .c13 import _enum_outcome

    pdt = H.pdt
    t = pdt.Table(pl.DataFrame({"i": [1, 2], "f": [1.5, 2.5], "s": ["1", "2"], "b": [True, False], "i8": pl.Series([1, 2], dtype=pl.Int8), "f32": pl.Series([1.5, 2.5], dtype=pl.Float32)}), name="t")
    operands = {"Int64 column": lambda: t.i, "Int8 column": lambda: t.i8, "Float64 column": lambda: t.f, "Float32 column": lambda: t.f32, "String column": lambda: t.s, "Bool column": lambda: t.b,
                "Int expression": lambda: t.i + 1, "Float expression": lambda: t.f * 2, "C.i": lambda: pdt.C.i, "int literal": lambda: pdt.lit(3), "float literal": lambda: pdt.lit(2.5)}
    targets = [pdt.Int64(), pdt.Int32(), pdt.Int8(), pdt.Float64(), pdt.Float32(), pdt.String(), pdt.Int(), pdt.Float(), pdt.Bool()]
    n, bad = 0, []
    for oname, mk in operands.items():
        for tgt in targets:
            try:
                e = mk().cast(tgt)
                tbl = t >> pdt.mutate(r=e)
            except (pdt.errors.DataTypeError, TypeError):
                continue
            n += 1
            got = T.without_const(tbl.r.dtype())
            fam_ok = TU.family(got) == TU.family(tgt)
            exact_ok = (type(tgt) in (pdt.Int, pdt.Float)) or (got == tgt and type(got) is type(tgt))
            if not (fam_ok and exact_ok):
                bad.append(f"({oname}).cast({tgt}) has static type {got}")
                continue
            out = tbl >> pdt.export(pdt.Polars())
            gp = H.Dtype.from_polars(out["r"].dtype)
            if TU.family(gp) != TU.family(tgt) or (type(tgt) not in (pdt.Int, pdt.Float) and gp != tgt):
                bad.append(f"({oname}).cast({tgt}) is exported by Polars as {gp}")
    return _enum_outcome("x.cast(T) has static and exported type T for every accepted operand / target pair (generic Int / Float: a type of that family)", n, bad)


def obligations(tier):
    fi = H.fn_info
    cfns = [fi(Cast.__init__), fi(Cast.is_valid_cast), fi(Cast.dtype), fi(T.converts_to)]
    obs = [
        Obligation("C17/K1a/documented_accepted", "K1a", "documented conversions are accepted", k1a_run, functions=cfns, bounded=TU.BOUND_TEXT),
        Obligation("C17/K1b/accepted_documented", "K1b+K2", "accepted conversions are documented; everything else is DataTypeError at construction", k1b_run, functions=cfns, bounded=TU.BOUND_TEXT,
                   carveouts={"bool_to_float": "Bool -> Float*"}),
        Obligation("C17/K3/engine_types", "K3", "engine types exist for accepted targets (never an execution-time failure)", k3_run,
                   functions=cfns + [fi(H.sql_backend.SqlImpl.sqa_type)], bounded=TU.BOUND_TEXT, carveouts={"nested_list": "List of List targets"}),
    ]
    obs.append(Obligation("C17/K5/literal_operands", "K5", "casts of literal (const) operands agree with casts of columns, natively on both backends", k5_run,
                          functions=cfns + [fi(H.sqlite_backend.SqliteImpl.compile_cast), fi(H.polars_backend.compile_col_expr), fi(H.sql_backend.SqlImpl.compile_lit)], bounded="6 source types x 7 targets x 3 sample values x 2 backends, plus 10 nested cast chains (native execution)"))
    obs.append(Obligation("C17/K9/float_text", "K9", "Float -> String is decimal notation for ordinary, very large and very small magnitudes on both backends (native)", k9_run, functions=cfns, bounded="9 values x 2 backends",
                          carveouts={"float_text_magnitude": "magnitudes >= 1e15 or < 1e-4"}))
    obs.append(Obligation("C17/K8/cast_values_in_use", "K8", "a cast result compares, orders, prints and casts back like a stored value of the target type (Date -> Datetime; numeric casts)", k8_run, functions=cfns + [fi(H.sqlite_backend.SqliteImpl.compile_cast)],
                          bounded="13 uses of cast results x 2 backends on 4 rows"))
    obs.append(Obligation("C17/K7/source_forms", "K7", "cast results do not depend on the form of the source (dict / DataFrame / LazyFrame, Datetime time units)", k7_run, functions=cfns + [fi(H.polars_backend.PolarsImpl.__init__)],
                          bounded="7 source forms x 4 casts on 4 rows"))
    obs.append(Obligation("C17/K6/result_type", "K6", "x.cast(T) has type T (no cast is dropped), for columns, expressions, C-references and literals", k6_run, functions=cfns + [fi(H.col_expr_mod.ColExpr.cast)],
                          bounded="11 operand shapes x 9 targets (concrete and generic) on one table; native Polars export"))
    targets = [Int64(), H.pdt.Int32(), Float64(), Float32(), String(), Date(), Datetime(), Enum("a", "b")]
    for s in K4_SOURCES:
        for t in targets:
            if _try_cast(s, t)[0] != "ok":
                continue
            for backend in ("polars", "sqlite"):
                for strict in (True, False) if backend == "polars" else (True,):
                    fns = [fi(Cast.__init__)] + ([fi(H.polars_backend.compile_col_expr)] if backend == "polars" else [fi(H.sqlite_backend.SqliteImpl.compile_cast), fi(H.sqlite_backend.SqliteImpl.cast_compiled), fi(H.sql_backend.SqlImpl.compile_col_expr)])
                    obs.append(Obligation(f"C17/K4/{backend}/{s}->{t}/strict={strict}", "K4", f"cast {s} -> {t} on {backend}: null stays null; documented value where fixed", make_k4(s, t, backend, strict), functions=fns))
    return obs


DESIGN_REF = "DESIGN.md §5.17"
ASSUMPTIONS = [
    "the documented table is read at the granularity (source family, target class): Float/String -> IntN, String -> FloatN, Int/Float/Date/Datetime -> String, Datetime -> Date, Bool -> Int, Int -> Float, Date -> Datetime; same-family and null-source conversions are the implicit ones",
    "text formats of engine-native casts (number/date -> string, string -> number parsing) are the engines' own semantics (uninterpreted functions): only `null stays null` is decided for them",
    "narrowing integer casts and non-strict casts of unparsable strings are outside the property (DESIGN §4)",
]
