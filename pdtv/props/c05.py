"""C05 - arrange orders stably; window functions see the right rows in the right order.

W1  Order.from_col_expr: marker peeling (outermost marker of each kind wins).          [bounded: depth <= 4]
W2  polars.merge_desc_nulls_last: for two generic rows a, b of a partition, ordering by the merged
    integer key ascending == ordering by (key, descending, nulls_last); under the dense-rank model.   [proof]
W3  dedup_order_by keeps the first occurrence of every key with its own modifiers;
    SqlImpl.compile_order / polars.compile_order map (descending, nulls_last) to the right modifiers.
W4  preprocess_arg injects exactly the grouping columns as partition_by for window / aggregate-as-window
    functions without an explicit partition_by.
W5  polars window compilation has the order-restoring shape f(arg.sort_by(K)).sort_by(int_range.sort_by(K)),
    or .over(partition, order_by=merged keys); plus the permutation lemma that this shape restores row order.
W6  SQL window compilation: OVER (PARTITION BY <partition cols> ORDER BY <arrange keys with flags>);
    shift(n) = LAG(n) / LEAD(-n) for symbolic n.
"""

from __future__ import annotations

import itertools

import z3

from pydiverse.common import Float64, Int64, String

from .. import core, plmodel, sqlmodel
from .. import harness as H
from .. import nv as N
from ..core import explore
from ..oblig import VC, Obligation, Outcome
from . import common as C

Order = H.col_expr_mod.Order
ops = H.ops


def _concrete(goal, check_fn, label="bounded"):
    """obligation body for finite structural enumerations executed on the real code"""

    def run(carve):
        n, bad = check_fn()
        if bad:
            return Outcome("refuted", detail=str(bad[0])[:500], goal=goal, paths=n, queries=n, model={"case": str(bad[0])[:300]}, replay={"reproduced": True, "text": f"real function evaluated natively: {str(bad[0])[:400]}"})
        if n == 0:
            return Outcome("undecided", detail="no case enumerated", goal=goal)
        return Outcome("discharged", goal=goal, paths=n, queries=n, backend="evaluation")

    return run


# --- W1 ------------------------------------------------------------------------------


def w1_check():
    markers = [ops.descending, ops.ascending, ops.nulls_last, ops.nulls_first]
    base = H.SymCol("x", Int64()).col
    n, bad = 0, []
    for depth in range(0, 5):
        for seq in itertools.product(markers, repeat=depth):
            e = base
            for m in seq:  # seq[0] innermost ... seq[-1] outermost
                e = H.ColFn(m, e)
            o = Order.from_col_expr(e)
            outer = list(reversed(seq))
            d = next((m is ops.descending for m in outer if m in (ops.descending, ops.ascending)), False)
            nl = next((m is ops.nulls_last for m in outer if m in (ops.nulls_last, ops.nulls_first)), None)
            n += 1
            if o.order_by is not base or o.descending is not d or o.nulls_last is not nl:
                bad.append(f"markers (inner->outer) {[m.name for m in seq]}: got (desc={o.descending}, nulls_last={o.nulls_last}, key is base={o.order_by is base}), expected (desc={d}, nulls_last={nl})")
    return n, bad


# --- W2 ------------------------------------------------------------------------------


def spec_before(a: N.NV, b: N.NV, desc, nl):
    """row a sorts strictly before row b under (key, descending, nulls_last)"""
    lt = N.lt_t(b.val, a.val) if desc else N.lt_t(a.val, b.val)
    both = z3.And(z3.Not(a.null), z3.Not(b.null))
    if nl is True:
        return z3.Or(z3.And(z3.Not(a.null), b.null), z3.And(both, lt))
    if nl is False:
        return z3.Or(z3.And(a.null, z3.Not(b.null)), z3.And(both, lt))
    return z3.And(both, lt)


def make_w2_run(dt, desc, nl):
    def run(carve):
        plmodel.reset_state()
        rows = {}
        merged = {}
        for r in ("a", "b"):
            s = H.sort_of_dtype(dt)
            rows[r] = N.NV(z3.Bool(f"k{r}_null"), z3.Const(f"k{r}_val", s))
        with H.patched():
            for r in ("a", "b"):
                k = plmodel.PlExpr(rows[r], "row", ("col", "k"), dt.to_polars())
                out = H.polars_backend.merge_desc_nulls_last([k], [desc], [nl])
                assert len(out) == 1
                merged[r] = out[0].nv
        a, b, ma, mb = rows["a"], rows["b"], merged["a"], merged["b"]
        facts = plmodel.rank_facts() + [N.G_ROWS >= 1, N.G_ROWS < 2**40]
        if H.sort_of_dtype(dt) == N.STR:
            facts += N.str_order_axioms([a.val, b.val])
        vc = VC(f"merge_desc_nulls_last([k:{dt}], [{desc}], [{nl}]): for all rows a, b: merged(a) < merged(b) <=> a sorts before b under (k, descending={desc}, nulls_last={nl}); merged is never null when nulls_last is given", facts=facts)
        vc.paths = 1
        wit = {"ka_null": a.null, "ka": a.val, "kb_null": b.null, "kb": b.val, "merged_a_null": ma.null, "merged_a": ma.val, "merged_b_null": mb.null, "merged_b": mb.val, "len": N.G_ROWS}
        if nl is not None:
            vc.require([], z3.And(z3.Not(ma.null), z3.Not(mb.null)), "merged key is null although nulls_last/nulls_first was requested", wit)
            scope = z3.BoolVal(True)
        else:
            scope = z3.And(z3.Not(a.null), z3.Not(b.null))
            vc.require([scope], z3.And(z3.Not(ma.null), z3.Not(mb.null)), "merged key of a non-null key is null", wit)
        vc.require([scope], N.lt_t(ma.val, mb.val) == spec_before(a, b, desc, nl), "merged order differs from (key, descending, nulls_last) order", wit)
        tie = z3.Or(z3.And(a.null, b.null), z3.And(z3.Not(a.null), z3.Not(b.null), a.val == b.val))
        vc.require([scope], (ma.val == mb.val) == tie, "merged keys tie differently from the original keys", wit)
        return vc.outcome(axioms=sorted(plmodel.AXIOMS_USED))

    return run


def w2_replayer(dt, desc, nl):
    def replay(model):
        import polars as pl

        import pydiverse.transform as pdt

        def val(r):
            if model.get(f"k{r}_null"):
                return None
            return C.py_of_model_value(model.get(f"k{r}"), dt)

        ka, kb = val("a"), val("b")
        df = pl.DataFrame({"g": [1, 1], "k": pl.Series("k", [ka, kb], dtype=dt.to_polars()), "i": [0, 1]})
        t = pdt.Table(df, name="t")
        key = t.k
        if desc:
            key = key.descending()
        if nl is True:
            key = key.nulls_last()
        elif nl is False:
            key = key.nulls_first()
        try:
            out = t >> pdt.mutate(rn=pdt.row_number(partition_by=t.g, arrange=[key, t.i])) >> pdt.export(pdt.Polars())
            got = out.sort("i")["rn"].to_list()
        except Exception as e:  # noqa: BLE001
            return {"reproduced": True, "text": f"raises {type(e).__name__}: {e}"}

        def before(x, y):
            if x is None or y is None:
                if x is None and y is None:
                    return False
                if nl is None:
                    return None
                return (y is None) if nl else (x is None)
            return (x > y) if desc else (x < y)

        exp_a_first = before(ka, kb)
        if exp_a_first is None:
            return {"reproduced": False, "text": "null position unspecified for this input"}
        tie = not before(ka, kb) and not before(kb, ka)
        exp = [1, 2] if (exp_a_first or tie) else [2, 1]
        return {"reproduced": got != exp, "text": f"k=[{ka!r},{kb!r}] desc={desc} nulls_last={nl}: row_number(partition_by=g, arrange=[k.., i]) on polars gives {got}, expected {exp}"}

    return replay


def w2_map_check():
    """element i of the result depends only on element i of the inputs (the loop is a map)"""
    n, bad = 0, []
    with H.patched():
        plmodel.reset_state()
        k1 = plmodel.PlExpr(N.NV(z3.Bool("k1n"), z3.Int("k1v")), "row", ("col", "k1"), None)
        k2 = plmodel.PlExpr(N.NV(z3.Bool("k2n"), z3.Int("k2v")), "row", ("col", "k2"), None)
        flags = [(d, nl) for d in (False, True) for nl in (None, True, False)]
        for (d1, n1), (d2, n2) in itertools.product(flags, flags):
            both = H.polars_backend.merge_desc_nulls_last([k1, k2], [d1, d2], [n1, n2])
            s1 = H.polars_backend.merge_desc_nulls_last([k1], [d1], [n1])
            s2 = H.polars_backend.merge_desc_nulls_last([k2], [d2], [n2])
            n += 1
            if len(both) != 2 or both[0].node != s1[0].node or both[1].node != s2[0].node:
                bad.append(f"flags {(d1, n1), (d2, n2)}: result for two keys is not the element-wise result")
    return n, bad


# --- W3 ------------------------------------------------------------------------------


def w3_dedup_check():
    import sqlalchemy as sa

    cols = {"a": sa.column("a"), "b": sa.column("b")}
    terms = []
    for name, c in cols.items():
        for d in ("asc", "desc"):
            for nl in (None, "nulls_first", "nulls_last"):
                t = getattr(c, d)()
                if nl:
                    t = getattr(t, nl)()
                terms.append((name, t))
    n, bad = 0, []
    for ln in range(0, 4):
        for combo in itertools.product(terms, repeat=ln):
            got = H.sql_backend.dedup_order_by(t for _, t in combo)
            exp, seen = [], set()
            for name, t in combo:
                if name not in seen:
                    seen.add(name)
                    exp.append(t)
            n += 1
            if len(got) != len(exp) or any(g is not e for g, e in zip(got, exp)):
                bad.append(f"order list {[str(t) for _, t in combo]} -> {[str(t) for t in got]}, expected {[str(t) for t in exp]} (first occurrence of each key, with its own modifiers)")
    return n, bad


def w3_compile_order_check():
    n, bad = 0, []
    for dt in (Int64(), String()):
        for desc in (False, True):
            for nl in (None, True, False):
                with H.patched():
                    plmodel.reset_state()
                    k = H.SymCol("k", dt)
                    o = Order(k.col, desc, nl)
                    sqa_expr = {k.col._uuid: sqlmodel.label("k", sqlmodel.column("k", k.nv, H.sqlite_backend.SqliteImpl.sqa_type(dt)))}
                    sx = H.sqlite_backend.SqliteImpl.compile_order(o, sqa_expr)
                    mods = []
                    cur = sx
                    while isinstance(cur, sqlmodel.SX) and cur.kind == "unary_mod":
                        mods.append(cur.args[0])
                        cur = cur.args[1]
                    collated = cur.kind == "collate"
                    if collated:
                        cur = cur.args[0]
                    exp_mods = ([("nulls_last" if nl else "nulls_first")] if nl is not None else []) + ["desc" if desc else "asc"]
                    n += 1
                    if mods != exp_mods or cur is not sqa_expr[k.col._uuid] or collated != (dt == String()):
                        bad.append(f"SqliteImpl.compile_order(Order(k:{dt}, descending={desc}, nulls_last={nl})) has modifiers {mods} (outer->inner), expected {exp_mods}; collate={collated}")
                    # polars
                    plmodel.ENV["k"] = plmodel.PlExpr(k.nv, "row", ("col", "k"), None)
                    pe, pd_, pn = H.polars_backend.compile_order(o, {k.col._uuid: "k"})
                    n += 1
                    if pd_ is not desc or pn is not nl or pe.node != ("col", "k"):
                        bad.append(f"polars.compile_order(Order(k, {desc}, {nl})) = ({pe.node}, {pd_}, {pn})")
    return n, bad


# --- W4 ------------------------------------------------------------------------------


def w4_check():
    import polars as pl

    import pydiverse.transform as pdt
    from pydiverse.transform._internal.pipe.verbs import preprocess_arg

    df = pl.DataFrame({"g": [1, 1, 2], "h": ["a", "b", "a"], "x": [1, 2, 3], "s": ["p", "q", "r"], "b": [True, False, None]})
    t0 = pdt.Table(df, name="t")
    tables = {"ungrouped": t0, "grouped_g": t0 >> pdt.group_by(t0.g), "grouped_gh": t0 >> pdt.group_by(t0.g, t0.h)}
    n, bad = 0, []
    for opname, op in H.ALL_OPS.items():
        if op.ftype == H.Ftype.ELEMENT_WISE or opname in ("str_join",):
            continue
        argsets = {"min": ["x"], "max": ["x"], "mean": ["x"], "sum": ["x"], "any": ["b"], "all": ["b"], "count": ["x"], "count_star": [], "list_agg": ["x"], "shift": ["x", 1, None], "row_number": [], "rank": [], "dense_rank": [], "cum_sum": ["x"]}
        if opname not in argsets:
            bad.append(f"window/aggregate operator {opname} not covered by the W4 enumeration")
            continue
        needs_arrange = opname in ("shift", "row_number", "rank", "dense_rank", "cum_sum")
        for tname, t in tables.items():
            for explicit in (False, True):
                for agg_is_window in (True, False):
                    if op.ftype == H.Ftype.WINDOW and not agg_is_window:
                        continue
                    args = [t0[a] if isinstance(a, str) else a for a in argsets[opname]]
                    kw = {}
                    if needs_arrange:
                        kw["arrange"] = [t0.x]
                    if explicit:
                        kw["partition_by"] = [t0.s]
                    e = H.ColFn(op, *args, **kw)
                    before = {k: list(v) for k, v in e.context_kwargs.items()}
                    res = preprocess_arg(e, t, agg_is_window=agg_is_window)
                    pb = res.context_kwargs.get("partition_by")
                    got = None if pb is None else [c._uuid for c in pb]
                    if explicit:
                        exp = [t0.s._uuid]
                    elif agg_is_window:
                        exp = list(t._cache.partition_by)
                    else:
                        exp = None
                    n += 1
                    if got != exp:
                        bad.append(f"preprocess_arg({opname}(..., {'partition_by=[s]' if explicit else 'no partition_by'}), {tname}, agg_is_window={agg_is_window}): partition_by uuids {got}, expected {exp}")
    return n, bad


# --- W5 / W6 --------------------------------------------------------------------------

WINDOW_CASES = [
    ("row_number", lambda x: []),
    ("rank", lambda x: []),
    ("dense_rank", lambda x: []),
    ("shift", lambda x: [x, H.LiteralCol(1), H.LiteralCol(None)]),
    ("cum_sum", lambda x: [x]),
    ("sum", lambda x: [x]),
]


def _nl0(nls):
    return tuple(nl if nl is not None else False for nl in nls)


def w5_check():
    n, bad = 0, []
    flags = [(False, None), (True, None), (False, True), (True, False)]
    for opname, mkargs in WINDOW_CASES:
        op = H.ALL_OPS[opname]
        for with_part in (False, True):
            for with_arr in (False, True):
                if op.ftype == H.Ftype.WINDOW and not with_arr:
                    continue
                if op.ftype == H.Ftype.AGGREGATE and (with_arr or not with_part):
                    continue  # aggregates take no arrange=; without partition they are plain aggregates (C04)
                for f1, f2 in itertools.product(flags, flags) if with_arr else [(None, None)]:
                    with H.patched():
                        plmodel.reset_state()
                        x, k1, k2, g = H.SymCol("x", Int64()), H.SymCol("k1", Int64()), H.SymCol("k2", Int64()), H.SymCol("g", Int64())
                        cols = [x, k1, k2, g]
                        kw = {}
                        if with_arr:
                            kw["arrange"] = [Order(k1.col, *f1), Order(k2.col, *f2)]
                        if with_part:
                            kw["partition_by"] = [g.col]
                        e = H.ColFn(op, *mkargs(x.col))
                        e.context_kwargs = {k: v for k, v in kw.items()}
                        e.ftype(agg_is_window=True)
                        got = H.compile_polars(e, cols)
                        # expected shape, built with the model API
                        P = plmodel
                        K = [P.col("k1"), P.col("k2")]
                        D = (f1[0], f2[0]) if with_arr else ()
                        NL = (f1[1], f2[1]) if with_arr else ()
                        args = [P.col("x")] if opname in ("shift", "cum_sum", "sum") else []
                        if with_arr and not with_part and args:
                            args[0] = args[0].sort_by(by=K, descending=D, nulls_last=_nl0(NL))
                        if opname in ("rank", "dense_rank"):
                            merged = H.polars_backend.merge_desc_nulls_last(K, list(D), list(NL))
                            st = P.struct(merged)
                            v = st.rank("min" if opname == "rank" else "dense").cast(P.Int64)
                            arr_left = False
                        else:
                            arr_left = with_arr
                            if opname == "row_number":
                                v = P.int_range(start=1, end=P.len() + 1, dtype=P.Int64)
                            elif opname == "shift":
                                v = args[0].shift(P.lit(1, dtype=P.Int64), fill_value=None) if False else None
                            elif opname == "cum_sum":
                                v = args[0].cum_sum().fill_null(strategy="forward")
                            elif opname == "sum":
                                v = args[0].sum()
                                v = P.when(args[0].count() == 0).then(None).otherwise(v)
                        if opname == "shift":
                            # the literal argument is compiled by the code; only check the surrounding shape
                            inner = got
                            ok = True
                            if with_part:
                                ok = inner.node[0] == "over"
                            elif with_arr:
                                ok = inner.node[0] == "sort_by" and inner.node[1][0] == "shift" and inner.node[1][1][0] == "sort_by"
                                if ok:
                                    inv = P.int_range(0, P.len(), dtype=P.Int64()).sort_by(by=K, descending=D, nulls_last=_nl0(NL))
                                    ok = inner.node[2] == (("by", inv.node), ("descending", False), ("nulls_last", False)) and inner.node[1][1] == P.col("x").sort_by(by=K, descending=D, nulls_last=_nl0(NL)).node
                            n += 1
                            if not ok:
                                bad.append(f"{opname} partition={with_part} arrange={f1, f2}: compiled shape {got.node}")
                            continue
                        if with_part:
                            ob = H.polars_backend.merge_desc_nulls_last(K, list(D), list(NL)) if arr_left else None
                            v = v.over([P.col("g")], order_by=ob)
                        elif arr_left and op.ftype == H.Ftype.WINDOW:
                            inv = P.int_range(0, P.len(), dtype=P.Int64()).sort_by(by=K, descending=D, nulls_last=_nl0(NL))
                            v = v.sort_by(inv)
                        n += 1
                        if got.node != v.node:
                            bad.append(f"{opname} partition={with_part} arrange={(f1, f2) if with_arr else None}:\n   compiled {got.node}\n   expected {v.node}")
    return n, bad


def make_w5_lemma_run():
    def run(carve):
        # rows 0..n-1; pi(p) = original row at sorted position p (a permutation with inverse pinv);
        # V(r) = value computed for original row r; A(p) = V(pi(p)) is what f computes on the sorted
        # arguments; inv(p) = pi(p) is int_range.sort_by(K); sort_by(A, inv) puts A(p) at position inv(p).
        n = z3.Int("n")
        pi = z3.Function("pi", N.INT, N.INT)
        pinv = z3.Function("pinv", N.INT, N.INT)
        V = z3.Function("V", N.INT, N.INT)
        q = z3.Int("q")
        p = z3.Int("p")
        perm = z3.ForAll([p], z3.Implies(z3.And(0 <= p, p < n), z3.And(0 <= pi(p), pi(p) < n, pinv(pi(p)) == p, 0 <= pinv(p), pinv(p) < n, pi(pinv(p)) == p)))
        # result(q) = A(p) for the p with inv(p) = q, i.e. p = pinv(q)
        result_q = V(pi(pinv(q)))
        vc = VC("order restoration: with pi = argsort(K), f(arg.sort_by(K)).sort_by(int_range.sort_by(K)) puts the value computed for original row q at position q (for every permutation pi)", facts=[perm, 0 <= q, q < n])
        vc.paths = 1
        vc.require([], result_q == V(q), "restored position differs")
        return vc.outcome()

    return run


def w6_check():
    n, bad = 0, []
    flags = [(False, None), (True, True), (True, False)]
    impl = H.sqlite_backend.SqliteImpl
    for opname, mkargs in WINDOW_CASES:
        op = H.ALL_OPS[opname]
        if op.ftype == H.Ftype.AGGREGATE:
            continue
        for with_part in (False, True):
            for f1, f2 in itertools.product(flags, flags):
                with H.patched():
                    plmodel.reset_state()
                    x, k1, k2, g = H.SymCol("x", Int64()), H.SymCol("k1", Int64()), H.SymCol("k2", String()), H.SymCol("g", Int64())
                    cols = [x, k1, k2, g]
                    e = H.ColFn(op, *mkargs(x.col))
                    arr = [Order(k1.col, *f1), Order(k2.col, *f2)]
                    e.context_kwargs = {"arrange": arr}
                    if with_part:
                        e.context_kwargs["partition_by"] = [g.col]
                    e.ftype(agg_is_window=True)
                    sqa_expr = {c.col._uuid: sqlmodel.label(c.name, sqlmodel.column(c.name, c.nv, impl.sqa_type(c.dtype))) for c in cols}
                    got = impl.compile_col_expr(e, sqa_expr)
                    n += 1
                    if not (isinstance(got, sqlmodel.SX) and got.kind == "over"):
                        bad.append(f"{opname}: compiled SQL is not an OVER expression: {got}")
                        continue
                    el, pb, ob = got.args
                    exp_pb = [sqa_expr[g.col._uuid]] if with_part else None
                    got_pb = list(pb.args) if pb is not None else None
                    exp_ob = [impl.compile_order(o, sqa_expr) for o in arr]
                    got_ob = list(ob.args) if ob is not None else []
                    if opname == "cum_sum":
                        got_ob = got_ob[:-1] if got_ob and got_ob[-1].kind == "func" and got_ob[-1].args[0] == "RANDOM" else ["missing tie-breaker"]
                    if (got_pb is None) != (exp_pb is None) or (got_pb is not None and [id(a) for a in got_pb] != [id(a) for a in exp_pb]):
                        bad.append(f"{opname} partition={with_part}: PARTITION BY {got_pb}, expected {exp_pb}")
                    if [repr(a) for a in got_ob] != [repr(a) for a in exp_ob]:
                        bad.append(f"{opname} arrange={f1, f2}: ORDER BY {got_ob}, expected {exp_ob}")
                    exp_fn = {"row_number": "ROW_NUMBER", "rank": "RANK", "dense_rank": "DENSE_RANK", "shift": "LAG", "cum_sum": "SUM", "sum": "SUM"}[opname]
                    if el.kind != "func" or el.args[0] != exp_fn:
                        bad.append(f"{opname}: window function {el}, expected {exp_fn}")
    return n, bad


def make_shift_run(backend):
    def run(carve):
        plmodel.reset_state()
        sqlmodel.AXIOMS_USED.clear()
        nsym = z3.Int("n")
        x = H.SymCol("x", Int64())

        def body():
            with H.patched():
                if backend == "polars":
                    plmodel.ENV["x"] = plmodel.PlExpr(x.nv, "row", ("col", "x"), None)
                    impl = H.polars_backend.PolarsImpl.get_impl(ops.shift, (Int64(), H.types_mod.Const(Int64()), H.types_mod.Const(Int64())))
                    return impl(plmodel.ENV["x"], core.SymInt(nsym), None)
                impl = H.sqlite_backend.SqliteImpl.get_impl(ops.shift, (Int64(), H.types_mod.Const(Int64()), H.types_mod.Const(Int64())))
                xc = sqlmodel.column("x", x.nv, H.sqlite_backend.SqliteImpl.sqa_type(Int64()))
                return impl(xc, core.SymInt(nsym), None)

        paths = explore(body)
        vc = VC(f"shift(x, n) on {backend} reads the row n positions earlier in the window order (row offset -n) for every integer n")
        for p in paths:
            vc.paths += 1
            if p.kind == "exc":
                vc.require(p.pc, z3.BoolVal(False), f"raises {type(p.value).__name__}: {p.value}", {"n": nsym})
                continue
            v = p.value
            if backend == "polars":
                if v is None or v.node[0] != "shift":
                    vc.require(p.pc, z3.BoolVal(False), f"not a shift expression: {getattr(v, 'node', v)}", {"n": nsym})
                    continue
                off = -nsym if v.node[2] == ("sym", str(nsym)) else None
                if off is None:
                    vc.require(p.pc, z3.BoolVal(False), f"shift amount is {v.node[2]}, expected n", {"n": nsym})
                    continue
                vc.require(p.pc, off == -nsym, "offset differs", {"n": nsym})
            else:
                if v is None or not isinstance(v, sqlmodel.SX) or v.kind != "func" or v.args[0] not in ("LAG", "LEAD"):
                    vc.require(p.pc, z3.BoolVal(False), f"impl returned {v!r} (no LAG/LEAD expression)", {"n": nsym})
                    continue
                k = sqlmodel.den(v.args[2]).val
                off = -k if v.args[0] == "LAG" else k
                vc.require(p.pc, z3.And(off == -nsym, k >= 0), f"{v.args[0]} offset differs from -n or is negative", {"n": nsym})
        return vc.outcome(axioms=["SQL: LAG(x, k) reads k rows earlier, LEAD(x, k) k rows later in the window order (k >= 0)", "polars: x.shift(n) reads the row n positions earlier"])

    return run


def make_lib(backend, fn_name, kdt):
    """conformance of the window specification with the real engine: a Python oracle for row_number / rank / dense_rank /
    shift / cum_sum under every (descending, nulls position, partition) combination, on a table with nulls and ties"""
    def run(carve):
        import warnings

        import polars as pl
        import sqlalchemy as sqa

        from .c13 import _enum_outcome

        pdt = H.pdt
        kvals = {"int": [3, None, 1, 3, 2, None, 1, 5, 2, 3], "str": ["c", None, "a", "c", "b", None, "a", "e", "b", "c"], "float": [3.5, None, 1.0, 3.5, 2.25, None, 1.0, 5.0, 2.25, 3.5]}[kdt]
        df = pl.DataFrame({"g": [1, 1, 1, 1, 1, 2, 2, 2, 2, 2], "k": kvals, "h": list(range(10)), "v": [10, 20, None, 40, 50, 60, 70, None, 90, 100]})
        rows = df.rows()
        if backend == "polars":
            t = pdt.Table(df, name="t")
        else:
            eng = sqa.create_engine("sqlite://")
            df.write_database("t", eng)
            t = pdt.Table("t", pdt.SqlAlchemy(eng))
        n, bad = 0, []

        def oracle(desc, nulls_last, part):
            out = {}
            groups = {}
            for r in rows:
                groups.setdefault(r[0] if part else 0, []).append(r)
            for grp in groups.values():
                def okey(r, tie):
                    k = r[1]
                    isnull = k is None
                    # position of nulls first, then the key (reversed for descending), then the unique tiebreak h ascending
                    return (isnull if nulls_last else not isnull, k)
                nn = [r for r in grp if r[1] is not None]
                nl = [r for r in grp if r[1] is None]
                nn_sorted = sorted(nn, key=lambda r: r[1], reverse=desc)
                # stable tiebreak by h ascending inside equal keys
                nn_sorted = sorted(nn_sorted, key=lambda r: 0)  # keep order
                buckets = []
                for r in sorted(nn, key=lambda r: r[2]):
                    pass
                ordered_keys = sorted({r[1] for r in nn}, reverse=desc)
                seq = []
                for kv in ordered_keys:
                    seq += sorted([r for r in nn if r[1] == kv], key=lambda r: r[2])
                nulls = sorted(nl, key=lambda r: r[2])
                seq = seq + nulls if nulls_last else nulls + seq
                # ranks (ties share): position of the first row with the same key
                for i, r in enumerate(seq):
                    same = [j for j, q in enumerate(seq) if q[1] == r[1] or (q[1] is None and r[1] is None)]
                    dense = len({(q[1] is None, q[1]) for q in seq[: same[0]]}) + 1
                    out[r[2]] = {"row_number": i + 1, "rank": same[0] + 1, "dense_rank": dense, "shift": seq[i - 1][3] if i >= 1 else None, "shift_neg": seq[i + 2][3] if i + 2 < len(seq) else -7,
                                 "cum_sum": (lambda vs: sum(x for x in vs if x is not None) if any(x is not None for x in vs) else None)([q[3] for q in seq[: i + 1]])}
            return out

        with warnings.catch_warnings():
            warnings.simplefilter("ignore")
            for desc in (False, True):
                for nulls_last in (False, True):
                    for part in (False, True):
                        key = t.k.descending() if desc else t.k
                        key = key.nulls_last() if nulls_last else key.nulls_first()
                        kw = {"partition_by": t.g} if part else {}
                        tie = fn_name not in ("rank", "dense_rank")
                        arrange = [key, t.h] if tie else [key]
                        e = {"row_number": lambda: pdt.row_number(arrange=arrange, **kw), "rank": lambda: pdt.rank(arrange=arrange, **kw), "dense_rank": lambda: pdt.dense_rank(arrange=arrange, **kw),
                             "shift": lambda: t.v.shift(1, arrange=arrange, **kw), "shift_neg": lambda: t.v.shift(-2, -7, arrange=arrange, **kw), "cum_sum": lambda: t.v.cum_sum(arrange=arrange, **kw)}[fn_name]
                        n += 1
                        lab = f"{fn_name}(arrange=k{'.descending()' if desc else ''}.{'nulls_last' if nulls_last else 'nulls_first'}(){', h' if tie else ''}{', partition_by=g' if part else ''}) on {backend}, key type {kdt}"
                        try:
                            out = t >> pdt.mutate(w=e()) >> pdt.export(pdt.Polars())
                        except pdt.errors.NotSupportedError:
                            continue
                        except Exception as ex:  # noqa: BLE001
                            bad.append(f"{lab}: raises {type(ex).__name__}: {str(ex)[:150]}")
                            continue
                        want = oracle(desc, nulls_last, part)
                        got = {r[2]: r[4] for r in out.rows()}
                        diff = [(h, got[h], want[h][fn_name]) for h in sorted(got) if got[h] != want[h][fn_name]]
                        if diff:
                            bad.append(f"{lab}: rows (h, engine, documented) = {diff[:5]}")
        return _enum_outcome(f"{fn_name} on {backend} (key type {kdt}): a Python oracle of the documented window semantics agrees with the engine for every flag / partition combination", n, bad)

    return run


def lib_slice_run(carve):
    """window functions after arrange >> slice_head >> alias() see exactly the sliced rows - also when the window function is
    nested inside another expression (native, Python oracle, both backends)"""
    import warnings

    import polars as pl
    import sqlalchemy as sqa

    from .c13 import _enum_outcome

    pdt = H.pdt
    vals = [5, 3, 9, 1, 7, 2, 8, 4, 6, 0]
    df = pl.DataFrame({"h": list(range(10)), "v": vals})
    eng = sqa.create_engine("sqlite://")
    df.write_database("t", eng)
    kept = list(range(2, 8))  # rows h = 2..7 after arrange(h) >> slice_head(6, offset=2)
    kv = [vals[h] for h in kept]
    order = sorted(range(len(kept)), key=lambda i: kv[i])  # window order: by v ascending
    rn = {kept[i]: r + 1 for r, i in enumerate(order)}
    sh = {kept[i]: (kv[order[r - 1]] if r >= 1 else None) for r, i in enumerate(order)}
    want = {
        "row_number": [rn[h] for h in kept], "row_number*10": [rn[h] * 10 for h in kept], "shift": [sh[h] for h in kept], "shift.fill_null(-1)": [sh[h] if sh[h] is not None else -1 for h in kept],
        "v - v.sum()": [vals[h] - sum(kv) for h in kept], "when(rn<=2)": [1 if rn[h] <= 2 else 0 for h in kept], "count()": [len(kept)] * len(kept),
    }
    n, bad = 0, []
    with warnings.catch_warnings():
        warnings.simplefilter("ignore")
        for be, t in (("polars", pdt.Table(df, name="t")), ("sqlite", pdt.Table("t", pdt.SqlAlchemy(eng)))):
            for with_alias in (True, False):
                base = t >> pdt.arrange(t.h) >> pdt.slice_head(6, offset=2)
                if with_alias:
                    base = base >> pdt.alias("s")
                x = base
                exprs = {
                    "row_number": lambda: pdt.row_number(arrange=x.v), "row_number*10": lambda: pdt.row_number(arrange=x.v) * 10, "shift": lambda: x.v.shift(1, arrange=x.v), "shift.fill_null(-1)": lambda: x.v.shift(1, arrange=x.v).fill_null(-1),
                    "v - v.sum()": lambda: x.v - x.v.sum(), "when(rn<=2)": lambda: pdt.when(pdt.row_number(arrange=x.v) <= 2).then(1).otherwise(0), "count()": lambda: pdt.count() + 0,
                }
                for name, mk in exprs.items():
                    n += 1
                    lab = f"[{be}] arrange(h) >> slice_head(6, offset=2){' >> alias()' if with_alias else ''} >> mutate(r={name})"
                    try:
                        out = x >> pdt.mutate(r=mk()) >> pdt.export(pdt.Polars())
                    except (pdt.errors.SubqueryError, pdt.errors.NotSupportedError):
                        continue
                    except Exception as ex:  # noqa: BLE001
                        bad.append(f"{lab}: raises {type(ex).__name__}: {str(ex)[:120]}")
                        continue
                    got = {r[0]: r[2] for r in out.rows()}
                    if sorted(got) != kept or [got[h] for h in kept] != want[name]:
                        bad.append(f"{lab}: rows {sorted(got)} values {[got.get(h) for h in kept]}; the window over the sliced rows {kept} gives {want[name]}")
    return _enum_outcome("window functions after slice_head (with and without alias) are computed over the sliced rows only, also when nested in another expression", n, bad)


def obligations(tier):
    fi = H.fn_info
    PB, SB = H.polars_backend, H.sql_backend
    obs = [
        Obligation("C05/W1/from_col_expr", "W1", "marker peeling: outermost descending/ascending and nulls_last/nulls_first marker wins, key is the first non-marker expression",
                   _concrete("Order.from_col_expr(chain of markers over x) == (x, outermost order marker or False, outermost nulls marker or None)", w1_check),
                   functions=[fi(Order.from_col_expr)], bounded="marker chains of depth <= 4 (all 341 chains)"),
    ]
    for dt in (Int64(), Float64(), String()):
        for desc in (False, True):
            for nl in (None, True, False):
                obs.append(Obligation(f"C05/W2/merge_desc_nulls_last/{dt}/desc={desc}/nulls_last={nl}", "W2",
                                      "rank-based emulation of descending / nulls_last orders two arbitrary rows exactly like (key, descending, nulls_last)",
                                      make_w2_run(dt, desc, nl), functions=[fi(PB.merge_desc_nulls_last)], replayer=w2_replayer(dt, desc, nl)))
    obs += [
        Obligation("C05/W2/merge_desc_nulls_last/map", "W2", "each output key depends only on the input key and flags at the same position",
                   _concrete("merge_desc_nulls_last([k1,k2],[d1,d2],[n1,n2]) == [merge(k1,d1,n1), merge(k2,d2,n2)] for all 36 flag pairs", w2_map_check),
                   functions=[fi(PB.merge_desc_nulls_last)], bounded="two keys (all flag combinations)"),
        Obligation("C05/W3/dedup_order_by", "W3", "ORDER BY de-duplication keeps the first occurrence of each key with its own modifiers (later arrange has priority, earlier breaks ties)",
                   _concrete("dedup_order_by(list) == first occurrence of every key, same objects, same order", w3_dedup_check),
                   functions=[fi(SB.dedup_order_by)], bounded="order lists of length <= 3 over 2 keys x {asc,desc} x {-,nulls_first,nulls_last}"),
        Obligation("C05/W3/compile_order", "W3", "descending / nulls_last flags become DESC/ASC and NULLS FIRST/LAST (SQL) and are passed through (Polars)",
                   _concrete("compile_order(Order(k, d, nl)) carries exactly the modifiers of (d, nl)", w3_compile_order_check),
                   functions=[fi(SB.SqlImpl.compile_order), fi(PB.compile_order)], bounded="all 6 flag combinations x {Int64, String}"),
        Obligation("C05/W4/partition_injection", "W4", "a window / aggregate-as-window function without partition_by gets exactly the grouping columns; an explicit partition_by is kept",
                   _concrete("preprocess_arg(f(...), table, agg_is_window) has partition_by == grouping columns iff (no explicit partition_by and agg_is_window)", w4_check),
                   functions=[fi(H.pdt._internal.pipe.verbs.preprocess_arg)], bounded="all window/aggregate operators x {ungrouped, 1, 2 grouping columns} on one fixed table"),
        Obligation("C05/W5/polars_window_shape", "W5", "Polars window compilation sorts the argument, applies the function and restores the order with the inverse permutation, or uses over(partition, order_by=merged keys)",
                   _concrete("compile_col_expr(window fn) has the order-restoring shape with identical keys/flags in both sort_by calls", w5_check),
                   functions=[fi(PB.compile_col_expr), fi(PB.merge_desc_nulls_last)], bounded="window ops x partition/arrange x 16 flag pairs, two order keys"),
        Obligation("C05/W5/restore_lemma", "W5", "lemma: sorting by the sorted row index restores the original row order", make_w5_lemma_run(), functions=[]),
        Obligation("C05/W6/sql_window_shape", "W6", "SQL window compilation builds OVER (PARTITION BY partition cols ORDER BY arrange keys with their flags)",
                   _concrete("SqliteImpl.compile_col_expr(window fn) == fn OVER (PARTITION BY g ORDER BY compile_order(o) for o in arrange)", w6_check),
                   functions=[fi(SB.SqlImpl.compile_col_expr), fi(SB.SqlImpl.compile_order), fi(SB.dedup_order_by)], bounded="window ops x partition x 9 flag pairs, two order keys"),
    ]
    for backend in ("polars", "sqlite"):
        f = H.impl_function({"polars": PB.PolarsImpl, "sqlite": H.sqlite_backend.SqliteImpl}[backend], ops.shift, (Int64(), H.types_mod.Const(Int64()), H.types_mod.Const(Int64())))
        obs.append(Obligation(f"C05/W6/shift/{backend}", "W6", "shift(n) reads the row n positions earlier for every (symbolic) n", make_shift_run(backend), functions=[fi(f)] if f else []))
        if backend == "polars":
            from . import c16

            obs.append(Obligation("C05/W7/order_across_subquery", "W7", "the order fixed by arrange survives alias() / a SQL subquery: kept by the outer query, tie breaker of a later arrange, default order of later window functions (native, vs Polars)",
                                  c16._conc("pipelines with an arrange before alias() give the same row sequence on SQLite as on Polars", c16.x9_check), functions=[fi(SB.SqlImpl.compile_ast)], bounded="7 pipelines x 2 backends on one 6-row table", tags=("cross_backend",)))
            obs.append(Obligation("C05/LIB/after_slice", "LIB", "window functions after slice_head see the sliced rows (also nested in other expressions)", lib_slice_run, functions=[fi(H.pdt._internal.pipe.cache.Cache.requires_subquery), fi(SB.SqlImpl.compile_ast)],
                                  bounded="7 window expressions (3 nested) x with / without alias x 2 backends on one 10-row table", tags=("cross_backend",)))
        for fn_name in ("row_number", "rank", "dense_rank", "shift", "shift_neg", "cum_sum"):
            for kdt in ("int", "str", "float"):
                obs.append(Obligation(f"C05/LIB/{fn_name}/{backend}/{kdt}", "LIB", f"{fn_name} on {backend}: Python oracle of the documented window semantics vs the real engine", make_lib(backend, fn_name, kdt),
                                      functions=[fi(PB.compile_col_expr), fi(PB.merge_desc_nulls_last)] if backend == "polars" else [fi(SB.SqlImpl.compile_col_expr), fi(SB.SqlImpl.compile_order)],
                                      bounded="one 10-row table with nulls, ties and two partitions; 8 flag / partition combinations; native execution", tags=("cross_backend",)))
    return obs


DESIGN_REF = "DESIGN.md §5.5"
ASSUMPTIONS = [
    "polars rank('dense') model: null for null keys, values in 1..len, strictly monotone in the key; polars sorts an integer key ascending; over(order_by=) and sort_by order rows by the given keys (T-lib)",
    "SQL window semantics: OVER (PARTITION BY .. ORDER BY ..) evaluates the function per partition in the given order; LAG/LEAD offsets (T-lib)",
    "a partition / frame has fewer than 2^40 rows (so len + 1 does not overflow Int64)",
    "null position when neither nulls_first nor nulls_last is given, and ties in the window order, are outside the property (DESIGN §4)",
    "W7 (window functions see exactly the rows present at that point: interaction with filter / slice_head on SQL) is decided by C08's placement obligations",
    "the Arrange verb branches of compile_ast (stable sort, ORDER BY prepending) are decided with the table-level obligations of C02",
]
