"""C02 - single-table row-level verbs compute their documented meaning.

Inductive step on abstract tables (bounded width, symbolic names).  The frame model keeps, per physical
column, the data token it holds and, per frame, the history of row-level operations.  For every verb:

  V1  verb -> node: select keeps call order; drop = select of the complement; mutate evaluates every
      keyword against the INPUT table and allocates one fresh uuid per keyword; filter keeps the
      predicate list; slice_head stores (n, offset); group_by/ungroup/alias carry no data expression
  V2  Polars branch = documented meaning: select/drop/rename/group_by/ungroup/alias apply NO row operation and
      change no column data; mutate adds columns whose tokens are the expressions over PRE-state data (also
      when an earlier keyword of the same call overwrites the referenced column); filter applies exactly the
      given predicates (over pre-state data) and nothing else; arrange is a stable sort by the given keys/flags;
      slice_head(n, offset=k) is slice(k, n)
  V3  SQL branch: filter -> WHERE (HAVING when aggregated) conjunction appended; mutate adds labelled expressions
      over pre-state columns and drops overwritten names from the select list; arrange prepends its keys;
      slice_head composes LIMIT/OFFSET (C08/S6); select/rename only touch the select list / labels
  V4  composition: by induction over the verb chain (V2/V3 are proved for an arbitrary pre-state)
"""

from __future__ import annotations

import itertools

import z3

from .. import core, plmodel, sqlmodel
from .. import harness as H
from .. import tablestep as TS
from ..oblig import VC, Obligation, Outcome
from ..symname import SymName, name_eq
from . import c09, c11
from .c11 import col_of

pdt = H.pdt
VT = TS.verbs_tree
verbs_mod = pdt._internal.pipe.verbs


def S(pre, i):
    return pre.token(i)


def steps(pre):
    """(label, fn, expect) ; expect = dict(hist=<expected appended polars row ops> | None, new=<{kwarg: token}>, sql=...)"""
    w = pre.skel.w
    v0 = pre.vis[0]
    other = (v0 + 1) % w
    K = lambda P, i: col_of(P[0], i)  # noqa: E731
    out = []
    out.append(("select", lambda P, T: T[0] >> pdt.select(*[K(P, i) for i in reversed(P[0].vis)]), dict(hist=())))
    out.append(("select_old_handles", lambda P, T: T[0] >> pdt.select(*[c11.old_col_of(P[0], i) for i in reversed(P[0].vis)]), dict(hist=())))
    if len(pre.vis) > 1:
        out.append(("drop", lambda P, T: T[0] >> pdt.drop(K(P, P[0].vis[0])), dict(hist=(), drop=True)))
    out.append(("rename", lambda P, T: T[0] >> pdt.rename({P[0].phys[v0]: P[0].nn("r0")}), dict(hist=())))
    out.append(("group_by", lambda P, T: T[0] >> pdt.group_by(K(P, v0)), dict(hist=())))
    out.append(("group_by_add", lambda P, T: T[0] >> pdt.group_by(K(P, v0), add=True), dict(hist=())))
    out.append(("ungroup", lambda P, T: T[0] >> pdt.ungroup(), dict(hist=())))
    out.append(("alias", lambda P, T: T[0] >> pdt.alias(keep_col_refs=True), dict(hist=())))
    out.append(("mutate1", lambda P, T: T[0] >> pdt.mutate(**{P[0].nn("k0"): K(P, v0) + K(P, other)}), dict(hist=(), new={"k0": ("+", S(pre, v0), S(pre, other))})))
    out.append(("mutate2_prestate", lambda P, T: T[0] >> pdt.mutate(**{P[0].nn("k0"): K(P, v0) + 1, P[0].nn("k1"): K(P, v0) * 2}),
                dict(hist=(), new={"k0": ("+", S(pre, v0), ("lit", 1)), "k1": ("*", S(pre, v0), ("lit", 2))})))
    out.append(("filter2", lambda P, T: T[0] >> pdt.filter(K(P, v0) > 0, K(P, other) < K(P, v0)),
                dict(hist=(("filter", ((">", S(pre, v0), ("lit", 0)), ("<", S(pre, other), S(pre, v0)))),), where=2)))
    out.append(("arrange", lambda P, T: T[0] >> pdt.arrange(K(P, v0).descending().nulls_last(), K(P, other)),
                dict(hist=(("sort", (S(pre, v0), S(pre, other)), (True, False), (True, False), True),), order=[(v0, True, True), (other, False, None)])))
    if not pre.grp:
        out.append(("slice_head", lambda P, T: T[0] >> pdt.slice_head(3, offset=2), dict(hist=(("slice", 2, 3),), limit=(3, 2))))
    return out


def make_run(skel, label, fn, expect, backend):
    def run(carve):
        plmodel.reset_state()
        pre = TS.Pre(skel)
        kw = {"t": dict(where=[col_of(pre, pre.vis[0]) > 5], order_by=[H.col_expr_mod.Order(col_of(pre, pre.vis[0]), False, None)])} if backend == "sql" else None
        paths, wit = TS.explore_step([pre], fn, backend, sql_state_kw=kw)
        vc = VC(f"[{skel}] {label} on {backend}: exactly the documented row operation; new columns computed from pre-state data; other data untouched")
        tok_pre = {u: pre.token(i) for i, u in enumerate(pre.uuids)}
        for p in paths:
            vc.paths += 1
            if p.kind == "exc":
                vc.require(p.pc, z3.BoolVal(False), f"an accepted verb makes the {backend} compilation fail: {type(p.value).__name__}: {str(p.value)[:200]}", wit)
                continue
            if p.value[0] == "rejected":
                vc.queries += 1
                continue
            _, new, state, aux, tables, _pr = p.value
            node = new._ast
            # V1
            if label in ("select", "select_old_handles"):
                vc.require(p.pc, z3.BoolVal(isinstance(node, VT.Select) and [c._uuid for c in node.select] == [pre.uuids[i] for i in reversed(pre.vis)]), "V1: Select node does not hold the resolved columns in call order", wit)
                # the selected columns keep their CURRENT names (also when selected through a handle that carries an older name)
                vc.require(p.pc, TS.seq_eq(list(new._cache.name_to_uuid.keys()), [pre.phys[i] for i in reversed(pre.vis)]), "V1: select changed the name of a column", wit)
            if label == "drop":
                vc.require(p.pc, z3.BoolVal(isinstance(node, VT.Select) and [c._uuid for c in node.select] == [pre.uuids[i] for i in pre.vis[1:]]), "V1: drop is not the select of the complement in table order", wit)
            if label.startswith("mutate"):
                ok = isinstance(node, VT.Mutate) and len(node.names) == len(node.values) == len(node.uuids) and 1 <= len(node.names) <= len(expect["new"]) and len(set(node.uuids)) == len(node.uuids) and not (set(node.uuids) & set(pre.uuids))
                vc.require(p.pc, z3.BoolVal(bool(ok)), "V1: Mutate node must hold parallel names / values / fresh distinct uuids", wit)
            if label == "slice_head":
                vc.require(p.pc, z3.BoolVal(isinstance(node, VT.SliceHead) and (node.n, node.offset) == (3, 2)), "V1: SliceHead(n, offset)", wit)
            if label in ("group_by", "group_by_add"):
                # documented: group_by replaces the grouping unless add=True, which appends to it
                old = [pre.uuids[i] for i in pre.grp]
                want = old if label == "group_by_add" else []
                want = want + [u for u in [pre.uuids[pre.vis[0]]] if u not in want]  # "added to the SET of grouping columns": a column is a grouping column at most once
                vc.require(p.pc, z3.BoolVal(isinstance(node, VT.GroupBy) and node.add is (label == "group_by_add") and list(new._cache.partition_by) == want),
                           f"V1: grouping after {label} is {list(new._cache.partition_by)}; documented: {'the old grouping followed by' if label == 'group_by_add' else 'exactly'} the given columns", wit)
            if label == "ungroup":
                vc.require(p.pc, z3.BoolVal(list(new._cache.partition_by) == []), "V1: ungroup leaves a grouping", wit)
            if backend == "polars":
                df, name_in_df, select, part = state
                vc.require(p.pc, z3.BoolVal(df.hist == expect["hist"]), f"V2: row operations applied {df.hist}, documented {expect['hist']}", wit)
                for u in new._cache.cols:
                    pn, held = aux["lookup"].get(u, (None, None))
                    if u in tok_pre:
                        vc.require(p.pc, z3.BoolVal(held == tok_pre[u]), f"V2: data of a pre-existing column changed: {held} != {tok_pre[u]}", wit)
                if "new" in expect:
                    for k, (name, uid) in enumerate(zip(node.names, node.uuids)):
                        wants = list(expect["new"].values())
                        want = wants[k] if len(node.names) == len(wants) else wants[-1]  # equal keyword names collapse: the last value wins
                        pn, held = aux["lookup"].get(uid, (None, None))
                        vc.require(p.pc, z3.BoolVal(held == want), f"V2: new column #{k} holds {held}; documented: the expression over the table as it was before the call: {want}", wit)
            else:
                table, q, sqa_expr = state
                pre_where, pre_order = 1, 1
                if "where" in expect:
                    ok = len(q.where) == pre_where + expect["where"] and not q.having and all(a is b for a, b in zip(q.where[pre_where:], node.predicates))
                    vc.require(p.pc, z3.BoolVal(bool(ok)), f"V3: WHERE must be the old conjunction plus exactly the new predicates (has {len(q.where)} terms)", wit)
                else:
                    vc.require(p.pc, z3.BoolVal(len(q.where) == pre_where and not q.having), "V3: WHERE / HAVING changed by a verb that does not filter", wit)
                if "order" in expect:
                    ok = len(q.order_by) == pre_order + len(expect["order"]) and all(o.order_by._uuid == pre.uuids[i] and o.descending is d and o.nulls_last is nl for o, (i, d, nl) in zip(q.order_by, expect["order"]))
                    vc.require(p.pc, z3.BoolVal(bool(ok)), "V3: ORDER BY must be the new keys (with their flags) followed by the old ones", wit)
                else:
                    vc.require(p.pc, z3.BoolVal(len(q.order_by) == pre_order), "V3: ORDER BY changed by a verb that does not sort", wit)
                if "limit" in expect:
                    vc.require(p.pc, z3.BoolVal((q.limit, q.offset) == expect["limit"]), f"V3: LIMIT/OFFSET {(q.limit, q.offset)}", wit)
                else:
                    vc.require(p.pc, z3.BoolVal(q.limit is None), "V3: a LIMIT appeared", wit)
                for u in new._cache.cols:
                    if u in tok_pre and u in sqa_expr:
                        vc.require(p.pc, z3.BoolVal(c09.token_of_sql(sqa_expr[u]) == tok_pre[u]), "V3: a pre-existing column now refers to another expression", wit)
                if "new" in expect:
                    for k, uid in enumerate(node.uuids):
                        e = sqa_expr.get(uid)
                        wants = list(expect["new"].values())
                        want = wants[k] if len(node.uuids) == len(wants) else wants[-1]
                        got = sql_token(e)
                        vc.require(p.pc, z3.BoolVal(got == want), f"V3: new column #{k} is {got}; documented: the expression over the pre-state columns: {want}", wit)
        return vc.outcome()

    return run


def sql_token(e):
    """operator tree of a SQL expression with base columns replaced by their tokens"""
    if not isinstance(e, sqlmodel.SX):
        return e
    if e.kind in ("label", "type_coerce"):
        return sql_token(e.args[1] if e.kind == "label" else e.args[0])
    if e.kind == "column":
        return getattr(e, "token", ("col", e.args[0]))
    if e.kind == "literal":
        return ("lit", e.args[0])
    if e.kind == "bin":
        return (e.args[0], sql_token(e.args[1]), sql_token(e.args[2]))
    return (e.kind,) + tuple(sql_token(a) for a in e.args)


def v7_run(carve):
    """a composition of verbs (with or without a table on its left: `t >> v1 >> v2`, `p = v1 >> v2; t >> p`, `t >> (v1 >> v2) >> v3`,
    a prefix that is extended twice and used again) is the composition of their meanings - against a row-by-row Python oracle
    on both backends"""
    import warnings

    import polars as pl
    import sqlalchemy as sqa

    from .c13 import _enum_outcome

    C = pdt.C
    data = {"a": [1, 2, None, 4, 2], "b": [10, 20, 30, None, 50]}
    df = pl.DataFrame(data)
    eng = sqa.create_engine("sqlite://")
    df.write_database("t", eng)
    rows0 = [dict(zip(data, r)) for r in zip(*data.values())]

    # (verb factory, oracle on a list of dicts)
    def o_mut(rs):
        return [{**r, "x": None if r["a"] is None else r["a"] + 1} for r in rs]

    def o_fil(rs):
        return [r for r in rs if r.get("x") is not None and r["x"] > 2]

    def o_sel(rs):
        return [{"x": r["x"], "b": r["b"]} for r in rs]

    def o_mut2(rs):
        return [{**r, "y": None if r["b"] is None else r["b"] * 2} for r in rs]

    V = {
        "mut": (lambda: pdt.mutate(x=C.a + 1), o_mut), "fil": (lambda: pdt.filter(C.x > 2), o_fil), "sel": (lambda: pdt.select(C.x, C.b), o_sel), "mut2": (lambda: pdt.mutate(y=C.b * 2), o_mut2),
    }
    n, bad = 0, []

    def rows_of(tbl):
        out = tbl >> pdt.export(pdt.Polars())
        return [dict(zip(out.columns, r)) for r in out.rows()]

    def key(rs):
        return sorted((tuple(r.items()) for r in rs), key=str)

    def expect(label, tbl_fn, names):
        nonlocal n
        n += 1
        want = rows0
        for nm in names:
            want = V[nm][1](want)
        try:
            got = rows_of(tbl_fn())
        except Exception as e:  # noqa: BLE001
            bad.append(f"{label}: raises {type(e).__name__}: {str(e)[:100]}")
            return
        if key(got) != key(want) or (got and list(got[0]) != list(want[0])):
            bad.append(f"{label}: {got}; row-by-row evaluation of {' >> '.join(names)} gives {want}")

    with warnings.catch_warnings():
        warnings.simplefilter("ignore")
        for be in ("polars", "sqlite"):
            mk = (lambda: pdt.Table(df, name="t")) if be == "polars" else (lambda: pdt.Table("t", pdt.SqlAlchemy(eng)))
            L = f"[{be}] "
            v = {k: f() for k, (f, _) in V.items()}
            expect(L + "t >> mut >> fil >> sel", lambda: mk() >> v["mut"] >> v["fil"] >> v["sel"], ["mut", "fil", "sel"])
            p = v["mut"] >> v["fil"]  # no table on the left
            expect(L + "p = mut >> fil; t >> p", lambda: mk() >> p, ["mut", "fil"])
            q = p >> v["sel"]
            r = p >> v["mut2"]
            expect(L + "q = p >> sel; t >> q", lambda: mk() >> q, ["mut", "fil", "sel"])
            expect(L + "r = p >> mut2; t >> r", lambda: mk() >> r, ["mut", "fil", "mut2"])
            expect(L + "t >> p (after p was extended twice)", lambda: mk() >> p, ["mut", "fil"])
            expect(L + "t >> mut (after mut was the head of compositions)", lambda: mk() >> v["mut"], ["mut"])
            expect(L + "t >> (mut >> fil) >> mut2", lambda: mk() >> (v["mut"] >> v["fil"]) >> v["mut2"], ["mut", "fil", "mut2"])
            expect(L + "t >> q twice (second use)", lambda: mk() >> q, ["mut", "fil", "sel"])
            w = v["mut2"] >> (v["mut"] >> v["fil"])
            expect(L + "w = mut2 >> (mut >> fil); t >> w", lambda: mk() >> w, ["mut2", "mut", "fil"])
            expect(L + "t >> mut >> fil (components reused after all compositions)", lambda: mk() >> v["mut"] >> v["fil"], ["mut", "fil"])
    return _enum_outcome("compositions of verbs, pre-composed or not, reused or not, compute the composition of the verbs' documented meanings", n, bad)


def v1d_run(carve):
    """documented default arguments of the verbs (the implementation's defaults, not only those of the @overload stubs)"""
    import polars as pl

    from .c13 import _enum_outcome

    n, bad = 0, []
    t = pdt.Table(pl.DataFrame({"a": [1, 2, 3], "b": [4, 5, 6]}), name="t")
    u = pdt.Table(pl.DataFrame({"a": [7], "b": [8]}), name="u")

    def chk(label, cond, got):
        nonlocal n
        n += 1
        if not cond:
            bad.append(f"{label}: got {got}")

    nd = (t >> pdt.slice_head(2))._ast
    chk("slice_head(n) has offset 0", (nd.n, nd.offset) == (2, 0), (nd.n, nd.offset))
    g = t >> pdt.group_by(t.a) >> pdt.group_by(t.b)
    chk("group_by replaces the grouping by default", [t._cache.uuid_to_name.get(x) for x in g._cache.partition_by] == ["b"], g._cache.partition_by)
    un = (t >> pdt.union(u))._ast
    chk("union keeps duplicates by default (UNION ALL)", un.distinct is False, un.distinct)
    j = (t >> pdt.join(u, t.a == u.a, "inner"))
    chk("join validates m:m by default and derives the suffix from the right table's name", j._ast.validate == "m:m" and [c.name for c in j] == ["a", "b", "a_u", "b_u"], (j._ast.validate, [c.name for c in j]))
    al = t >> pdt.alias("x")
    chk("alias() gives fresh column identities by default", al._ast.uuid_map is not None and all(c._uuid not in t._cache.cols for c in al), al._ast.uuid_map)
    co = t >> pdt.mutate(c=t.a + 1) >> pdt.collect()
    chk("collect() keeps the column references by default", t.a._uuid in co._cache.cols, list(co._cache.cols))
    ex = t >> pdt.export(pdt.Polars())
    chk("export(Polars()) is eager by default", isinstance(ex, pl.DataFrame), type(ex).__name__)
    ca = t.a.cast(pdt.Float64())
    chk("cast is strict by default", ca.strict is True, ca.strict)
    sh = t.a.shift(1, arrange=t.b)
    chk("shift fills with null by default", len(sh.args) == 3 and sh.args[2].val is None, [getattr(a, "val", a) for a in sh.args])
    o = H.col_expr_mod.Order.from_col_expr(t.a)
    chk("arrange is ascending with unspecified null position by default", (o.descending, o.nulls_last) == (False, None), (o.descending, o.nulls_last))
    return _enum_outcome("documented default arguments of the verbs and expression methods", n, bad)


def obligations(tier):
    fi = H.fn_info
    fns = [fi(getattr(verbs_mod, n)) for n in ("select", "drop", "rename", "mutate", "filter", "arrange", "slice_head", "group_by", "ungroup", "alias", "preprocess_arg")]
    fns_p = fns + [fi(H.polars_backend.compile_ast), fi(H.polars_backend.rename_overwritten_cols), fi(H.polars_backend.compile_col_expr)]
    fns_s = fns + [fi(H.sql_backend.SqlImpl.compile_ast), fi(H.sql_backend.SqlImpl.compile_col_expr)]
    obs = []
    for skel in [TS.Skeleton(c) for c in (("vis", "vis"), ("vis", "hid"), ("hid", "vis", "vis"), ("grp", "vis"), ("vis", "grp", "hid"))]:
        for label, fn, expect in steps(TS.Pre(skel)):
            for backend, f in (("polars", fns_p), ("sql", fns_s)):
                obs.append(Obligation(f"C02/V/{backend}/{skel}/{label}", "V1+V2" if backend == "polars" else "V1+V3", f"{label} on {skel} ({backend}) computes its documented meaning", make_run(skel, label, fn, expect, backend),
                                      functions=f, bounded=f"table width {skel.w} (names symbolic)", tags=("cross_backend",)))
    from . import c08

    # V3/slice: LIMIT/OFFSET composition for symbolic n / offsets (the same VC as C08/S6, stated here for slice_head's own meaning)
    obs.append(Obligation("C02/V3/slice_compose/sql", "V3", "slice_head after slice_head on SQL selects rows [O+k, O+k+min(n, max(L-k,0))) for all L, O, n, k", c08.make_s6("sql"), functions=[H.fn_info(H.sql_backend.SqlImpl.compile_ast)], replayer=c08.replay_s6))
    obs.append(Obligation("C02/V2/slice_compose/polars", "V2", "Polars applies slice(offset, n) to the current frame", c08.make_s6("polars"), functions=[H.fn_info(H.polars_backend.compile_ast)]))
    from . import c03

    obs.append(Obligation("C02/V8/narrow_columns", "V8", "mutate over Int8 / Int32 / UInt16 / Float32 columns (with columns and Python literals) computes the values it computes on the widened data (native Polars)", c03.narrow_types_run,
                          functions=[H.fn_info(H.polars_backend.compile_col_expr)], bounded="every element-wise operator x signatures of arity <= 2 with a narrow column on one 3-row frame"))
    from . import c16

    obs.append(Obligation("C02/V9/verbs_across_subquery", "V9", "rename / mutate / filter after a sliced alias() (SQL subquery) through table-bound references: same table as on Polars (= C16/X9)", c16._conc("pipelines with alias() give the same table on SQLite as on Polars", c16.x9_check),
                          functions=[H.fn_info(pdt._internal.pipe.pipeable.check_subquery)], bounded="15 pipelines x 2 backends on one 6-row table"))
    obs.append(Obligation("C02/V7/compositions", "V7", "pre-composed and reused verb compositions against a row-by-row oracle (native, both engines)", v7_run,
                          functions=[H.fn_info(pdt._internal.pipe.pipeable.Pipeable.__rshift__), H.fn_info(pdt._internal.pipe.pipeable.Pipeable.__call__)], bounded="10 compositions of 4 verbs x 2 backends on one 5-row table"))
    obs.append(Obligation("C02/V1d/defaults", "V1", "documented default arguments (offset=0, add=False, distinct=False, validate='m:m', fresh uuids after alias, collect keeps references, strict casts, null fill)", v1d_run,
                          functions=[H.fn_info(getattr(verbs_mod, n)) for n in ("slice_head", "group_by", "union", "join", "alias", "collect", "export")], bounded="one call per default (the default is a property of the signature, not of the data)"))
    return obs


DESIGN_REF = "DESIGN.md §5.2"
ASSUMPTIONS = c11.ASSUMPTIONS + [
    "LazyFrame axioms: filter keeps the rows where all predicates are true (null = not true); sort(maintain_order=True) is stable; slice(k, n) keeps rows k..k+n-1; with_columns evaluates against the input frame",
    "the SQL clause model (WHERE conjunction, ORDER BY list, LIMIT/OFFSET) gives these lists their standard meaning; whether a verb may be folded at all is C08's obligation",
    "the value of each expression is C03/C04/C05's obligation; here expressions are compared as operator trees over pre-state data tokens",
]
LEVEL = "other"
EXPLANATION = c11.EXPLANATION.replace("discharges the invariants for the post-state", "discharges that exactly the documented row operation was applied and that new columns are the given expressions over pre-state data")
