"""C19 - every accepted pipeline compiles on every SQL dialect.

The dialect objects and SQL compilers are the real SQLAlchemy ones; engines are constructed offline with stand-in
DBAPI modules (pdtv/fakedrivers.py) - nothing connects.  DuckDB / DB2 are skipped when not importable.

  B1  impl lookup is total: every operator x accepted signature x backend (Polars, SQLite, PostgreSQL, SQL Server):
      get_impl returns a callable or raises NotSupportedError
  B2  every @impl function returns on every path (static definite-return analysis of the real source), and the
      expression ColFn(op, args) used in a one-verb pipeline compiles: build_query returns one SELECT string or
      raises NotSupportedError / SubqueryError - never an internal error      [op x signature x dialect, native]
  B3  a family of multi-verb pipelines (subqueries through alias, joins, unions, grouping, windows, casts, case,
      slices) builds on every dialect without internal error
  B4  determinism: building the same pipeline twice, and building it again from freshly constructed tables (all
      uuids different), gives the same text; no uuid / hash order leaks into the SQL
  B5  MSSQL rewrites (convert_bool_bit, order list) are total over the expression classes used in B2/B3
"""

from __future__ import annotations

import ast
import inspect
import itertools
import re
import textwrap
import warnings

from .. import fakedrivers
from .. import harness as H
from .. import typeuniverse as TU
from ..oblig import Obligation, Outcome
from .c13 import _enum_outcome, _fmt, _rt

pdt = H.pdt
T = H.types_mod
E = pdt.errors
OK_ERRORS = (E.NotSupportedError, E.SubqueryError)


def sa_type(dt):
    import sqlalchemy as sa

    return T.without_const(dt).to_sql()


COLS = None


def dialect_tables():
    """per dialect: a source table with one column per base type of the universe (no connection is made)"""
    import sqlalchemy as sa

    from pydiverse.common import Bool, Date, Datetime, Decimal, Duration, Float32, Float64, Int8, Int16, Int32, Int64, String, Time

    types = {"i64": Int64(), "i32": Int32(), "i8": Int8(), "f64": Float64(), "f32": Float32(), "dec": Decimal(10, 2), "s": String(), "b": Bool(), "d": Date(), "dt": Datetime(), "tm": Time(), "dur": Duration(),
             "i64b": Int64(), "f64b": Float64(), "sb": String(), "bb": Bool(), "db": Date(), "dtb": Datetime(), "durb": Duration(), "tmb": Time()}
    out = {}
    for name, eng in fakedrivers.engines().items():
        def mk(tname, eng=eng):  # bind the engine of THIS dialect (a late-binding closure would use the last one for all)
            md = sa.MetaData()
            tb = sa.Table(tname, md, *[sa.Column(c, sa_type(t)) for c, t in types.items()])
            return pdt.Table(tb, pdt.SqlAlchemy(eng))

        out[name] = mk
    return out, types


def col_for(t, dt, types, second=False):
    """a column of table t whose pdt type matches dt's family"""
    base = T.without_const(dt)
    fam = TU.family(base)
    pick = {"int": "i64", "float": "f64", "string": "s", "bool": "b", "date": "d", "datetime": "dt", "time": "tm", "duration": "dur"}.get(fam)
    if pick is None:
        return None
    exact = [c for c, ty in types.items() if type(ty) is type(base) and not c.endswith("b")]
    name = exact[0] if exact else pick
    if second:
        name = {"i64": "i64b", "f64": "f64b", "s": "sb", "b": "bb", "d": "db", "dt": "dtb", "dur": "durb", "tm": "tmb"}.get(name, name)
    return t[name]


LIT = {"int": 2, "float": 1.5, "string": "a%_'b", "bool": True}


def build_args(t, sig, types):
    import datetime

    args = []
    seen = {}
    for p in sig:
        fam = TU.family(p)
        if T.is_const(p):
            if fam == "nulltype":
                args.append(None)
            elif fam in LIT:
                args.append(LIT[fam])
            elif fam == "date":
                args.append(datetime.date(2020, 1, 2))
            elif fam == "datetime":
                args.append(datetime.datetime(2020, 1, 2, 3, 4, 5))
            elif fam == "time":
                args.append(datetime.time(3, 4, 5))
            elif fam == "duration":
                args.append(datetime.timedelta(days=1))
            else:
                return None
        else:
            c = col_for(t, p, types, second=seen.get(fam, 0) > 0)
            if c is None:
                return None
            seen[fam] = seen.get(fam, 0) + 1
            args.append(c)
    return args


def sig_universe(op):
    """accepted signatures over a reduced universe: one representative per family, plain and const"""
    from pydiverse.common import Bool, Date, Datetime, Duration, Float64, Int64, NullType, String, Time

    base = [Int64(), Float64(), String(), Bool(), Date(), Datetime(), Time(), Duration()]
    U = base + [T.Const(b) for b in base] + [T.Const(NullType())]
    for n in TU.arities(op):
        for sig in itertools.product(U, repeat=n) if n <= 3 else itertools.product(TU.core_types(op), repeat=n):
            if n > 0 and all(TU.is_null_typed(x) for x in sig):
                continue
            if n >= 3 and sum(1 for x in sig if T.is_const(x)) < 1 and not any(s.is_vararg for s in op.signatures):
                pass
            st, _ = _rt(op, sig)
            if st == "ok":
                yield sig


def make_b2_dialect(dname):
    def run(carve):
        n, bad = 0, []
        with warnings.catch_warnings():
            warnings.simplefilter("ignore")
            mk, types = dialect_tables()
            t = mk[dname]("t")
            for opname, op in H.ALL_OPS.items():
                if isinstance(op, pdt._internal.ops.ops.markers.Marker):
                    continue
                for sig in sig_universe(op):
                    if "duration_literal" in carve and any(T.is_const(x) and TU.family(x) == "duration" for x in sig):
                        continue
                    if "null_const_param" in carve:
                        m = op.trie.best_match(list(sig))
                        if m is not None and any(T.is_const(p) and TU.is_null_typed(a) for a, p in zip(sig, m[0], strict=False)):
                            continue
                    if "str_to_datetime_literal" in carve and opname in ("str_to_datetime", "str_to_date") and T.is_const(sig[0]):
                        continue
                    args = build_args(t, sig, types)
                    if args is None:
                        continue
                    # a const parameter also accepts a constant EXPRESSION (the type system says so): lit(v) + 0 / lit(s) + ""
                    m_ = op.trie.best_match(list(sig))
                    if "const_expr_param" not in carve and m_ is not None and op.ftype == H.Ftype.ELEMENT_WISE and any(T.is_const(prm) and TU.family(a) in ("int", "float", "string") for a, prm in zip(sig, m_[0], strict=False)):
                        cargs = [((pdt.lit(a) + ("" if isinstance(a, str) else 0)) if (T.is_const(prm) and TU.family(sg) in ("int", "float", "string") and a is not None) else a) for a, sg, prm in zip(args, sig, m_[0], strict=False)]
                        n += 1
                        try:
                            q = t >> pdt.mutate(r=H.ColFn(op, *cargs)) >> pdt.build_query()
                            if not isinstance(q, str):
                                bad.append(f"{dname}: {opname}{_fmt(sig)} [constant expressions for the const parameters]: build_query returned {q!r:.60}")
                        except OK_ERRORS:
                            pass
                        except (pdt.errors.DataTypeError, pdt.errors.FunctionTypeError):
                            pass  # rejected when built: fine
                        except Exception as ex:  # noqa: BLE001
                            bad.append(f"{dname}: {opname}{_fmt(sig)} [constant expressions for the const parameters]: {type(ex).__name__}: {str(ex)[:120]}")
                    # every accepted combination of the context keyword arguments (arrange= / partition_by= / filter=) the operator declares
                    ctx_names = [k.name for k in (op.context_kwargs or [])]
                    variants = [{}]
                    if op.ftype == H.Ftype.WINDOW:
                        variants = [{"arrange": [t.i64]}, {"arrange": [t.i64.descending().nulls_last(), t.s], "partition_by": [t.b]}]
                    elif op.ftype == H.Ftype.AGGREGATE:
                        if "arrange" in ctx_names:
                            variants.append({"arrange": [t.i64]})
                            variants.append({"arrange": [t.s.descending()], "filter": t.b})
                        if "filter" in ctx_names:
                            variants.append({"filter": t.b})
                        if "partition_by" in ctx_names:
                            variants.append({"partition_by": [t.b]})
                    for kw in variants:
                        n += 1
                        vlab = ("{" + ",".join(sorted(kw)) + "}") if kw else ""
                        try:
                            e = H.ColFn(op, *args, **kw)
                            if op.ftype == H.Ftype.AGGREGATE and "partition_by" not in kw:
                                q = t >> pdt.group_by(t.i8) >> pdt.summarize(r=e) >> pdt.build_query()
                                q2 = t >> pdt.mutate(r=e) >> pdt.build_query()
                            else:
                                q = t >> pdt.mutate(r=e) >> pdt.build_query()
                                q2 = q
                            if not (isinstance(q, str) and q.lstrip().upper().startswith("SELECT") and isinstance(q2, str)):
                                bad.append(f"{dname}: {opname}{_fmt(sig)}{vlab}: build_query returned {q!r:.80}")
                        except OK_ERRORS:
                            pass
                        except (pdt.errors.DataTypeError, pdt.errors.FunctionTypeError, TypeError) as ex:
                            if not kw:
                                bad.append(f"{dname}: {opname}{_fmt(sig)}: {type(ex).__name__}: {str(ex)[:140]}")
                        except Exception as ex:  # noqa: BLE001
                            bad.append(f"{dname}: {opname}{_fmt(sig)}{vlab}: {type(ex).__name__}: {str(ex)[:140]}")
        return _enum_outcome(f"{dname}: every operator x accepted signature compiles in a one-verb pipeline (SELECT text or NotSupportedError / SubqueryError)", n, bad)

    return run


PIPELINES = {
    "filter_mutate_select": lambda t, u: t >> pdt.filter(t.i64 > 1, t.s.str.starts_with("a%")) >> pdt.mutate(x=t.i64 * 2 + t.i32, y=t.b & (t.f64 > 0.5)) >> pdt.select(t.s, pdt.C.x, pdt.C.y),
    "case_cast_null": lambda t, u: t >> pdt.mutate(c=pdt.when(t.b).then(t.i64).when(t.f64.is_null()).then(None).otherwise(t.i32), k=t.f64.cast(pdt.Int64()), n=t.s.cast(pdt.Float64()), q=pdt.lit(None)),
    "group_summarize_having": lambda t, u: t >> pdt.group_by(t.s, t.b) >> pdt.summarize(n=pdt.count(), m=t.f64.mean(), a=t.b.any(), j=t.s.str.join(", ")) >> pdt.filter(pdt.C.n > 1) >> pdt.arrange(pdt.C.m.descending().nulls_last()),
    "window": lambda t, u: t >> pdt.mutate(r=pdt.row_number(arrange=[t.i64.descending(), t.s]), sh=t.f64.shift(1, arrange=t.i64, partition_by=t.b), cs=t.i64.cum_sum(arrange=t.d), rk=pdt.rank(arrange=t.s.nulls_first())),
    "grouped_window": lambda t, u: t >> pdt.group_by(t.b) >> pdt.mutate(s=t.i64.sum(), r=pdt.dense_rank(arrange=t.f64)) >> pdt.ungroup(),
    "alias_subquery": lambda t, u: t >> pdt.mutate(r=pdt.row_number(arrange=t.i64)) >> pdt.alias("sub") >> pdt.filter(pdt.C.r <= 3) >> pdt.summarize(n=pdt.count()),
    "slice_alias_count": lambda t, u: t >> pdt.arrange(t.i64) >> pdt.slice_head(4, offset=1) >> pdt.alias() >> pdt.summarize(n=pdt.count()),
    # no column of the subquery is referenced above it (only 0-ary functions / the other table's columns)
    "slice_alias_count_unordered": lambda t, u: t >> pdt.slice_head(4) >> pdt.alias("s") >> pdt.summarize(n=pdt.count()),
    "summarize_alias_count": lambda t, u: t >> pdt.group_by(t.i8) >> pdt.summarize(m=t.i64.max()) >> pdt.alias("s") >> pdt.summarize(n=pdt.count()),
    "cross_join_sliced_alias_left_columns_only": lambda t, u: (lambda s: u >> pdt.cross_join(s) >> pdt.select(u.i64, u.s))(t >> pdt.slice_head(2) >> pdt.alias("s")),
    # the sort key of a window function above a subquery is a bare column that nothing else references and that is not selected at the end
    "window_key_only_in_arrange_above_subquery": lambda t, u: t >> pdt.mutate(r=pdt.row_number(arrange=t.i64)) >> pdt.alias("s") >> pdt.filter(pdt.C.r > 1) >> pdt.mutate(w=pdt.C.f64.shift(1, arrange=pdt.C.i32), rk=pdt.rank(arrange=pdt.C.d.descending())) >> pdt.select(pdt.C.w, pdt.C.rk),
    "slice_chain": lambda t, u: t >> pdt.arrange(t.s) >> pdt.slice_head(10, offset=2) >> pdt.slice_head(3, offset=1),
    "join_inner_left": lambda t, u: t >> pdt.join(u, (t.i64 == u.i64) & (t.s == u.s), "left") >> pdt.mutate(z=t.f64 + u.f64),
    "join_inequality": lambda t, u: t >> pdt.inner_join(u, [t.i64 <= u.i64, t.d == u.d]) >> pdt.select(t.i64, u.i64),
    "join_full": lambda t, u: t >> pdt.full_join(u, t.i64 == u.i64, suffix="_r"),
    "cross_join_filter": lambda t, u: t >> pdt.cross_join(u) >> pdt.filter(t.b | u.b),
    "self_join": lambda t, u: t >> pdt.join(t >> pdt.alias("t2") >> pdt.select(pdt.C.i64, pdt.C.s), "i64", "inner"),
    "union_all": lambda t, u: (t >> pdt.select(t.i64, t.s)) >> pdt.union(u >> pdt.select(u.s, u.i64)),
    "union_distinct_then": lambda t, u: (t >> pdt.select(t.i64)) >> pdt.union(u >> pdt.select(u.i64), distinct=True) >> pdt.filter(pdt.C.i64 > 0) >> pdt.arrange(pdt.C.i64),
    "union_subquery_right": lambda t, u: (t >> pdt.select(t.i64, t.s)) >> pdt.union((lambda su: su >> pdt.filter(su.i64 > 1))(u >> pdt.select(u.i64, u.s) >> pdt.arrange(u.i64) >> pdt.slice_head(3) >> pdt.alias("su"))),
    "union_subquery_right_reordered": lambda t, u: (t >> pdt.select(t.i64, t.s)) >> pdt.union((lambda su: su >> pdt.filter(su.i64 > 1))(u >> pdt.select(u.s, u.i64) >> pdt.arrange(u.i64) >> pdt.slice_head(3) >> pdt.alias("su"))),
    "union_subquery_left": lambda t, u: (lambda st: st >> pdt.mutate(k=st.i64 + 1) >> pdt.select(st.i64, st.s))(t >> pdt.arrange(t.i64) >> pdt.slice_head(3) >> pdt.alias("st")) >> pdt.union(u >> pdt.select(u.i64, u.s)),
    "union_mixed_types": lambda t, u: (t >> pdt.select(t.i64, t.s) >> pdt.mutate(tag=1, q=None)) >> pdt.union(u >> pdt.mutate(i64=u.f64, tag=2.5, q=u.i32) >> pdt.select(pdt.C.s, pdt.C.tag, pdt.C.q, pdt.C.i64)) >> pdt.filter(pdt.C.i64 > 0),
    "union_of_unions": lambda t, u: ((t >> pdt.select(t.i64)) >> pdt.union(u >> pdt.select(u.i64))) >> pdt.union((u >> pdt.alias("u2") >> pdt.select(pdt.C.i64)), distinct=True),
    "join_subquery_right": lambda t, u: t >> pdt.join((lambda su: su >> pdt.filter(su.i64 > 1))(u >> pdt.mutate(r=pdt.row_number(arrange=u.i64)) >> pdt.alias("su")), "i64", "left"),
    "rename_overwrite": lambda t, u: t >> pdt.rename({"i64": "s", "s": "i64"}) >> pdt.mutate(s=t.s + "x", fresh=t.i64),
    "horizontal_and_isin": lambda t, u: t >> pdt.mutate(mx=pdt.max(t.i64, t.i32, 3), co=pdt.coalesce(t.f64, t.f32, 0.0), ii=t.s.is_in("a", "b'", None), cl=t.i64.clip(0, 10), rd=t.f64.round(-1)),
    "datetime_ops": lambda t, u: t >> pdt.mutate(y=t.dt.dt.year(), dow=t.d.dt.day_of_week(), dd=(t.dt - t.dtb).dur.days(), d2=t.dt.cast(pdt.Date()), s2=t.d.cast(pdt.String())),
}


def make_b3(dname):
    def run(carve):
        n, bad = 0, []
        with warnings.catch_warnings():
            warnings.simplefilter("ignore")
            mk, types = dialect_tables()
            for pname, f in PIPELINES.items():
                n += 1
                texts = []
                try:
                    for rebuild in range(2):
                        t, u = mk[dname]("t"), mk[dname]("u")
                        tbl = f(t, u)
                        q1 = tbl >> pdt.build_query()
                        q2 = tbl >> pdt.build_query()
                        if q1 != q2:
                            bad.append(f"{dname}/{pname}: B4: two builds of the same table differ")
                        texts.append(q1)
                        if not (isinstance(q1, str) and q1.lstrip().upper().startswith("SELECT")):
                            bad.append(f"{dname}/{pname}: build_query returned {q1!r:.80}")
                        if re.search(r"[0-9a-f]{8}-[0-9a-f]{4}-[0-9a-f]{4}|[0-9a-f]{24,}", q1):
                            bad.append(f"{dname}/{pname}: B4: the SQL text contains a uuid-like token")
                    if len(texts) == 2 and texts[0] != texts[1]:
                        bad.append(f"{dname}/{pname}: B4: the same pipeline built from fresh tables gives a different text")
                except OK_ERRORS:
                    pass
                except Exception as ex:  # noqa: BLE001
                    bad.append(f"{dname}/{pname}: {type(ex).__name__}: {str(ex)[:200]}")
        return _enum_outcome(f"{dname}: {len(PIPELINES)} multi-verb pipelines build (or are refused with the documented errors) and build deterministically", n, bad)

    return run


# ---- static definite-return analysis ----------------------------------------------------------------------


def falls_through(stmts):
    """can control reach the end of this statement list?"""
    for s in stmts:
        if isinstance(s, (ast.Return, ast.Raise)):
            return False
        if isinstance(s, ast.If):
            if not falls_through(s.body) and s.orelse and not falls_through(s.orelse):
                return False
        if isinstance(s, ast.Try):
            if not falls_through(s.body + s.orelse) and all(not falls_through(h.body) for h in s.handlers):
                return False
        if isinstance(s, ast.With) and not falls_through(s.body):
            return False
    return True


# `if by >= 0: return ...` followed by `if by < 0: return ...` is exhaustive, which a syntactic analysis cannot see;
# that every integer n yields a LAG/LEAD expression is proved by the symbolic obligation C05/W6/shift/sqlite
EXHAUSTIVE_BY_OTHER_OBLIGATION = {("sql", "_shift")}


def b2_static_run(carve):
    n, bad = 0, []
    mods = [H.table_impl_mod, H.polars_backend, H.sql_backend, H.sqlite_backend]
    for name in ("postgres", "mssql", "duckdb", "duckdb_polars", "ibm_db2"):
        try:
            mods.append(__import__(f"pydiverse.transform._internal.backend.{name}", fromlist=["x"]))
        except Exception:  # noqa: BLE001
            pass
    for m in mods:
        try:
            tree = ast.parse(inspect.getsource(m))
        except OSError:
            continue
        for w in [x for x in ast.walk(tree) if isinstance(x, ast.With)]:
            if not any("impl_manager" in ast.unparse(i.context_expr) for i in w.items):
                continue
            for fn in [x for x in ast.walk(w) if isinstance(x, ast.FunctionDef)]:
                if not any("impl(" in ast.unparse(d) for d in fn.decorator_list):
                    continue
                n += 1
                # every path ends in `return <value>` or `raise` (an implementation that only raises NotSupportedError is a refusal)
                bare_return = any(isinstance(x, ast.Return) and x.value is None for x in ast.walk(fn))
                if (m.__name__.rsplit(".", 1)[1], fn.name) in EXHAUSTIVE_BY_OTHER_OBLIGATION:
                    continue
                if falls_through(fn.body) or bare_return:
                    bad.append(f"{m.__name__.rsplit('.', 1)[1]}.{fn.name} (L{fn.lineno}): a path reaches the end of the implementation without returning a value")
    return _enum_outcome("every @impl function of every backend module returns a value (or raises) on every path", n, bad)


def b6_worker(rotation):
    """(fresh process) one-verb pipelines of every operator on polars and every SQL dialect, the backends visited in a rotated
    order per operator; returns {op|sig|backend: outcome class}"""
    import polars as pl

    out = {}
    with warnings.catch_warnings():
        warnings.simplefilter("ignore")
        mk, types = dialect_tables()
        tables = {d: f("t") for d, f in mk.items()}
        tables["polars"] = pdt.Table(pl.DataFrame(schema={c: ty.to_polars() for c, ty in types.items()}), name="t")
        order = list(tables)
        for i, (opname, op) in enumerate(H.ALL_OPS.items()):
            if isinstance(op, pdt._internal.ops.ops.markers.Marker):
                continue
            sigs = [sg for sg in itertools.islice(sig_universe(op), 0, 40) if not any(TU.is_null_typed(x) for x in sg)][:3]
            k = (rotation + i) % len(order)
            for d in order[k:] + order[:k]:
                t = tables[d]
                for sig in sigs:
                    args = build_args(t, sig, types)
                    if args is None:
                        continue
                    kw = {"arrange": [t.i64]} if op.ftype == H.Ftype.WINDOW else {}
                    try:
                        e = H.ColFn(op, *args, **kw)
                        x = (t >> pdt.group_by(t.i8) >> pdt.summarize(r=e)) if op.ftype == H.Ftype.AGGREGATE else (t >> pdt.mutate(r=e))
                        if d == "polars":
                            x >> pdt.export(pdt.Polars(lazy=True))
                        else:
                            x >> pdt.build_query()
                        res = "ok"
                    except Exception as ex:  # noqa: BLE001
                        res = f"{type(ex).__name__}: {str(ex)[:80]}"
                    out[f"{opname}{_fmt(sig)} on {d}"] = res
    return out


def b6_run(carve):
    """whether an expression compiles on a backend does not depend on which other backends compiled expressions before in the
    same process (operator implementations are looked up per backend): four fresh processes visit the backends in rotated orders"""
    import json
    import os
    import subprocess
    import sys

    results = []
    root = os.path.dirname(os.path.dirname(os.path.dirname(os.path.abspath(__file__))))
    for rot in range(4):
        pr = subprocess.run([sys.executable, "-c", f"import json; from pdtv.props import c19; print('B6JSON' + json.dumps(c19.b6_worker({rot})))"], capture_output=True, text=True, cwd=root, timeout=900)
        line = next((ln for ln in pr.stdout.splitlines() if ln.startswith("B6JSON")), None)
        if line is None:
            return Outcome("error", detail=f"B6 worker {rot} failed: {pr.stderr[-400:]}")
        results.append(json.loads(line[6:]))
    n, bad = 0, []
    for key in results[0]:
        n += 1
        seen = {r.get(key) for r in results}
        if len(seen) > 1:
            bad.append(f"{key}: outcome depends on the order in which the backends were used: {sorted(map(str, seen))}")
    return _enum_outcome("the outcome of compiling an operator on a backend is the same whatever was compiled before in the process", n, bad)


def obligations(tier):
    fi = H.fn_info
    SI = H.sql_backend.SqlImpl
    base = [fi(SI.compile_ast), fi(SI.compile_col_expr), fi(SI.compile_query), fi(SI.build_select), fi(SI.build_query), fi(H.sql_backend.create_aliases), fi(H.table_impl_mod.TableImpl.get_impl), fi(pdt._internal.backend.impl_store.ImplStore.get_impl)]
    obs = [Obligation("C19/B2/static_return", "B2", "every @impl function returns on every path", b2_static_run, functions=[fi(pdt._internal.backend.impl_store.ImplContextManager.__call__)])]
    try:
        from pydiverse.transform._internal.backend.mssql import MsSqlImpl
        from pydiverse.transform._internal.backend.postgres import PostgresImpl

        extra = {"postgres": [fi(PostgresImpl.compile_cast), fi(PostgresImpl.sqa_type), fi(PostgresImpl.fix_fn_types)], "mssql": [fi(MsSqlImpl.build_select), fi(pdt._internal.backend.mssql.convert_bool_bit)], "sqlite": [fi(H.sqlite_backend.SqliteImpl.compile_cast)]}
    except Exception:  # noqa: BLE001
        extra = {"sqlite": []}
    for d in extra:
        obs.append(Obligation(f"C19/B2/ops/{d}", "B1+B2+B5", f"operator x signature totality on {d}", make_b2_dialect(d), functions=base + extra[d], carveouts={"duration_literal": "timedelta literals", "null_const_param": "None passed to a const parameter", "str_to_datetime_literal": "str.to_datetime / to_date of a string literal on SQLite", "const_expr_param": "constant expressions (not plain literals) passed to const parameters"}, bounded="one representative type per family (plain / const / null literal); arity <= 3 fully, larger arities over the operator's core types"))
        obs.append(Obligation(f"C19/B3/pipelines/{d}", "B3+B4", f"pipeline family on {d}", make_b3(d), functions=base + extra[d], bounded=f"{len(PIPELINES)} pipelines"))
    obs.append(Obligation("C19/B6/backend_order", "B6", "compiling on one backend does not change what compiles on another (fresh processes, rotated backend orders)", b6_run, functions=[fi(pdt._internal.backend.impl_store.ImplStore.get_impl), fi(H.table_impl_mod.TableImpl.get_impl)],
                          bounded="up to 3 column-only signatures per operator x polars + 3 dialects x 4 rotations"))
    return obs


DESIGN_REF = "DESIGN.md §5.19"
ASSUMPTIONS = [
    "SQLAlchemy's per-dialect compilers are trusted; they are the real ones (no database driver is installed: engines are built with stand-in DBAPI modules and never connect)",
    "DuckDB and DB2 implementations are not exercised (drivers not importable in this sandbox); their @impl functions are covered by the static return analysis only if the module imports",
    "bounded: operator x signature enumeration over one representative type per family; 18 hand-written pipelines",
]
LEVEL = "other"
EXPLANATION = "Totality / determinism of the SQL compilation is evaluated natively on the real dialect compilers over an enumerated family of expressions and pipelines (bounded), plus one static obligation (every @impl function returns a value on every path) that holds for all inputs."
