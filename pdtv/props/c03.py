"""C03 - element-wise operators follow the documented null-aware semantics.

E1/E4: for every element-wise operator with an entry in spec/optable.py, every declared
overload and argument shape (column / literal / None literal; vararg lengths bounded),
the *real* expression tree ColFn(op, ...) is compiled by the real
polars.compile_col_expr and SqliteImpl.compile_col_expr (dispatcher + @impl function)
with the library models bound to `pl` / `sqa`; the nullable value it denotes on a
generic row must equal SPEC[op] for all operand values.
E3: case expressions and ColExpr.map.
"""

from __future__ import annotations

import os

import itertools

import z3

from .. import core, plmodel, sqlmodel
from .. import harness as H
from .. import nv as N
from ..core import explore
from ..oblig import VC, Obligation, Outcome
from ..spec import optable
from . import common as C
from .common import types

BACKENDS = ("polars", "sqlite")

NONZERO_DIVISOR = {"floordiv", "mod", "truediv"}
# integer ranges: inputs are int64 values that are not at the extreme end, documented result fits int64
I62 = 2**62


def _value_pre(opname, arg_nvs, spec_nv):
    pre = []
    if opname in NONZERO_DIVISOR:
        d = arg_nvs[1]
        pre.append(z3.Implies(z3.Not(d.null), d.val != 0))
    for a in arg_nvs:
        if a.sort == N.INT:
            pre.append(z3.And(a.val > -I62, a.val < I62))
    if opname == "clip":
        lo, hi = arg_nvs[1], arg_nvs[2]
        pre.append(z3.Implies(z3.And(z3.Not(lo.null), z3.Not(hi.null)), N.le_t(lo.val, hi.val)))
    strs = [a.val for a in arg_nvs if a.sort == N.STR and not z3.is_true(a.null)]
    if strs and opname in ("horizontal_max", "horizontal_min", "clip", "less_than", "less_equal", "greater_than", "greater_equal"):
        pre.extend(N.str_order_axioms(strs))
    return pre


def _uses_uninterpreted(t, _seen=None):
    _seen = set() if _seen is None else _seen
    if t.get_id() in _seen:
        return False
    _seen.add(t.get_id())
    if z3.is_app(t) and t.decl().kind() == z3.Z3_OP_UNINTERPRETED and t.num_args() > 0:
        return True
    return any(_uses_uninterpreted(c, _seen) for c in t.children())


NATIVE_ONLY = set()  # (dtypes, kinds) shapes that only get a LIB (native) obligation


def shapes_for(opname, op):
    """yield (label, param dtypes, kinds) with kinds[i] in col|lit|none"""
    seen = set()
    for sig in op.signatures:
        params = list(sig.types)
        lens = [len(params)]
        if sig.is_vararg:
            lens = [n for n in range(max(1, len(params) - 1), len(params) + 3)]
        tyvar = any(isinstance(types.without_const(t), types.Tyvar) for t in params)
        for inst in C.concrete_instances(params[0]) if tyvar else [None]:
            for n in lens:
                ps = [params[min(i, len(params) - 1)] for i in range(n)]
                dts = []
                for p in ps:
                    base = types.without_const(p)
                    if isinstance(base, types.Tyvar):
                        dts.append(inst)
                    else:
                        dts.append(C.concrete_instances(p)[0])
                consts = [types.is_const(p) for p in ps]
                variants = [tuple("lit" if c else "col" for c in consts)]
                if n == 2 and not any(consts):
                    variants += [("col", "lit"), ("lit", "col")]
                if opname == "clip":
                    variants += [("col", "none", "lit"), ("col", "lit", "none"), ("col", "none", "none")]
                if opname in ("fill_null", "coalesce") and n == 2:
                    variants += [("col", "lit")]
                if opname != "clip" and 2 <= n <= 3:
                    # a None literal at each non-first, non-const position (null propagation / Kleene logic with an untyped NULL)
                    for j in range(1, n):
                        if not consts[j] and not consts[0]:
                            variants.append(tuple("none" if i == j else ("lit" if consts[i] else "col") for i in range(n)))
                    if n == 3 and not any(consts):
                        variants.append(("col", "lit", "none"))
                    # ... and at the first position (reflected forms: None // col), and two None literals before a column
                    # (native conformance layer only: the symbolic engine models give an untyped NULL no sort of its own)
                    if not any(consts):
                        for v in [tuple("none" if i == 0 else "col" for i in range(n))] + ([("none", "none", "col")] if n == 3 else []):
                            variants.append(v)
                            NATIVE_ONLY.add((tuple(map(str, dts)), v))
                for kinds in variants:
                    key = (tuple(map(str, dts)), kinds)
                    if key in seen:
                        continue
                    seen.add(key)
                    yield dts, kinds


def build_args(dts, kinds):
    """returns (list of real ColExpr args, their NVs, SymCols, witness term dict)"""
    args, nvs, cols, wit = [], [], [], {}
    for i, (dt, k) in enumerate(zip(dts, kinds)):
        if k == "col":
            sc = H.SymCol(f"c{i}", dt)
            cols.append(sc)
            args.append(sc.col)
            nvs.append(sc.nv)
            wit[f"c{i}_null"] = sc.nv.null
            wit[f"c{i}_val"] = sc.nv.val
        elif k == "lit":
            lit, nvv, c = C.sym_literal(f"l{i}", dt)
            args.append(lit)
            nvs.append(nvv)
            wit[f"l{i}"] = c
        else:
            args.append(H.LiteralCol(None))
            nvs.append(N.null_of(H.sort_of_dtype(dt)))
    return args, nvs, cols, wit


def _den(backend, compiled):
    if backend == "polars":
        if not isinstance(compiled, plmodel.PlExpr):
            raise core.Unsupported(f"polars compile returned {type(compiled).__name__}")
        return compiled.nv
    return sqlmodel.den(compiled)


def make_run(opname, op, dts, kinds, backend):
    def run(carve):
        plmodel.reset_state()
        sqlmodel.AXIOMS_USED.clear()
        args, nvs, cols, wit = build_args(dts, kinds)
        spec_nv = optable.SPEC[opname](*nvs)
        pre = _value_pre(opname, nvs, spec_nv)
        if spec_nv.sort == N.INT:
            pre.append(z3.Implies(z3.Not(spec_nv.null), z3.And(spec_nv.val >= -(2**63), spec_nv.val < 2**63)))
        if "null_bound" in carve:  # known finding F-clip-null: exclude a null bound
            pre.append(z3.And(z3.Not(nvs[1].null), z3.Not(nvs[2].null)))
            if any(k == "none" for k in kinds):
                return Outcome("discharged", detail="carved out entirely (a bound is the None literal)", goal="(excluded by known finding)", paths=1, queries=1)
        if "whole" in carve:
            return Outcome("discharged", detail="carved out entirely by a known finding", goal="(excluded by known finding)", paths=1, queries=1)
        if "null_input" in carve:
            pre.append(z3.Not(nvs[0].null))
        native_oracle = not (_uses_uninterpreted(spec_nv.val) or _uses_uninterpreted(spec_nv.null))

        def body():
            with H.patched():
                expr = H.ColFn(op, *args)
                if backend == "polars":
                    return H.compile_polars(expr, cols)
                return H.compile_sqlite(expr, cols)

        paths = explore(body, base_pc=pre, catch=(Exception,))
        pre_txt = [str(q)[:80] for q in pre if "str_le" not in str(q)][:4]
        goal = f"den_{backend}(compile_col_expr(ColFn({opname}, {', '.join(f'{k}:{d}' for k, d in zip(kinds, dts))}))) == SPEC[{opname}]  for all operand values; pre: {pre_txt}"
        vc = VC(goal, facts=N.domain_facts())
        wit = dict(wit)
        wit["expected_null"] = spec_nv.null
        wit["expected_val"] = spec_nv.val
        for p in paths:
            vc.paths += 1
            if p.kind == "exc":
                if C.exc_is_refusal(p.value):
                    vc.queries += 1
                    continue
                if "none" in kinds and isinstance(p.value, H.pdt.errors.DataTypeError) and "ambiguous call" in str(p.value):
                    # an untyped None literal that matches several overloads is rejected when the expression is built (C13/C14)
                    vc.queries += 1
                    continue
                # an exception on a feasible path: the operator cannot be compiled for these inputs
                vc.require(p.pc, z3.BoolVal(False), label=f"raises {type(p.value).__name__}: {p.value}", witness_terms=wit)
                continue
            got = _den(backend, p.value)
            w = dict(wit)
            w["got_null"], w["got_val"] = got.null, got.val
            vc.require(list(p.pc) + N.agg_facts(), N.eq(got, spec_nv), label=f"value differs from SPEC[{opname}] (path {p.decisions})", witness_terms=w)
        ax = sorted(plmodel.AXIOMS_USED | sqlmodel.AXIOMS_USED)
        out = vc.outcome(axioms=ax)
        if out.status == "refuted":
            if any(H.sort_of_dtype(d) == N.INT and not d.is_int() for d in dts):
                out.replay = {"reproduced": False, "text": "temporal values are abstract ordinals in the model; no native replay builder"}
            else:
                r = make_replayer(opname, op, dts, kinds, backend)(out.model or {})
                if not native_oracle and "exported r='raises" not in r["text"] and 'exported r="raises' not in r["text"]:
                    r = {"reproduced": False, "text": "the documented value involves uninterpreted functions (order / rounding / transcendental); no native oracle. " + r["text"]}
                out.replay = r
        return out

    return run


# ---------------------------------------------------------------------------------
# LIB: conformance of SPEC (and thereby of the library models the proofs rest on) with the real engines on sampled rows

SAMPLES = {
    "Int64": [0, 1, -1, 2, 7, -13, 100], "Float64": [0.0, 1.5, -2.25, 3.0, 100.5], "Bool": [True, False], "String(None)": ["", "a", "ab", "b%_", "Zz"],
}


def make_lib(opname, op, dts, kinds, backend, seed):
    def run(carve):
        import random

        plmodel.reset_state()
        args, nvs, cols, wit = build_args(dts, kinds)
        spec_nv = optable.SPEC[opname](*nvs)
        if _uses_uninterpreted(spec_nv.val) or _uses_uninterpreted(spec_nv.null):
            return Outcome("discharged", goal="(the documented value involves uninterpreted functions: no native oracle)", paths=1, queries=1, backend="evaluation")
        pre = _value_pre(opname, nvs, spec_nv) + N.domain_facts()
        if "whole" in carve:
            return Outcome("discharged", detail="carved out entirely by a known finding", goal="(excluded by known finding)", paths=1, queries=1)
        if "null_input" in carve:
            pre.append(z3.Not(nvs[0].null))
        rnd = random.Random(f"{seed}/{opname}/{dts}/{kinds}")
        rep = make_replayer(opname, op, dts, kinds, backend)
        n, bad = 0, []
        for _ in range(14):
            s = z3.Solver()
            s.set("timeout", 5000)
            s.add(*pre)
            model_in = {}
            ok = True
            for i, (dt, k) in enumerate(zip(dts, kinds)):
                if k == "none":
                    continue  # a None literal: null by construction
                vals = SAMPLES.get(str(dt))
                if vals is None:
                    ok = False
                    break
                if k == "col":
                    is_null = rnd.random() < 0.25
                    v = rnd.choice(vals)
                    s.add(nvs[i].null == z3.BoolVal(is_null))
                    if not is_null:
                        s.add(nvs[i].val == N.const(v, nvs[i].sort).val)
                    model_in[f"c{i}_null"], model_in[f"c{i}_val"] = is_null, v
                elif k == "lit":
                    v = rnd.choice(vals)
                    s.add(nvs[i].val == N.const(v, nvs[i].sort).val)
                    model_in[f"l{i}"] = v
            if not ok:
                break
            if s.check() != z3.sat:
                continue  # the sampled row violates a precondition (division by zero, domain, overflow)
            m = s.model()
            en = z3.is_true(m.eval(spec_nv.null, model_completion=True))
            model_in["expected_null"] = en
            model_in["expected_val"] = None if en else core.model_value(m, spec_nv.val)
            n += 1
            r = rep(model_in)
            if r["reproduced"]:
                bad.append(r["text"])
        from .c13 import _enum_outcome

        return _enum_outcome(f"SPEC[{opname}] agrees with the real {backend} engine on sampled rows ({', '.join(f'{k}:{d}' for k, d in zip(kinds, dts))})", n, bad, allow_empty=True)

    return run


def make_replayer(opname, op, dts, kinds, backend):
    def replay(model):
        import polars as pl
        import sqlalchemy as sqa

        import pydiverse.transform as pdt
        from pydiverse.transform._internal.tree.col_expr import ColFn, LiteralCol

        data = {}
        for i, (dt, k) in enumerate(zip(dts, kinds)):
            if k == "col":
                v = None if model.get(f"c{i}_null") else C.py_of_model_value(model.get(f"c{i}_val"), dt)
                data[f"c{i}"] = pl.Series(f"c{i}", [v], dtype=dt.to_polars())
        if not data:
            data["dummy"] = pl.Series("dummy", [1])
        df = pl.DataFrame(data)
        if backend == "polars":
            t = pdt.Table(df, name="t")
        else:
            eng = sqa.create_engine("sqlite://")
            df.write_database("t", eng)
            t = pdt.Table("t", pdt.SqlAlchemy(eng))
        args = []
        for i, (dt, k) in enumerate(zip(dts, kinds)):
            if k == "col":
                args.append(t[f"c{i}"])
            elif k == "lit":
                args.append(LiteralCol(C.py_of_model_value(model.get(f"l{i}"), dt)))
            else:
                args.append(LiteralCol(None))
        expr = ColFn(op, *args)
        try:
            out = t >> pdt.mutate(r=expr) >> pdt.select("r") >> pdt.export(pdt.Polars())
            got = out["r"][0]
        except Exception as e:  # noqa: BLE001
            got = f"raises {type(e).__name__}: {str(e)[:200]}"
        exp = None if model.get("expected_null") else C.py_of_model_value(model.get("expected_val"), op.return_type(list(a.dtype() for a in args)) if False else dts[0]) if False else (None if model.get("expected_null") else model.get("expected_val"))
        same = _same_value(got, exp)
        return {
            "reproduced": not same,
            "text": f"real {backend} pipeline: mutate(r={opname}({', '.join(repr(a.val) if isinstance(a, LiteralCol) else 'col=' + repr(df[a.name][0]) for a in args)})) exported r={got!r}; documented value {exp!r}",
        }

    return replay


def _same_value(got, exp):
    from fractions import Fraction

    if isinstance(got, str) and got.startswith("raises"):
        return False
    if got is None or exp is None:
        return got is None and exp is None
    if isinstance(exp, str) and not isinstance(got, str):
        try:
            exp = float(Fraction(exp.rstrip("?")))
        except Exception:  # noqa: BLE001
            return False
    if isinstance(got, bool) or isinstance(exp, bool):
        return bool(got) == bool(exp)
    if isinstance(got, (int, float)) and isinstance(exp, (int, float, Fraction)):
        return abs(float(got) - float(exp)) <= 1e-9 * max(1.0, abs(float(exp)))
    return got == exp


# ---------------------------------------------------------------------------------
# E3: case expressions and map


def make_case_run(n_branches, with_default, val_dt, backend, via_map=False):
    def run(carve):
        plmodel.reset_state()
        sqlmodel.AXIOMS_USED.clear()
        from pydiverse.common import Bool

        conds = [H.SymCol(f"b{i}", Bool()) for i in range(n_branches)]
        vals = [H.SymCol(f"v{i}", val_dt) for i in range(n_branches)]
        dflt = H.SymCol("d", val_dt) if with_default else None
        cols = conds + vals + ([dflt] if dflt else [])
        spec_nv = optable.case_spec([(c.nv, v.nv) for c, v in zip(conds, vals)], dflt.nv if dflt else None)

        def body():
            with H.patched():
                expr = H.col_expr_mod.CaseExpr([(c.col, v.col) for c, v in zip(conds, vals)], dflt.col if dflt else None)
                return H.compile_polars(expr, cols) if backend == "polars" else H.compile_sqlite(expr, cols)

        paths = explore(body)
        vc = VC(f"den_{backend}(compile(CaseExpr[{n_branches} branches, default={with_default}, {val_dt}])) == first true branch, else default, else null")
        for p in paths:
            vc.paths += 1
            if p.kind == "exc":
                vc.require(p.pc, z3.BoolVal(False), label=f"raises {type(p.value).__name__}: {p.value}")
                continue
            vc.require(p.pc, N.eq(_den(backend, p.value), spec_nv), label="case value differs")
        return vc.outcome(axioms=sorted(plmodel.AXIOMS_USED | sqlmodel.AXIOMS_USED))

    return run


def make_map_run(n_keys_per_group, n_groups, with_default, backend):
    def run(carve):
        plmodel.reset_state()
        sqlmodel.AXIOMS_USED.clear()
        from pydiverse.common import Int64

        x = H.SymCol("x", Int64())
        keys = [[z3.IntVal(10 * g + j + (3 if g else 0) * 0 + (1 if (g, j) == (1, 0) and n_keys_per_group > 1 else 0) * 0) for j in range(n_keys_per_group)] for g in range(n_groups)]
        outs = [z3.Int(f"o{g}") for g in range(n_groups)]
        dv = z3.Int("dflt")
        cols = [x]
        # spec of map: first key group containing x -> its value, else default / self
        branches = []
        for g in range(n_groups):
            cond = N.NV(False, z3.BoolVal(False))
            for k in keys[g]:
                cond = N.k_or(cond, N.lift(lambda p, q: p == q, x.nv, N.NV(False, k)))
            branches.append((cond, N.NV(False, outs[g])))
        spec_nv = optable.case_spec(branches, N.NV(False, dv) if with_default else x.nv)

        def body():
            with H.patched():
                mapping = {}
                for g in range(n_groups):
                    ks = tuple(k.as_long() for k in keys[g])
                    mapping[ks if n_keys_per_group > 1 else ks[0]] = H.LiteralCol(core.SymInt(outs[g]), Int64())
                expr = x.col.map(mapping, default=H.LiteralCol(core.SymInt(dv), Int64()) if with_default else None)
                return H.compile_polars(expr, cols) if backend == "polars" else H.compile_sqlite(expr, cols)

        paths = explore(body)
        vc = VC(f"den_{backend}(compile(x.map({n_groups} groups of {n_keys_per_group} keys, default={with_default}))) == value of the first group containing x, else default/self")
        for p in paths:
            vc.paths += 1
            if p.kind == "exc":
                vc.require(p.pc, z3.BoolVal(False), label=f"raises {type(p.value).__name__}: {p.value}")
                continue
            vc.require(p.pc, N.eq(_den(backend, p.value), spec_nv), label="map value differs")
        return vc.outcome(axioms=sorted(plmodel.AXIOMS_USED | sqlmodel.AXIOMS_USED))

    return run


# ---------------------------------------------------------------------------------


# ---------------------------------------------------------------------------------
# B: method binding - the user reaches an operator through a generated method / accessor / free function


def binding_run(carve):
    """every ColExpr method (incl. the .str / .dt / .dur / .list accessors, dunder and reflected dunder operators) and every
    free function of the public API builds ColFn(<its operator>, receiver, *args) with the arguments in call order"""
    import warnings

    from . import c12
    from .c13 import _enum_outcome

    pdt = H.pdt
    t = pdt.Table(c12.frames(), name="t")
    CE = H.col_expr_mod
    n, bad = 0, []
    FREE = {"horizontal_max": pdt.max, "horizontal_min": pdt.min, "coalesce": pdt.coalesce, "row_number": pdt.row_number, "rank": pdt.rank, "dense_rank": pdt.dense_rank, "count_star": pdt.count, "rand": getattr(pdt, "rand", None)}
    for extra_name, fname in (("horizontal_any", "any"), ("horizontal_all", "all"), ("horizontal_sum", "sum")):
        FREE[extra_name] = getattr(pdt, fname, None)
    REFLECT = {"__add__": "__radd__", "__sub__": "__rsub__", "__mul__": "__rmul__", "__truediv__": "__rtruediv__", "__floordiv__": "__rfloordiv__", "__mod__": "__rmod__", "__pow__": "__rpow__", "__and__": "__rand__", "__or__": "__ror__", "__xor__": "__rxor__"}

    def same_arg(built, given):
        if isinstance(given, CE.ColExpr):
            return built is given
        return isinstance(built, CE.LiteralCol) and (built.val == given or (built.val is None and given is None)) and type(built.val) is type(given)

    with warnings.catch_warnings():
        warnings.simplefilter("ignore")
        for opname, op in H.ALL_OPS.items():
            if isinstance(op, pdt._internal.ops.ops.markers.Marker):
                continue
            seen_shapes = set()
            for sig in c12.sig_universe(op):
                shape = tuple((types.is_const(p), type(types.without_const(p)).__name__) for p in sig)
                has_const = any(c for c, _ in shape)
                if shape in seen_shapes or (not has_const and sum(1 for sh in seen_shapes if not any(c for c, _ in sh)) >= 4) or (has_const and sum(1 for sh in seen_shapes if any(c for c, _ in sh)) >= 8):
                    continue
                args = c12.mk_args(t, sig)
                if args is None or (len(args) > 0 and not isinstance(args[0], CE.ColExpr) and op.generate_expr_method):
                    continue
                seen_shapes.add(shape)
                kw = {}
                if op.ftype == H.Ftype.WINDOW or any(k.name == "arrange" and k.required for k in (op.context_kwargs or [])):
                    kw["arrange"] = [t.g]
                calls = []
                if op.generate_expr_method:
                    recv, rest = args[0], args[1:]
                    name = op.name
                    if "." in name:
                        ns, meth = name.split(".", 1)
                        calls.append((f"<{type(types.without_const(sig[0])).__name__}>.{name}", lambda recv=recv, ns=ns, meth=meth, rest=rest: getattr(getattr(recv, ns), meth)(*rest, **kw), [recv] + rest))
                    else:
                        calls.append((f"<{type(types.without_const(sig[0])).__name__}>.{name}", lambda recv=recv, name=name, rest=rest: getattr(recv, name)(*rest, **kw), [recv] + rest))
                        if name in REFLECT and len(args) == 2 and isinstance(args[1], CE.ColExpr) and not isinstance(args[0], CE.ColExpr):
                            pass
                        if name in REFLECT and len(args) == 2 and isinstance(args[0], CE.ColExpr) and not isinstance(args[1], CE.ColExpr) and not (name in ("__and__", "__or__", "__xor__")):
                            # literal <op> column goes through the reflected method: ColFn(op, literal, column)
                            lit_, col_ = args[1], args[0]
                            rsig = (sig[1], sig[0])
                            if c12._rt(op, rsig)[0] == "ok":
                                calls.append((f"{lit_!r} {name} <col> via {REFLECT[name]}", lambda col_=col_, lit_=lit_, name=name: getattr(col_, REFLECT[name])(lit_), [lit_, col_]))
                elif FREE.get(opname) is not None:
                    f = FREE[opname]
                    calls.append((f"pdt.{f.__name__}", lambda f=f, args=args: f(*args, **kw), list(args)))
                for label, thunk, want_args in calls:
                    n += 1
                    try:
                        e = thunk()
                    except Exception as ex:  # noqa: BLE001
                        bad.append(f"{opname}: {label}({', '.join(type(a).__name__ for a in want_args[1:])}) raises {type(ex).__name__}: {str(ex)[:120]}")
                        continue
                    if not isinstance(e, CE.ColFn):
                        bad.append(f"{opname}: {label} returns {type(e).__name__}, not a ColFn")
                        continue
                    if e.op is not op:
                        bad.append(f"{opname}: {label} builds the operator `{e.op.name}` instead of `{op.name}`")
                        continue
                    if len(e.args) != len(want_args) or not all(same_arg(b, g) for b, g in zip(e.args, want_args)):
                        bad.append(f"{opname}: {label} passes the arguments {[a.ast_repr() if hasattr(a, 'ast_repr') else a for a in e.args]} for the call arguments {[a.ast_repr() if hasattr(a, 'ast_repr') else a for a in want_args]}")
    return _enum_outcome("every public method / accessor / reflected operator / free function builds ColFn(<its operator>, arguments in call order)", n, bad)


# ---------------------------------------------------------------------------------
# LIB-dt: temporal operators (abstract ordinals in the symbolic model) against Python's datetime on both engines


def temporal_run_factory(backend):
    def run(carve):
        import datetime as dtm
        import warnings

        import polars as pl
        import sqlalchemy as sqa

        from .c13 import _enum_outcome

        pdt = H.pdt
        dts = [dtm.datetime(2020, 2, 29, 13, 14, 15, 123456), dtm.datetime(1999, 12, 31, 23, 59, 59, 999000), dtm.datetime(2024, 1, 1, 0, 0, 0), None, dtm.datetime(2023, 7, 9, 6, 30, 1, 5), dtm.datetime(1970, 1, 4, 12, 0, 0)]
        dtb = [dtm.datetime(2020, 3, 1, 0, 0, 0), dtm.datetime(1999, 12, 31, 0, 0, 0), None, dtm.datetime(2000, 1, 1), dtm.datetime(2023, 7, 9, 6, 30, 1, 5), dtm.datetime(1969, 12, 28, 1, 2, 3)]
        ds = [dtm.date(2020, 2, 29), dtm.date(1999, 12, 31), dtm.date(2024, 1, 1), None, dtm.date(2023, 7, 9), dtm.date(1970, 1, 4)]
        df = pl.DataFrame({"dt": pl.Series(dts, dtype=pl.Datetime("us")), "dtb": pl.Series(dtb, dtype=pl.Datetime("us")), "d": pl.Series(ds, dtype=pl.Date), "h": list(range(6))})
        if backend == "polars":
            t = pdt.Table(df, name="t")
        else:
            eng = sqa.create_engine("sqlite://")
            df.write_database("t", eng)
            t = pdt.Table("t", pdt.SqlAlchemy(eng))
        n, bad = 0, []

        def N(f):
            return lambda *a: None if any(x is None for x in a) else f(*a)

        def tdiv(a, b):  # truncating division (total duration in a unit)
            q = abs(a) // b
            return q if a >= 0 else -q

        us = lambda td: (td.days * 86400 + td.seconds) * 1000000 + td.microseconds  # noqa: E731
        cases = [
            ("dt.year", lambda: t.dt.dt.year(), [N(lambda x: x.year)(x) for x in dts]), ("dt.month", lambda: t.dt.dt.month(), [N(lambda x: x.month)(x) for x in dts]), ("dt.day", lambda: t.dt.dt.day(), [N(lambda x: x.day)(x) for x in dts]),
            ("dt.hour", lambda: t.dt.dt.hour(), [N(lambda x: x.hour)(x) for x in dts]), ("dt.minute", lambda: t.dt.dt.minute(), [N(lambda x: x.minute)(x) for x in dts]), ("dt.second", lambda: t.dt.dt.second(), [N(lambda x: x.second)(x) for x in dts]),
            ("dt.millisecond", lambda: t.dt.dt.millisecond(), [N(lambda x: x.microsecond // 1000)(x) for x in dts]), ("dt.microsecond", lambda: t.dt.dt.microsecond(), [N(lambda x: x.microsecond)(x) for x in dts]),
            ("dt.day_of_week", lambda: t.dt.dt.day_of_week(), [N(lambda x: x.isoweekday())(x) for x in dts]), ("dt.day_of_year", lambda: t.dt.dt.day_of_year(), [N(lambda x: x.timetuple().tm_yday)(x) for x in dts]),
            ("date.year", lambda: t.d.dt.year(), [N(lambda x: x.year)(x) for x in ds]), ("date.month", lambda: t.d.dt.month(), [N(lambda x: x.month)(x) for x in ds]), ("date.day", lambda: t.d.dt.day(), [N(lambda x: x.day)(x) for x in ds]),
            ("date.day_of_week", lambda: t.d.dt.day_of_week(), [N(lambda x: x.isoweekday())(x) for x in ds]), ("date.day_of_year", lambda: t.d.dt.day_of_year(), [N(lambda x: x.timetuple().tm_yday)(x) for x in ds]),
            ("(dt - dtb).dur.days", lambda: (t.dt - t.dtb).dur.days(), [N(lambda a, b: tdiv(us(a - b), 86400 * 10**6))(a, b) for a, b in zip(dts, dtb)]),
            ("(dt - dtb).dur.hours", lambda: (t.dt - t.dtb).dur.hours(), [N(lambda a, b: tdiv(us(a - b), 3600 * 10**6))(a, b) for a, b in zip(dts, dtb)]),
            ("(dt - dtb).dur.minutes", lambda: (t.dt - t.dtb).dur.minutes(), [N(lambda a, b: tdiv(us(a - b), 60 * 10**6))(a, b) for a, b in zip(dts, dtb)]),
            ("(dt - dtb).dur.seconds", lambda: (t.dt - t.dtb).dur.seconds(), [N(lambda a, b: tdiv(us(a - b), 10**6))(a, b) for a, b in zip(dts, dtb)]),
            ("(dt - dtb).dur.milliseconds", lambda: (t.dt - t.dtb).dur.milliseconds(), [N(lambda a, b: tdiv(us(a - b), 1000))(a, b) for a, b in zip(dts, dtb)]),
            ("dt > dtb", lambda: t.dt > t.dtb, [N(lambda a, b: a > b)(a, b) for a, b in zip(dts, dtb)]), ("dt == dtb", lambda: t.dt == t.dtb, [N(lambda a, b: a == b)(a, b) for a, b in zip(dts, dtb)]),
            ("d <= date literal", lambda: t.d <= dtm.date(2020, 2, 29), [N(lambda a: a <= dtm.date(2020, 2, 29))(a) for a in ds]),
            ("dt.cast(Date)", lambda: t.dt.cast(pdt.Date()), [N(lambda a: a.date())(a) for a in dts]), ("d.cast(Datetime)", lambda: t.d.cast(pdt.Datetime()), [N(lambda a: dtm.datetime(a.year, a.month, a.day))(a) for a in ds]),
            ("max(dt, dtb)", lambda: pdt.max(t.dt, t.dtb), [max([x for x in (a, b) if x is not None], default=None) for a, b in zip(dts, dtb)]),
            # the raw Duration value of a subtraction (SQLite has no duration type: it has to refuse, not to answer something else)
            ("dt - dtb (exported)", lambda: t.dt - t.dtb, [N(lambda a, b: a - b)(a, b) for a, b in zip(dts, dtb)]),
            ("d - d2 (exported)", lambda: t.d - dtm.date(2019, 12, 31), [N(lambda a: a - dtm.date(2019, 12, 31))(a) for a in ds]),
            # an untyped None operand: arithmetic and comparisons propagate null, horizontal max skips it
            ("dt + None", lambda: t.dt + None, [None] * len(dts)), ("dt - None", lambda: (t.dt - None).is_null(), [True] * len(dts)), ("d - None", lambda: (t.d - None).is_null(), [True] * len(ds)),
            ("dt > None", lambda: t.dt > None, [None] * len(dts)), ("d == None", lambda: t.d == None, [None] * len(ds)),  # noqa: E711
            ("max(dt, None)", lambda: pdt.max(t.dt, None), list(dts)), ("coalesce(None, d)", lambda: pdt.coalesce(None, t.d), list(ds)),
        ]
        with warnings.catch_warnings():
            warnings.simplefilter("ignore")
            for label, mk, want in cases:
                n += 1
                try:
                    out = t >> pdt.mutate(r=mk()) >> pdt.arrange(t.h) >> pdt.export(pdt.Polars())
                    got = out["r"].to_list()
                except pdt.errors.NotSupportedError:
                    continue
                except Exception as ex:  # noqa: BLE001
                    bad.append(f"{label} on {backend}: raises {type(ex).__name__}: {str(ex)[:140]}")
                    continue
                if label == "dt.microsecond" and backend == "sqlite":
                    # documented deviation (the library warns: SQLite's datetime functions have millisecond resolution)
                    got, want = [None if g is None else g // 1000 for g in got], [None if w is None else w // 1000 for w in want]
                if got != want:
                    bad.append(f"{label} on {backend}: engine {got}, Python datetime gives {want}")
        return _enum_outcome(f"temporal operators on {backend}: component extraction, durations (truncated totals), comparisons, casts and horizontal max agree with Python's datetime", n, bad)

    return run


def narrow_types_run(carve):
    """Polars: an operator applied to a narrow column (Int8 / Int32 / UInt16 / Float32) with other columns or Python literals
    gives the value it gives on the same data widened to Int64 / Float64 first (within the precision of the narrow result
    type) - a Python literal is a 64-bit value, the computation must not silently run in the narrow type of the column"""
    import math
    import warnings

    import polars as pl

    from .. import typeuniverse as TU
    from . import c12
    from .c13 import _enum_outcome

    pdt = H.pdt
    T = H.types_mod
    df = c12.frames().with_columns(hh=pl.Series([0, 1, 2]), f32=pl.Series([0.1, None, 3e38], dtype=pl.Float32), i8=pl.Series([100, 1, None], dtype=pl.Int8), i32=pl.Series([2**30, 1, None], dtype=pl.Int32))
    t = pdt.Table(df, name="t")
    WIDE = {"Int32": pdt.Int64(), "Int8": pdt.Int64(), "UInt16": pdt.Int64(), "Float32": pdt.Float64()}
    lits = {"int": 7, "float": 10.1, "string": "a", "bool": True}
    n, bad = 0, []
    with warnings.catch_warnings():
        warnings.simplefilter("ignore")
        for opname, op in H.ALL_OPS.items():
            if isinstance(op, pdt._internal.ops.ops.markers.Marker) or op.ftype != H.Ftype.ELEMENT_WISE or opname in ("rand", "neg", "pow", "exp"):
                continue
            for sig in c12.sig_universe(op):
                names = [type(T.without_const(p)).__name__ for p in sig]
                if len(sig) > 2 or not any(nm in WIDE and not T.is_const(p) for nm, p in zip(names, sig)) or any(TU.is_null_typed(p) for p in sig):
                    continue
                args = c12.mk_args(t, sig, 0)
                if args is None:
                    continue
                args = [lits.get(TU.family(p), a) if T.is_const(p) else a for a, p in zip(args, sig)]
                wargs = [a.cast(WIDE[nm]) if (nm in WIDE and not T.is_const(p)) else a for a, nm, p in zip(args, names, sig)]
                res = []
                for aa in (args, wargs):
                    try:
                        out = t >> pdt.mutate(r=H.ColFn(op, *aa)) >> pdt.arrange(t.hh) >> pdt.export(pdt.Polars())
                        # precision / range: that of the narrow result type when all operands are narrow columns; 64 bit as soon as a Python literal takes part
                        has_lit = any(T.is_const(a) and not T.is_const(prm) for a, prm in zip(sig, op.trie.best_match(list(sig))[0]))  # literal operands, not const parameters such as round's `decimals`
                        res.append((out["r"].to_list(), (pl.Float64 if out["r"].dtype.is_float() else pl.Int64) if has_lit and out["r"].dtype.is_numeric() else out["r"].dtype))
                    except Exception as ex:  # noqa: BLE001
                        res.append(f"{type(ex).__name__}")
                n += 1
                if isinstance(res[0], str) or isinstance(res[1], str):
                    if res[0] != res[1]:
                        bad.append(f"{opname}{c12._fmt(sig)}: narrow column {res[0]}, widened {res[1]}")
                    continue
                tol = 1e-6 if res[0][1] == pl.Float32 else 1e-12
                for g, w in zip(res[0][0], res[1][0]):
                    same = (g is None and w is None) or (g is not None and w is not None and (g == w or (isinstance(g, (int, float)) and not isinstance(g, bool) and isinstance(w, (int, float)) and (math.isfinite(float(w)) or not math.isfinite(float(g)))
                                                                                               and math.isfinite(float(g)) == math.isfinite(float(w)) and (not math.isfinite(float(w)) or abs(float(g) - float(w)) <= tol * max(abs(float(w)), 1e-300)))))
                    rng = {pl.Int8: (-2**7, 2**7 - 1), pl.Int16: (-2**15, 2**15 - 1), pl.Int32: (-2**31, 2**31 - 1), pl.UInt16: (0, 2**16 - 1), pl.UInt8: (0, 255), pl.UInt32: (0, 2**32 - 1), pl.Float32: (-3.4e38, 3.4e38)}.get(res[0][1])
                    overflow = rng is not None and w is not None and isinstance(w, (int, float)) and not isinstance(w, bool) and not (rng[0] <= w <= rng[1])  # outside the range of the (narrow) result type: excluded value domain
                    if not same and not overflow:
                        bad.append(f"{opname}{c12._fmt(sig)}: on the narrow column {res[0][0]} ({res[0][1]}), on the widened data {res[1][0]} ({res[1][1]})")
                        break
    return _enum_outcome("Polars: operators on narrow columns agree with the same data widened to 64 bit (Python literals are 64-bit values)", n, bad)


def numeric_run_factory(backend):
    """numeric functions whose documented value is an uninterpreted function in the symbolic model (rounding, powers,
    transcendental functions): Python's math on sampled values (no rounding ties, inside the real domain)"""
    def run(carve):
        import math
        import warnings

        import polars as pl
        import sqlalchemy as sqa

        from .c13 import _enum_outcome

        pdt = H.pdt
        xs = [2.3456, -2.3456, 0.7249, 17.0491, -0.3149, None, 123.4567, 1.0]  # no value is a rounding tie at 0, 1 or 2 digits
        ns = [7, -7, 0, 3, -12, None, 100, 1]
        ys = [3.0, 0.5, 2.5, 1.5, 2.0, 1.0, None, 3.0]
        df = pl.DataFrame({"x": pl.Series(xs, dtype=pl.Float64), "n": pl.Series(ns, dtype=pl.Int64), "y": pl.Series(ys, dtype=pl.Float64), "h": list(range(8))})
        if backend == "polars":
            t = pdt.Table(df, name="t")
        else:
            eng = sqa.create_engine("sqlite://")
            df.write_database("t", eng)
            t = pdt.Table("t", pdt.SqlAlchemy(eng))

        def N(f):
            def g(*a):
                if any(v is None for v in a):
                    return None
                try:
                    return f(*a)
                except (ValueError, ZeroDivisionError, OverflowError):
                    return "domain"
            return g

        def rnd(v, d=0):
            import decimal

            q = decimal.Decimal(repr(v)).quantize(decimal.Decimal(1).scaleb(-d), rounding=decimal.ROUND_HALF_EVEN)
            return float(q)

        cases = [
            ("x.round()", lambda: t.x.round(), [N(lambda v: rnd(v))(v) for v in xs]), ("x.round(1)", lambda: t.x.round(1), [N(lambda v: rnd(v, 1))(v) for v in xs]), ("x.round(2)", lambda: t.x.round(2), [N(lambda v: rnd(v, 2))(v) for v in xs]),
            ("x.floor()", lambda: t.x.floor(), [N(math.floor)(v) for v in xs]), ("x.ceil()", lambda: t.x.ceil(), [N(math.ceil)(v) for v in xs]), ("x.abs()", lambda: t.x.abs(), [N(abs)(v) for v in xs]), ("n.abs()", lambda: t.n.abs(), [N(abs)(v) for v in ns]),
            ("-x", lambda: -t.x, [N(lambda v: -v)(v) for v in xs]), ("x ** 2", lambda: t.x**2, [N(lambda v: v**2)(v) for v in xs]), ("n ** 2", lambda: t.n**2, [N(lambda v: float(v**2))(v) for v in ns]),
            ("x.abs().sqrt()", lambda: t.x.abs().sqrt(), [N(lambda v: math.sqrt(abs(v)))(v) for v in xs]), ("x.exp()", lambda: (t.x / 50).exp(), [N(lambda v: math.exp(v / 50))(v) for v in xs]),
            ("(x.abs() + 1).log()", lambda: (t.x.abs() + 1).log(), [N(lambda v: math.log(abs(v) + 1))(v) for v in xs]), ("(x.abs() + 1).log10()", lambda: (t.x.abs() + 1).log10(), [N(lambda v: math.log10(abs(v) + 1))(v) for v in xs]),
            ("x.sin()", lambda: t.x.sin(), [N(math.sin)(v) for v in xs]), ("x.cos()", lambda: t.x.cos(), [N(math.cos)(v) for v in xs]), ("x.cbrt()", lambda: t.x.cbrt(), [N(lambda v: math.copysign(abs(v) ** (1 / 3), v))(v) for v in xs]),
            ("n // 4", lambda: t.n // 4, [N(lambda v: int(math.trunc(v / 4)) if False else (abs(v) // 4) * (1 if v >= 0 else -1))(v) for v in ns]), ("n % 4", lambda: t.n % 4, [N(lambda v: int(math.fmod(v, 4)))(v) for v in ns]),
            # two Float64 columns, also with tiny results (relative accuracy: a result must not be rounded to a fixed number of decimals)
            ("rel: x.abs() ** y", lambda: t.x.abs() ** t.y, [N(lambda a, b: abs(a) ** b)(a, b) for a, b in zip(xs, ys)]),
            ("rel: (x / 10000).abs() ** y", lambda: (t.x / 10000).abs() ** t.y, [N(lambda a, b: abs(a / 10000) ** b)(a, b) for a, b in zip(xs, ys)]),
            ("rel: (x / 100000) * (x / 100000)", lambda: (t.x / 100000) * (t.x / 100000), [N(lambda a: (a / 100000) * (a / 100000))(a) for a in xs]),
            ("rel: (x / 100000) / (y * 1000)", lambda: (t.x / 100000) / (t.y * 1000), [N(lambda a, b: (a / 100000) / (b * 1000))(a, b) for a, b in zip(xs, ys)]),
            ("rel: n ** y", lambda: t.n.abs() ** t.y, [N(lambda a, b: float(abs(a)) ** b)(a, b) for a, b in zip(ns, ys)]),
            ("x.fill_null(lit(None, Float64))  [typed null literal]", lambda: t.x.fill_null(pdt.lit(None, pdt.Float64())), list(xs)),
            ("x + lit(None, Float64)", lambda: t.x + pdt.lit(None, pdt.Float64()), [None] * len(xs)),
            ("coalesce(lit(None, Int64), n)", lambda: pdt.coalesce(pdt.lit(None, pdt.Int64()), t.n), list(ns)),
            ("n.clip(-1.5, 2.5)  [integer column, float bounds]", lambda: t.n.clip(-1.5, 2.5), [N(lambda v: max(-1.5, min(2.5, float(v))))(v) for v in ns]),
            ("n.clip(-2, 2.5)  [integer column, mixed bounds]", lambda: t.n.clip(-2, 2.5), [N(lambda v: max(-2.0, min(2.5, float(v))))(v) for v in ns]),
            ("n.clip(-5, 5)", lambda: t.n.clip(-5, 5), [N(lambda v: max(-5, min(5, v)))(v) for v in ns]), ("x.clip(0, None)", lambda: t.x.clip(0.0, None), [N(lambda v: max(0.0, v))(v) for v in xs]),
        ]
        n, bad = 0, []
        with warnings.catch_warnings():
            warnings.simplefilter("ignore")
            for label, mk, want in cases:
                n += 1
                try:
                    got = (t >> pdt.mutate(r=mk()) >> pdt.arrange(t.h) >> pdt.export(pdt.Polars()))["r"].to_list()
                except pdt.errors.NotSupportedError:
                    continue
                except Exception as ex:  # noqa: BLE001
                    bad.append(f"{label} on {backend}: raises {type(ex).__name__}: {str(ex)[:140]}")
                    continue
                ok = len(got) == len(want) and all((g is None and w is None) or (g is not None and w is not None and w != "domain" and abs(float(g) - float(w)) <= 1e-9 * (abs(float(w)) if label.startswith("rel:") else max(1.0, abs(float(w))))) or w == "domain" for g, w in zip(got, want))
                if not ok:
                    bad.append(f"{label} on {backend}: engine {got}, Python gives {want}")
        return _enum_outcome(f"numeric functions on {backend} agree with Python's math on sampled values (no rounding ties)", n, bad)

    return run


def case_reuse_run(carve):
    """case expressions built by extending an open case expression: each denotes its own first-true-branch function (native,
    Python oracle) - the shorter expression is evaluated AFTER the longer one was built from it"""
    import warnings

    import polars as pl
    import sqlalchemy as sqa

    from .c13 import _enum_outcome

    pdt = H.pdt
    a = [3, -2, 0, None, 5, -7]
    df = pl.DataFrame({"a": a, "h": list(range(6))})
    eng = sqa.create_engine("sqlite://")
    df.write_database("t", eng)
    n, bad = 0, []
    with warnings.catch_warnings():
        warnings.simplefilter("ignore")
        for be, t in (("polars", pdt.Table(df, name="t")), ("sqlite", pdt.Table("t", pdt.SqlAlchemy(eng)))):
            pos = pdt.when(t.a > 0).then(1)
            sign = pos.when(t.a < 0).then(-1)
            full = sign.otherwise(0)
            wc = pdt.when(t.a > 2)
            big, huge = wc.then(10), wc.then(20).when(t.a > 0).then(5)
            m1 = t.a.map({3: 30})
            m2 = t.a.map({3: 30, (5, -7): 50}, default=-1)
            want = {
                "pos": [1 if (v is not None and v > 0) else None for v in a],
                "sign": [None if v is None else (1 if v > 0 else (-1 if v < 0 else None)) for v in a],
                "full": [0 if v is None else (1 if v > 0 else (-1 if v < 0 else 0)) for v in a],
                "big": [10 if (v is not None and v > 2) else None for v in a],
                "huge": [None if v is None else (20 if v > 2 else (5 if v > 0 else None)) for v in a],
                "m1": [30 if v == 3 else v for v in a],
                "m2": [30 if v == 3 else (50 if v in (5, -7) else -1) for v in a],
            }
            # a constant condition is a condition like any other (first true branch)
            want["const_true"] = [1 if (v is not None and v > 2) else 2 for v in a]
            want["const_false"] = [1 if (v is not None and v > 2) else 3 for v in a]
            exprs = {"full": full, "sign": sign, "pos": pos, "huge": huge, "big": big, "m2": m2, "m1": m1}
            for cname, cval in (("const_true", True), ("const_false", False)):
                try:
                    exprs[cname] = pdt.when(t.a > 2).then(1).when(pdt.lit(cval)).then(2).otherwise(3)
                except Exception as ex:  # noqa: BLE001
                    n += 1
                    bad.append(f"[{be}] when(a > 2).then(1).when(lit({cval})).then(2).otherwise(3) is rejected: {type(ex).__name__}: {str(ex)[:100]}")
            for name, e in exprs.items():
                n += 1
                try:
                    got = (t >> pdt.mutate(r=e) >> pdt.arrange(t.h) >> pdt.export(pdt.Polars()))["r"].to_list()
                except Exception as ex:  # noqa: BLE001
                    bad.append(f"[{be}] {name}: raises {type(ex).__name__}: {str(ex)[:120]}")
                    continue
                if got != want[name]:
                    bad.append(f"[{be}] case expression `{name}` (evaluated after longer expressions were built from it): {got}, first-true-branch semantics give {want[name]}")
    return _enum_outcome("case expressions extended from a shared prefix each keep their own first-true-branch meaning (Python oracle, both backends)", n, bad)


def obligations(tier):
    obs = []
    backend_cls = {"polars": H.polars_backend.PolarsImpl, "sqlite": H.sqlite_backend.SqliteImpl}
    disp = {
        "polars": H.fn_info(H.polars_backend.compile_col_expr),
        "sqlite": H.fn_info(H.sql_backend.SqlImpl.compile_col_expr),
    }
    for opname, op in H.ALL_OPS.items():
        if opname not in optable.SPEC or op.ftype != H.Ftype.ELEMENT_WISE:
            continue
        for dts, kinds in shapes_for(opname, op):
            nvar = len(dts)
            for backend in BACKENDS:
                sig = tuple(types.with_const(d) if k != "col" else d for d, k in zip(dts, kinds))
                try:
                    f = H.impl_function(backend_cls[backend], op, sig)
                except Exception:  # noqa: BLE001
                    f = None
                fns = [disp[backend]] + ([H.fn_info(f)] if f is not None else [])
                if backend == "sqlite":
                    fns.append(H.fn_info(H.sql_backend.SqlImpl.compile_lit))
                oid = f"C03/E1/{opname}/{backend}/{','.join(f'{k}:{d}' for k, d in zip(kinds, dts))}"
                bounded = None
                if any(s.is_vararg for s in op.signatures) and nvar > 2:
                    bounded = f"vararg length {nvar} (lengths up to fixed+2 are enumerated; values unbounded)"
                if (tuple(map(str, dts)), tuple(kinds)) not in NATIVE_ONLY:
                  obs.append(
                    Obligation(
                        oid,
                        "E1",
                        f"{opname} on {backend}: compiled value equals the documented value ({optable.DOC[opname][:80]})",
                        make_run(opname, op, dts, kinds, backend),
                        functions=fns,
                        bounded=bounded,
                        carveouts={"null_bound": "exclude null clip bounds", "whole": "whole obligation", "null_input": "exclude a null first operand"},
                        replayer=make_replayer(opname, op, dts, kinds, backend),
                        tags=("cross_backend",),
                    )
                )
                if all(str(d) in SAMPLES for d, k in zip(dts, kinds) if k != "none"):
                    obs.append(
                        Obligation(
                            oid.replace("/E1/", "/LIB/"),
                            "LIB",
                            f"{opname} on {backend}: SPEC evaluated on sampled rows equals what the real engine returns (conformance of the specification / library models)",
                            make_lib(opname, op, dts, kinds, backend, int(os.environ.get("VERIF_SEED", "0") or 0)),
                            functions=fns,
                            bounded="14 sampled rows (values from small per-type pools, nulls with probability 1/4) per operator x signature x backend; native execution",
                            carveouts={"null_input": "exclude a null first operand", "whole": "whole obligation"},
                        )
                    )
    for backend in BACKENDS:
        obs.append(Obligation(f"C03/LIB-dt/{backend}", "LIB", f"temporal operators on {backend} against Python's datetime (the symbolic model treats temporal values as abstract ordinals)", temporal_run_factory(backend),
                              functions=[disp[backend]], bounded="35 temporal expressions (incl. untyped None operands) on 6 rows (leap day, year end, microseconds, negative durations, nulls); native execution", tags=("cross_backend",)))
    for backend in BACKENDS:
        obs.append(Obligation(f"C03/LIB-num/{backend}", "LIB", f"rounding / power / transcendental functions on {backend} against Python's math", numeric_run_factory(backend), functions=[disp[backend]],
                              bounded="31 numeric expressions on 8 rows (negative values, nulls, no rounding ties); native execution", tags=("cross_backend",)))
    obs.append(Obligation("C03/NW/narrow_types/polars", "NW", "operators on Int8 / Int32 / UInt16 / Float32 columns (with columns and Python literals) agree with the widened data", narrow_types_run, functions=[disp["polars"]],
                          bounded="every element-wise operator x signatures of arity <= 2 with a narrow column on one 3-row frame (0.1, 3e38 as Float32; 100 as Int8; 2**30 as Int32)"))
    obs.append(Obligation("C03/E3/case_reuse", "E3", "case expressions built from a shared open prefix (native, Python oracle)", case_reuse_run, functions=[H.fn_info(H.col_expr_mod.WhenClause.then), H.fn_info(H.col_expr_mod.CaseExpr.when), H.fn_info(H.col_expr_mod.CaseExpr.otherwise), H.fn_info(H.col_expr_mod.ColExpr.map)],
                          bounded="9 case / map expressions (shared prefixes, constant conditions) x 2 backends on one 6-row column"))
    obs.append(Obligation("C03/B/method_binding", "B", "methods, accessors, reflected operators and free functions are bound to their operators with the arguments in order", binding_run,
                          functions=[H.fn_info(H.col_expr_mod.ColFn.__init__)], bounded="up to 4 column-only and 8 literal-carrying argument shapes per operator (every operator of the registry); the bound method is a straight-line constructor call"))
    from pydiverse.common import Float64, Int64, String

    case_fns = {
        "polars": [disp["polars"]],
        "sqlite": [disp["sqlite"]],
    }
    for backend in BACKENDS:
        for n in (1, 2, 3):
            for dflt in (False, True):
                for dt in (Int64(), Float64(), String()) if n == 2 else (Int64(),):
                    obs.append(
                        Obligation(
                            f"C03/E3/case/{backend}/{n}branches/default={dflt}/{dt}",
                            "E3",
                            "case expression takes its first true branch, null without a match",
                            make_case_run(n, dflt, dt, backend),
                            functions=case_fns[backend] + [H.fn_info(H.col_expr_mod.CaseExpr.__init__)],
                            bounded=f"{n} branches (1..3 enumerated; values unbounded)",
                            tags=("cross_backend",),
                        )
                    )
        for nk, ng, dflt in ((1, 1, False), (1, 2, True), (2, 2, False), (2, 1, True)):
            obs.append(
                Obligation(
                    f"C03/E3/map/{backend}/{ng}groups_x{nk}keys/default={dflt}",
                    "E3",
                    "x.map({...}) is the case expression over is_in of the keys, default or self otherwise",
                    make_map_run(nk, ng, dflt, backend),
                    functions=case_fns[backend] + [H.fn_info(H.col_expr_mod.ColExpr.map)],
                    bounded=f"{ng} key groups of {nk} keys (values unbounded)",
                    tags=("cross_backend",),
                )
            )
    return obs


DESIGN_REF = "DESIGN.md §5.3"
ASSUMPTIONS = [
    "A-math: column values are mathematical integers / reals; inputs lie in (-2^62, 2^62) and the documented result fits int64; floating point rounding, NaN and infinities are outside the value domain (DESIGN §4)",
    "division/modulo by zero, rounding ties, arguments outside a function's real domain are excluded (precondition of the obligation, as in the property statement)",
    "string order is an abstract total order shared by both engines (binary collation)",
    "real functions (exp, log, sin, ..., pow, round_to) are uninterpreted: both engines and the documentation are assumed to mean the same mathematical function",
]
