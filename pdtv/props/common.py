"""Shared helpers of the per-property obligation generators."""

from __future__ import annotations

import itertools
from fractions import Fraction

import z3

from pydiverse.common import Bool, Date, Datetime, Decimal, Duration, Float, Float64, Int, Int64, String, Time

from .. import core, plmodel, sqlmodel
from .. import harness as H
from .. import nv as N
from ..core import SymBool, SymInt, SymReal, SymStr, Unsupported, explore
from ..oblig import VC, Outcome

types = H.types_mod

TRUSTED_MODELS = [
    "T-engine: pdtv symbolic execution (proxy values + exhaustive path exploration) and z3 5.1 / cvc5 1.0",
    "T-lib: library models pdtv/plmodel.py (polars) and pdtv/sqlmodel.py (SQLAlchemy constructs + SQLite semantics); axioms listed under library_axioms_used",
    "T-import: module-level tables (operator tries, IMPLICIT_CONVS, impl stores) are built by running the real import-time code",
]


def concrete_instances(t):
    """column dtypes that instantiate a declared parameter type"""
    base = types.without_const(t)
    if isinstance(base, types.Tyvar):
        return [Int64(), Float64(), Bool(), String()]
    if type(base) is Int:
        return [Int64()]
    if type(base) is Float:
        return [Float64()]
    return [base]


def sym_literal(name, dtype):
    """a LiteralCol of the given (non-const) dtype with a symbolic, non-null python value"""
    s = H.sort_of_dtype(dtype)
    c = z3.Const(name, s)
    v = core.wrap(c)
    return H.LiteralCol(v, dtype), N.NV(False, c), c


def py_of_model_value(v, dtype):
    s = H.sort_of_dtype(dtype)
    if v is None:
        return None
    if s == N.REAL:
        if isinstance(v, Fraction):
            return float(v)
        if isinstance(v, str):
            try:
                return float(Fraction(v.rstrip("?")))
            except Exception:  # noqa: BLE001
                return None
        return float(v)
    return v


def exc_is_refusal(e):
    from pydiverse.transform.errors import NotSupportedError

    return isinstance(e, NotSupportedError)


INTERNAL = (AssertionError, KeyError, IndexError, AttributeError, TypeError, UnboundLocalError, StopIteration, NameError, ValueError, ZeroDivisionError)
