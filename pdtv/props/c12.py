"""C12 - static types predict the exported types.

  D1  round trip: Dtype.from_polars(t.to_polars()) == t for every concrete type of the universe (generic Int/Float
      map to Int64/Float64); also through an actual frame (Table(df) re-import)                    [type universe]
  D2  declared return types are closed (no type variable escapes)                                  [C13/T7]
  D3  for every operator x accepted signature over concrete column types (incl. const / null literals), the column
      exported by the real Polars backend has a dtype that is a subtype of - for concrete static types equal to -
      the static type of the expression; on SQLite the numeric family agrees                        [native, bounded]
  D3c the same for every accepted cast pair (target given as concrete and as generic type)
  D4  lca_type is an upper bound of its arguments (converts_to) and independent of argument order    [type universe]
  D5  re-import / collect reproduce the column types of the exported frame
"""

from __future__ import annotations

import datetime
import itertools
import warnings

from .. import harness as H
from .. import typeuniverse as TU
from ..oblig import Obligation, Outcome
from .c13 import _enum_outcome, _fmt, _rt

pdt = H.pdt
T = H.types_mod
Dtype = H.Dtype
from pydiverse.common import NullType as NullT  # noqa: E402


def d1_run(carve):
    n, bad = 0, []
    for t in TU.BASE:
        if TU.family(t) == "list" and TU.is_null_typed(t):
            continue
        n += 1
        try:
            back = Dtype.from_polars(t.to_polars())
        except Exception as e:  # noqa: BLE001
            bad.append(f"{t}: to_polars/from_polars raises {type(e).__name__}: {e}")
            continue
        want = t
        if type(t) is pdt.Int:
            want = pdt.Int64()
        elif type(t) is pdt.Float:
            want = pdt.Float64()
        elif isinstance(t, pdt.String) and not isinstance(t, pdt.Enum):
            want = pdt.String()  # max_length is not representable in a frame
        if not (back == want and type(back) is type(want)):
            bad.append(f"from_polars(to_polars({t})) = {back}, expected {want}")
    return _enum_outcome("Dtype.from_polars(t.to_polars()) == t (generic -> 64 bit, String(n) -> String) over the type universe", n, bad)


def d4_run(carve):
    from pydiverse.transform._internal.errors import DataTypeError

    n, bad = 0, []
    base = [t for t in TU.BASE if TU.family(t) != "list" or not TU.is_null_typed(t)]
    for a, b in itertools.product(base, repeat=2):
        n += 1
        try:
            l1 = T.lca_type([a, b])
        except DataTypeError:
            try:
                T.lca_type([b, a])
                bad.append(f"lca_type([{a}, {b}]) fails but lca_type([{b}, {a}]) succeeds")
            except DataTypeError:
                pass
            except Exception as e:  # noqa: BLE001
                bad.append(f"lca_type([{b}, {a}]) raises {type(e).__name__}: {e}")
            continue
        except Exception as e:  # noqa: BLE001
            bad.append(f"lca_type([{a}, {b}]) raises {type(e).__name__}: {e}")
            continue
        try:
            l2 = T.lca_type([b, a])
        except Exception as e:  # noqa: BLE001
            bad.append(f"lca_type([{b}, {a}]) raises {type(e).__name__} although the swapped call gives {l1}")
            continue
        if not (l1 == l2 and type(l1) is type(l2)):
            bad.append(f"lca_type depends on the argument order: [{a}, {b}] -> {l1}, swapped -> {l2}")
        for x in (a, b):
            if TU.is_null_typed(x) and not isinstance(x, pdt.List):
                continue  # the null type is below every type
            if not T.converts_to(x, l1):
                bad.append(f"lca_type([{a}, {b}]) = {l1} is not an upper bound of {x}")
        if TU.has_tyvar(l1):
            bad.append(f"lca_type([{a}, {b}]) = {l1} contains a type variable")
    return _enum_outcome("lca_type(a, b) is order independent and an upper bound (converts_to) of both arguments; no internal error", n, bad)


def frames():
    import polars as pl

    data = {
        "i64": pl.Series([3, 1, None], dtype=pl.Int64), "i32": pl.Series([3, 1, None], dtype=pl.Int32), "i8": pl.Series([3, 1, None], dtype=pl.Int8), "u16": pl.Series([3, 1, None], dtype=pl.UInt16),
        "f64": pl.Series([1.5, None, 2.5], dtype=pl.Float64), "f32": pl.Series([1.5, None, 2.5], dtype=pl.Float32),
        "s": pl.Series(["a", None, "b"], dtype=pl.String), "b": pl.Series([True, None, False], dtype=pl.Boolean),
        "d": pl.Series([datetime.date(2020, 1, 2), None, datetime.date(2021, 3, 4)], dtype=pl.Date),
        "dt": pl.Series([datetime.datetime(2020, 1, 2, 3, 4, 5), None, datetime.datetime(2021, 3, 4)], dtype=pl.Datetime("us")),
        "dur": pl.Series([datetime.timedelta(days=1), None, datetime.timedelta(hours=5)], dtype=pl.Duration("us")),
        "i64b": pl.Series([2, 2, 1], dtype=pl.Int64), "f64b": pl.Series([0.5, 1.0, None], dtype=pl.Float64), "sb": pl.Series(["x", "a", None], dtype=pl.String), "bb": pl.Series([False, True, None], dtype=pl.Boolean),
        "db": pl.Series([datetime.date(2019, 1, 2)] * 3, dtype=pl.Date), "dtb": pl.Series([datetime.datetime(2019, 1, 2)] * 3, dtype=pl.Datetime("us")), "durb": pl.Series([datetime.timedelta(days=2)] * 3, dtype=pl.Duration("us")),
        "g": pl.Series([1, 1, 2], dtype=pl.Int64),
    }
    return pl.DataFrame(data)


COLMAP = {"Int64": ("i64", "i64b"), "Int32": ("i32", "i32"), "Int8": ("i8", "i8"), "UInt16": ("u16", "u16"), "Float64": ("f64", "f64b"), "Float32": ("f32", "f32"), "String": ("s", "sb"), "Bool": ("b", "bb"), "Date": ("d", "db"),
          "Datetime": ("dt", "dtb"), "Duration": ("dur", "durb")}


def sig_universe(op):
    from pydiverse.common import Bool, Date, Datetime, Duration, Float32, Float64, Int8, Int32, Int64, NullType, String, UInt16

    base = [Int64(), Int32(), Int8(), UInt16(), Float64(), Float32(), String(), Bool(), Date(), Datetime(), Duration()]
    small = [Int64(), Float64(), String(), Bool(), Date(), Datetime(), Duration()]
    for n in TU.arities(op):
        U = (base if n <= 2 else small)
        U = U + [T.Const(b) for b in small] + [T.Const(NullType())]
        for sig in itertools.product(U, repeat=n) if n <= 3 else itertools.product(TU.core_types(op), repeat=n):
            if n > 0 and all(T.is_const(x) for x in sig):
                continue  # at least one column (a constant expression has no column type of its own)
            st, _ = _rt(op, sig)
            if st == "ok":
                m = op.trie.best_match(list(sig))
                if any(T.is_const(p) and TU.is_null_typed(a) for a, p in zip(sig, m[0], strict=False)):
                    continue  # F-null-const-param (C19)
                if any(T.is_const(a) and TU.family(a) == "duration" for a in sig):
                    continue
                yield sig


LITS = {"int": 2, "float": 1.5, "string": "a", "bool": True, "date": datetime.date(2020, 1, 2), "datetime": datetime.datetime(2020, 1, 2, 3, 4, 5)}


LITS_WHOLE = dict(LITS, float=2.0)  # a float literal with a whole-number value: still a float


def mk_args(t, sig, variant=0, lits=None):
    """variant 1 takes the second sample column of each type first (other values: e.g. an Int column that exceeds the Float one in every row)"""
    args, used = [], {}
    lits = lits or LITS
    for p in sig:
        fam = TU.family(p)
        if T.is_const(p):
            if fam == "nulltype":
                args.append(None)
            elif fam in lits:
                args.append(lits[fam])
            else:
                return None
        else:
            names = COLMAP.get(type(T.without_const(p)).__name__)
            if names is None:
                return None
            k = used.get(names[0], 0)
            used[names[0]] = k + 1
            args.append(t[names[min(k, 1) if variant == 0 else 1 - min(k, 1)]])
    return args


def check_type(static, exported_pl, exact_needed=True):
    """None if ok else message"""
    try:
        got = Dtype.from_polars(exported_pl)
    except Exception as e:  # noqa: BLE001
        return f"exported polars dtype {exported_pl} has no Dtype ({type(e).__name__})"
    st = T.without_const(static)
    if isinstance(st, NullT) or isinstance(got, NullT):
        return None  # all-null columns may be null-typed
    if isinstance(st, pdt.List):
        return None if isinstance(got, pdt.List) else f"static {st}, exported {got}"
    if isinstance(st, pdt.String):
        return None if isinstance(got, pdt.String) else f"static {st}, exported {got}"
    if type(st) is pdt.Int:
        return None if got.is_int() else f"static type Int but exported {got} ({exported_pl})"
    if type(st) is pdt.Float:
        return None if got.is_float() else f"static type Float but exported {got} ({exported_pl})"
    if isinstance(st, pdt.Decimal):
        return None if got.is_float() else f"static {st}, exported {got}"
    return None if (got == st and type(got) is type(st)) else f"static type {st} but exported {got} ({exported_pl})"


def d3_run(carve):
    import polars as pl

    n, bad, skipped = 0, [], 0
    with warnings.catch_warnings():
        warnings.simplefilter("ignore")
        t = pdt.Table(frames(), name="t")
        for opname, op in H.ALL_OPS.items():
            if isinstance(op, pdt._internal.ops.ops.markers.Marker) or opname in ("rand",):
                continue
            if "list_agg" in carve and opname == "list_agg":
                continue
            for sig, lits in [(sg, ls) for sg in sig_universe(op) for ls in ((LITS, LITS_WHOLE) if any(T.is_const(x) and TU.family(x) == "float" for x in sg) else (LITS,))]:
                args = mk_args(t, sig, lits=lits)
                if args is None:
                    continue
                try:
                    kw = {"arrange": [t.g]} if op.ftype == H.Ftype.WINDOW else {}
                    e = H.ColFn(op, *args, **kw)
                    if op.ftype == H.Ftype.AGGREGATE:
                        tbl = t >> pdt.group_by(t.g) >> pdt.summarize(r=e)
                    else:
                        tbl = t >> pdt.mutate(r=e)
                    static = tbl.r.dtype()
                except Exception as ex:  # noqa: BLE001
                    bad.append(f"{opname}{_fmt(sig)}: building the pipeline raises {type(ex).__name__}: {str(ex)[:100]}")
                    continue
                n += 1
                try:
                    out = tbl >> pdt.export(pdt.Polars())
                except (pl.exceptions.ComputeError, pl.exceptions.InvalidOperationError, pl.exceptions.SchemaError, pl.exceptions.PanicException, pdt.errors.NotSupportedError) as ex:
                    skipped += 1
                    continue
                except Exception as ex:  # noqa: BLE001
                    bad.append(f"{opname}{_fmt(sig)}: export raises {type(ex).__name__}: {str(ex)[:100]}")
                    continue
                msg = check_type(static, out["r"].dtype)
                if msg and "int_as_float" in carve and opname in ("floor", "ceil") and type(T.without_const(static)) is pdt.Float and Dtype.from_polars(out["r"].dtype).is_int() and any(TU.family(x) == "int" for x in sig):
                    continue
                if msg:
                    bad.append(f"{opname}{_fmt(sig)}: {msg}")
    o = _enum_outcome("Polars: exported dtype of ColFn(op, args) is a subtype of / equal to the static type, for every operator x accepted signature", n, bad)
    o.notes.append(f"{skipped} signature instances skipped because the sample data makes the engine raise (data dependent)")
    return o


def d3c_run(carve):
    import polars as pl

    n, bad = 0, []
    with warnings.catch_warnings():
        warnings.simplefilter("ignore")
        t = pdt.Table(frames(), name="t")
        targets = [pdt.Int(), pdt.Int64(), pdt.Int32(), pdt.Int8(), pdt.UInt16(), pdt.Float(), pdt.Float64(), pdt.Float32(), pdt.String(), pdt.Date(), pdt.Datetime(), pdt.Bool()]
        for cname in ("i64", "i8", "f64", "f32", "s", "b", "d", "dt"):
            for tg in targets:
                for lit in (False, True):
                    src = t[cname] if not lit else {"i64": pdt.lit(3), "f64": pdt.lit(1.5), "s": pdt.lit("7"), "b": pdt.lit(True)}.get(cname)
                    if src is None:
                        continue
                    try:
                        e = src.cast(tg)
                    except (pdt.errors.DataTypeError, TypeError):
                        continue
                    n += 1
                    try:
                        tbl = t >> pdt.mutate(r=e)
                        static = tbl.r.dtype()
                        out = tbl >> pdt.export(pdt.Polars())
                    except (pl.exceptions.ComputeError, pl.exceptions.InvalidOperationError):
                        continue
                    except Exception as ex:  # noqa: BLE001
                        bad.append(f"cast {cname}{' (literal)' if lit else ''} -> {tg}: {type(ex).__name__}: {str(ex)[:100]}")
                        continue
                    msg = check_type(static, out["r"].dtype)
                    if msg:
                        bad.append(f"cast {t[cname].dtype()}{' (literal)' if lit else ''} -> {tg}: {msg}")
    return _enum_outcome("Polars: a cast exports the requested type (generic Int / Float: some int / float type)", n, bad)


def d5_run(carve):
    n, bad = 0, []
    with warnings.catch_warnings():
        warnings.simplefilter("ignore")
        t = pdt.Table(frames(), name="t")
        pipes = {
            "plain": t,
            "mutate": t >> pdt.mutate(x=t.i64 + t.i32, y=t.f32 * 2, z=t.i8 / t.i64, w=pdt.when(t.b).then(t.i32).otherwise(t.i8), n=pdt.lit(None), k=t.s + "x"),
            "summarize": t >> pdt.group_by(t.g) >> pdt.summarize(a=t.i32.sum(), m=t.i8.mean(), mx=t.f32.max(), c=pdt.count(), an=t.b.any()),
        }
        u = pdt.Table(frames(), name="u")
        pipes["join_pad"] = t >> pdt.select(t.g, t.i8) >> pdt.left_join(u >> pdt.select(u.i64, u.f32), t.g == u.i64)
        for name, tbl in pipes.items():
            n += 1
            try:
                df = tbl >> pdt.export(pdt.Polars())
                for c in tbl:
                    msg = check_type(c.dtype(), df[c.name].dtype)
                    if msg:
                        bad.append(f"{name}: column {c.name}: {msg}")
                re = pdt.Table(df)
                col = tbl >> pdt.collect()
                for c in tbl:
                    for other, what in ((re, "Table(exported frame)"), (col, "collect()")):
                        oc = other[c.name]
                        want = Dtype.from_polars(df[c.name].dtype)
                        if not (T.without_const(oc.dtype()) == want):
                            bad.append(f"{name}: column {c.name}: {what} has type {oc.dtype()}, the exported frame has {want}")
            except Exception as ex:  # noqa: BLE001
                bad.append(f"{name}: {type(ex).__name__}: {str(ex)[:160]}")
    return _enum_outcome("export -> Table(frame) / collect() reproduce the exported column types; exported types match the static ones", n, bad)


def d3_sqlite_run(carve):
    import polars as pl
    import sqlalchemy as sqa

    n, bad, skipped = 0, [], 0
    with warnings.catch_warnings():
        warnings.simplefilter("ignore")
        eng = sqa.create_engine("sqlite://")
        df = frames().select("i64", "f64", "s", "b", "i64b", "f64b", "sb", "bb", "g")
        df.write_database("t", eng)
        t = pdt.Table("t", pdt.SqlAlchemy(eng))
        for opname, op in H.ALL_OPS.items():
            if isinstance(op, pdt._internal.ops.ops.markers.Marker) or opname in ("rand", "list_agg", "str_join"):
                continue
            for sig in sig_universe(op):
                if any(type(T.without_const(p)).__name__ not in ("Int64", "Float64", "String", "Bool", "NullType") for p in sig) or len(sig) > 2:
                    continue
                for variant in (0, 1):
                    args = mk_args(t, sig, variant)
                    if args is None or (variant == 1 and len(sig) < 2):
                        continue
                    try:
                        kw = {"arrange": [t.g]} if op.ftype == H.Ftype.WINDOW else {}
                        e = H.ColFn(op, *args, **kw)
                        tbl = (t >> pdt.group_by(t.g) >> pdt.summarize(r=e)) if op.ftype == H.Ftype.AGGREGATE else (t >> pdt.mutate(r=e))
                        static = T.without_const(tbl.r.dtype())
                        n += 1
                        out = tbl >> pdt.export(pdt.Polars())
                    except (pdt.errors.NotSupportedError, pdt.errors.SubqueryError):
                        continue
                    except Exception as ex:  # noqa: BLE001
                        skipped += 1
                        continue
                    got = Dtype.from_polars(out["r"].dtype)
                    if isinstance(got, NullT):
                        continue
                    fam_s, fam_g = TU.family(static), TU.family(got)
                    if "sqlite_dynamic_typing" in carve and {fam_s, fam_g} == {"int", "float"} and opname in ("round", "floor", "ceil", "coalesce", "fill_null"):
                        continue
                    if fam_s != fam_g and not (fam_s == "bool" and fam_g == "int"):
                        bad.append(f"sqlite: {opname}{_fmt(sig)} (sample columns variant {variant}): static family {fam_s} ({static}), exported {got}")
    o = _enum_outcome("SQLite: the exported column has the numeric family of the static type (Bool may come back as 0/1 integer)", n, bad)
    o.notes.append(f"{skipped} instances skipped (engine errors on the sample data)")
    return o


def d10_run(carve):
    """shift(n, fill_value) for n > 0 and n < 0 on columns of every sample type: the exported type is the static type on
    Polars and has its family on SQLite (Bool as 0/1 integer allowed, dates / datetimes are dates / datetimes)"""
    import polars as pl
    import sqlalchemy as sqa

    fr = frames().select("i64", "f64", "s", "b", "d", "dt", "g").with_columns(h=pl.Series([0, 1, 2]))
    eng = sqa.create_engine("sqlite://")
    fr.write_database("t", eng)
    fills = {"i64": 7, "f64": 1.5, "s": "zz", "b": True, "d": datetime.date(2001, 2, 3), "dt": datetime.datetime(2001, 2, 3, 4, 5, 6)}
    n, bad = 0, []
    with warnings.catch_warnings():
        warnings.simplefilter("ignore")
        for be, t in (("polars", pdt.Table(fr, name="t")), ("sqlite", pdt.Table("t", pdt.SqlAlchemy(eng)))):
            for cname, fill in fills.items():
                for k in (1, -1, 2, -2):
                    for with_fill in (True, False):
                        n += 1
                        lab = f"[{be}] {cname}.shift({k}{', ' + repr(fill) if with_fill else ''}, arrange=h)"
                        try:
                            x = t >> pdt.mutate(r=t[cname].shift(k, fill, arrange=t.h) if with_fill else t[cname].shift(k, arrange=t.h))
                            out = x >> pdt.arrange(t.h) >> pdt.export(pdt.Polars())
                        except Exception as e:  # noqa: BLE001
                            bad.append(f"{lab}: {type(e).__name__}: {str(e)[:100]}")
                            continue
                        st = T.without_const(x.r.dtype())
                        got = out.schema["r"]
                        src = fr[cname].to_list()
                        want = [(src[i - k] if 0 <= i - k < 3 else (fill if with_fill else None)) for i in range(3)]
                        if out["r"].to_list() != want and not (be == "sqlite" and cname == "b" and [None if v is None else bool(v) for v in out["r"].to_list()] == want):
                            bad.append(f"{lab}: values {out['r'].to_list()}, documented {want}")
                        if be == "polars":
                            msg = check_type(st, got)
                        else:
                            fs, fg = TU.family(st), TU.family(Dtype.from_polars(got)) if got != pl.Null else TU.family(st)
                            msg = None if fs == fg or (fs == "bool" and fg == "int") else f"static family {fs} ({st}), exported {got}"
                        if msg:
                            bad.append(f"{lab}: {msg}")
    return _enum_outcome("shift with and without a fill value, forwards and backwards: documented values, exported type = static type (family on SQLite)", n, bad)


def d9_run(carve):
    """columns of parametrised types (Decimal(p, s), Enum): the static type of expressions over them predicts the exported type"""
    import decimal

    import polars as pl

    known = {"a.shift(1)", "e.shift(1)", "e.fill_null('x')", "max(a, a)", "a + a", "a.max()"} if "parametrised_types" in carve else set()  # the expressions named by F-parametrised-static-types
    D = decimal.Decimal
    n, bad = 0, []
    with warnings.catch_warnings():
        warnings.simplefilter("ignore")
        t = pdt.Table(pl.DataFrame({"a": pl.Series([D("1.00"), D("2.50"), None], dtype=pl.Decimal(10, 2)), "k": [1, 2, 3], "e": pl.Series(["x", "y", None], dtype=pl.Enum(["x", "y"]))}), name="t")
        exprs = {
            "a": lambda: t.a, "e": lambda: t.e, "a.shift(1)": lambda: t.a.shift(1, arrange=t.k), "a.fill_null(None)": lambda: t.a.fill_null(None), "e.shift(1)": lambda: t.e.shift(1, arrange=t.k), "e.fill_null('x')": lambda: t.e.fill_null("x"),
            "max(a, a)": lambda: pdt.max(t.a, t.a), "coalesce(e, None)": lambda: pdt.coalesce(t.e, None), "a + a": lambda: t.a + t.a, "when(k > 1).then(e)": lambda: pdt.when(t.k > 1).then(t.e), "a.max()": lambda: t.a.max(), "a == a": lambda: t.a == t.a,
        }
        for label, mk in exprs.items():
            if label in known:
                continue
            n += 1
            try:
                x = t >> pdt.mutate(r=mk())
                out = x >> pdt.export(pdt.Polars())
            except Exception as e:  # noqa: BLE001
                bad.append(f"{label}: {type(e).__name__}: {str(e)[:100]}")
                continue
            st = T.without_const(x.r.dtype())
            got = out.schema["r"]
            try:
                ok = (type(st) is pdt.Float and got.is_float()) or (type(st) is pdt.Int and got.is_integer()) or st.to_polars() == got
            except Exception:  # noqa: BLE001
                ok = False
            if not ok:
                bad.append(f"{label}: static type {st}, exported {got}")
    return _enum_outcome("expressions over Decimal(p, s) / Enum columns: the static type predicts the exported type", n, bad)


def d8_run(carve):
    """unions: the static type of every result column is the common type of the two operand columns OF THAT NAME (operands may
    list their columns in different orders and with different but compatible types), and the exported frame has it"""
    import itertools

    import polars as pl
    import sqlalchemy as sqa

    cols = {
        "i": (pl.Int64, [1, None, 3]), "j": (pl.Int32, [4, 5, None]), "f": (pl.Float64, [0.5, None, 2.5]), "s": (pl.String, ["x", None, "z"]), "b": (pl.Boolean, [True, None, False]),
    }
    # per result name: the right operand's column of that name is built from this source column
    variants = [
        {"i": "i", "f": "f", "s": "s"}, {"i": "f", "f": "i", "s": "s"}, {"i": "j", "f": "j", "s": "s"}, {"i": "i", "f": "i", "s": "s", "b": "b"}, {"i": "j", "f": "f", "b": "b"},
    ]
    L = pl.DataFrame({k: pl.Series(k, v, dtype=t) for k, (t, v) in cols.items()})
    eng = sqa.create_engine("sqlite://")
    L.write_database("l", eng)
    L.write_database("r", eng)
    n, bad = 0, []
    with warnings.catch_warnings():
        warnings.simplefilter("ignore")
        for be in ("polars", "sqlite"):
            for var in variants:
                names = list(var)
                for perm in itertools.islice(itertools.permutations(names), 0, 6):
                    l = pdt.Table(L, name="l") if be == "polars" else pdt.Table("l", pdt.SqlAlchemy(eng))
                    r = pdt.Table(L, name="r") if be == "polars" else pdt.Table("r", pdt.SqlAlchemy(eng))
                    lab = f"[{be}] l.select({','.join(names)}) | r.(" + ", ".join(f"{nm}=r.{var[nm]}" for nm in perm) + ")"
                    n += 1
                    try:
                        left = l >> pdt.select(*[l[nm] for nm in names])
                        right = r >> pdt.mutate(**{"_" + nm: r[var[nm]] for nm in perm}) >> pdt.select(*[pdt.C["_" + nm] for nm in perm]) >> pdt.rename({"_" + nm: nm for nm in perm})
                        u = left >> pdt.union(right)
                        df = u >> pdt.export(pdt.Polars())
                    except Exception as e:  # noqa: BLE001
                        bad.append(f"{lab}: raises {type(e).__name__}: {str(e)[:100]}")
                        continue
                    # expressions over references taken from the LEFT operand before the union are typed by the union's columns
                    try:
                        nm0 = names[0]
                        derived = u >> pdt.mutate(x__=l[nm0], y__=l[nm0].fill_null(l[nm0]), w__=pdt.when(l[nm0].is_null()).then(l[nm0]).otherwise(l[nm0]), z__=pdt.coalesce(l[nm0], l[nm0]))
                        ddf = derived >> pdt.export(pdt.Polars())
                        for cn in ("x__", "y__", "w__", "z__"):
                            st = T.without_const(derived[cn].dtype())
                            if be == "polars":
                                msg = check_type(st, ddf.schema[cn])
                            else:
                                fs, fg = TU.family(st), TU.family(Dtype.from_polars(ddf.schema[cn]))
                                msg = None if fs == fg or (fs == "bool" and fg == "int") else f"static family {fs} ({st}), exported {ddf.schema[cn]}"
                            if msg:
                                bad.append(f"{lab} >> mutate({cn[0]}=<expression over l.{nm0}, a reference taken before the union>): {msg}")
                    except (pdt.errors.DataTypeError, pdt.errors.FunctionTypeError):
                        pass
                    except Exception as e:  # noqa: BLE001
                        bad.append(f"{lab} >> mutate(<expression over l.{names[0]}>): raises {type(e).__name__}: {str(e)[:100]}")
                    for nm in names:
                        want = T.lca_type([left[nm].dtype(), right[nm].dtype()])
                        static = T.without_const(u[nm].dtype())
                        if static != want or type(static) is not type(want):
                            bad.append(f"{lab}: column {nm} is announced as {static}; the operand columns of that name are {left[nm].dtype()} and {right[nm].dtype()} (common type {want})")
                            continue
                        if be == "polars":
                            msg = check_type(static, df.schema[nm])
                        else:
                            fs, fg = TU.family(static), TU.family(Dtype.from_polars(df.schema[nm]))
                            msg = None if fs == fg or (fs == "bool" and fg == "int") else f"static family {fs} ({static}), exported {df.schema[nm]}"
                        if msg:
                            bad.append(f"{lab}: column {nm}: {msg}")
    return _enum_outcome("the static type of a union column is the common type of the operand columns of that name and the exported frame has it", n, bad)


def d6_run(carve):
    """verbs: the exported dtype of EVERY visible column after every pipeline (joins with keys of different numeric type,
    unions, summarize, window mutate, rename, ...) matches the static dtype the table reports"""
    import itertools

    import polars as pl

    from .. import pipelines as P

    n, bad = 0, []
    S = P.steps()
    # extra join steps whose key columns have different numeric dtypes (the right key is re-created / cast by the backends)
    def mk_join(how, narrow_left):
        def f(x, c):
            l = x >> pdt.mutate(k32=x.h.cast(pdt.Int32()), kf=x.h.cast(pdt.Float64()))
            r = c.u >> pdt.mutate(k64=c.u.h - 6, k32r=(c.u.h - 6).cast(pdt.Int32()))
            lk = l.k32 if narrow_left else l.kf
            rk = r.k64 if narrow_left or how == "x" else r.k64
            on = (lk == rk) if how != "mixed" else ((lk == rk) & (l.h < r.c))
            return l >> pdt.join(r, on, "left" if how != "inner" else "inner")
        return f

    extra = [P.Step(f"join({how},{'Int32==Int64' if nl else 'Float64==Int64'})", mk_join(how, nl), "destroy", ("h",), False, True) for how in ("inner", "left", "mixed") for nl in (True, False)]
    pipes = [[st] for st in S + extra] + [[a, b] for a in S for b in S] + [[a, b] for a in S[:12] for b in extra]
    with warnings.catch_warnings():
        warnings.simplefilter("ignore")
        for be in ("polars", "sqlite"):
            for pipe in pipes:
                if P.plan(pipe) is None:
                    continue
                c = P.Ctx(be, "mixed")
                x = c.t
                try:
                    for st in pipe:
                        if not P._has(x, *st.needs):
                            raise LookupError
                        x = st.fn(x, c)
                        if x is None:
                            raise LookupError
                    x = x >> pdt.ungroup()
                    df = x >> pdt.export(pdt.Polars())
                except Exception:  # noqa: BLE001  (rejections / refusals / export errors are C14 / C01)
                    continue
                n += 1
                lab = f"[{be}] " + " >> ".join(st.label for st in pipe)
                for col in x:
                    static = T.without_const(col.dtype())
                    if be == "polars":
                        msg = check_type(static, df.schema[col.name])
                        if msg and not ("int_as_float" in carve and "Float" in str(static) and Dtype.from_polars(df.schema[col.name]).is_int()):
                            bad.append(f"{lab}: column {col.name}: {msg}")
                    else:
                        got = Dtype.from_polars(df.schema[col.name])
                        if isinstance(got, NullT) or isinstance(static, NullT):
                            continue
                        fs, fg = TU.family(static), TU.family(got)
                        if fs != fg and not (fs == "bool" and fg == "int") and not ("sqlite_dynamic_typing" in carve and {fs, fg} == {"int", "float"}):
                            bad.append(f"{lab}: column {col.name}: static family {fs} ({static}), exported {got}")
    return _enum_outcome("after every enumerated pipeline the exported dtype of every visible column equals the static dtype (Polars) / has its numeric family (SQLite)", n, bad)


def d7_run(carve):
    """importing a SQL table reads the column types the database has NOW (also when a table of that name was imported
    from the same engine before and has been replaced since), and they predict the exported types"""
    import polars as pl
    import sqlalchemy as sqa

    n, bad = 0, []
    eng = sqa.create_engine("sqlite://")
    versions = [
        pl.DataFrame({"a": [1, 2], "b": [1.5, 2.5], "c": ["x", "y"]}),
        pl.DataFrame({"a": ["p", "q"], "b": [True, False], "c": [3, 4]}),
        pl.DataFrame({"a": [1.5, None], "b": [datetime.date(2020, 1, 2), None], "c": [datetime.datetime(2020, 1, 2, 3, 4, 5), None], "d": [1, 2]}),
    ]
    with warnings.catch_warnings():
        warnings.simplefilter("ignore")
        for k, df in enumerate(versions):
            df.write_database("t", eng, if_table_exists="replace")
            t = pdt.Table("t", pdt.SqlAlchemy(eng))
            n += 1
            names = [c.name for c in t]
            if names != df.columns:
                bad.append(f"version {k}: imported columns {names}, the table has {df.columns}")
                continue
            try:
                out = t >> pdt.export(pdt.Polars())
            except Exception as ex:  # noqa: BLE001
                bad.append(f"version {k}: export fails: {type(ex).__name__}: {str(ex)[:140]}")
                continue
            for c in t:
                fs, fw, fg = TU.family(T.without_const(c.dtype())), TU.family(Dtype.from_polars(df.schema[c.name])), TU.family(Dtype.from_polars(out.schema[c.name]))
                if fs != fw and not (fw == "bool" and fs == "int"):
                    bad.append(f"version {k}: column {c.name} imported as {c.dtype()} but the table written last holds {df.schema[c.name]}")
                if fg != fs and not isinstance(Dtype.from_polars(out.schema[c.name]), NullT) and not (fs == "bool" and fg == "int"):
                    bad.append(f"version {k}: column {c.name} static {c.dtype()}, exported {out.schema[c.name]}")
    return _enum_outcome("the static types of an imported SQL table are those of the table as it is in the database now (three successive versions under one name, one engine)", n, bad)


def obligations(tier):
    fi = H.fn_info
    CE = H.col_expr_mod
    tf = [fi(CE.ColFn.dtype), fi(CE.CaseExpr.dtype), fi(CE.Cast.dtype), fi(CE.LiteralCol.__init__), fi(T.from_python), fi(T.lca_type), fi(H.polars_backend.compile_col_expr), fi(H.polars_backend.PolarsImpl.__init__)]
    return [
        Obligation("C12/D1/roundtrip", "D1", "from_polars(to_polars(t)) == t", d1_run, functions=[fi(Dtype.from_polars), fi(Dtype.to_polars)], bounded=TU.BOUND_TEXT),
        Obligation("C12/D4/lca", "D4", "lca_type is an order-independent upper bound", d4_run, functions=[fi(T.lca_type), fi(T.converts_to)], bounded=TU.BOUND_TEXT),
        Obligation("C12/D3/polars_ops", "D3", "exported Polars dtype vs static type, all operators x signatures", d3_run, functions=tf, bounded="11 concrete column types + const/null literals; arity <= 3 fully; one 3-row sample frame with nulls (native Polars execution)", carveouts={"list_agg": "list.agg", "int_as_float": "Int column through a Float-only operator"}),
        Obligation("C12/D3c/polars_casts", "D3", "casts export the requested type", d3c_run, functions=[fi(CE.Cast.__init__), fi(H.polars_backend.compile_col_expr)], bounded="8 source columns (+ literals) x 12 targets"),
        Obligation("C12/D3/sqlite_ops", "D3", "exported SQLite column family vs static type", d3_sqlite_run, functions=[fi(H.sql_backend.SqlImpl.compile_col_expr), fi(H.sql_backend.SqlImpl.export), fi(H.sqlite_backend.SqliteImpl.fix_fn_types)], bounded="Int64/Float64/String/Bool columns, arity <= 2 (native SQLite execution)", carveouts={"sqlite_dynamic_typing": "int/float family under SQLite's dynamic typing"}),
        Obligation("C12/D6/verbs", "D6", "exported dtypes of all columns after enumerated pipelines (joins with differently typed keys, unions, summarize, windows)", d6_run, functions=[fi(H.polars_backend.compile_ast), fi(H.sql_backend.SqlImpl.export), fi(pdt._internal.pipe.cache.Cache.update)],
                   bounded="pipelines of depth <= 2 over the C01 step alphabet plus 6 joins with Int32/Float64 == Int64 keys; one input table; native execution on Polars and SQLite", carveouts={"sqlite_dynamic_typing": "int/float family under SQLite's dynamic typing", "int_as_float": "Int column through a Float-only operator"}),
        Obligation("C12/D10/shift_fill_types", "D10", "shift(+-n, fill_value) on Int / Float / String / Bool / Date / Datetime columns: values and exported types on both backends", d10_run, functions=[fi(H.sql_backend.SqlImpl.compile_col_expr)],
                   bounded="6 column types x 4 offsets x with / without fill x 2 backends on a 3-row frame"),
        Obligation("C12/D9/parametrised_columns", "D9", "Decimal(p, s) / Enum columns: static vs exported type of 12 expressions (Polars)", d9_run, functions=[fi(H.types_mod.lca_type), fi(pdt._internal.ops.signature.SignatureTrie.best_match) if hasattr(pdt._internal.ops.signature, "SignatureTrie") else fi(H.types_mod.lca_type)],
                   bounded="12 expressions over one Decimal(10, 2) and one Enum column", carveouts={"parametrised_types": "the six expressions named by F-parametrised-static-types"}),
        Obligation("C12/D8/union_types", "D8", "union: static column types are the common types of the operand columns by name; exported dtypes follow", d8_run, functions=[fi(pdt._internal.pipe.cache.Cache.update), fi(H.polars_backend.compile_ast), fi(H.sql_backend.SqlImpl.compile_ast)],
                   bounded="5 type assignments x up to 6 column orders of the right operand x 2 backends"),
        Obligation("C12/D7/sql_import", "D7", "types of an imported SQL table follow the database, not an earlier import", d7_run, functions=[fi(H.sql_backend.SqlImpl.__init__), fi(H.sql_backend.SqlImpl.pdt_type)], bounded="three table versions under one name on one in-memory SQLite engine"),
        Obligation("C12/D5/reimport", "D5", "re-import / collect reproduce the types", d5_run, functions=[fi(pdt._internal.pipe.verbs.collect), fi(H.polars_backend.PolarsImpl.__init__)], bounded="4 pipelines"),
    ]


DESIGN_REF = "DESIGN.md §5.12"
ASSUMPTIONS = [
    "D3 executes the real Polars / SQLite engines on a 3-row sample frame: the exported dtype of an expression is a property of the plan, not of the data (Polars schema resolution) - instances on which the engine raises for the sample data are skipped and counted",
    "on SQL the claim is `up to the numeric family` (property statement); Bool columns may come back as 0/1 integers from SQLite",
]
LEVEL = "other"
EXPLANATION = "Bounded enumerations: round trip and lca_type over the finite type universe (evaluation of the real functions); exported dtypes of every operator x signature and of casts obtained by running the real backends on a sample frame and compared with the static type."
