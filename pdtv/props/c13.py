"""C13 - overload resolution is total, deterministic and uniform.

Deductive part
  D1  best_signature_match: loop contract (invariant) on the real loop body - the result is the first
      index of the lexicographically minimal distance, for candidate lists of any length.       [proof]
  D2  sig_distance is the component-wise sum of the conversion costs (n = 1..4).                  [bounded in n]
Exhaustive evaluation of the real type checker over the finite type universe (typeuniverse.py);
bounded only in the *parameters* of parametric types, reported as bounded stand-ins:
  T1/T2  every operator x every argument tuple: return_type returns a Dtype or None - never an
         internal error (this includes the uniqueness assertion of best_signature_match)
  T3     the result does not depend on the declaration order of the overloads (trie rebuilt in reversed
         and in seeded-shuffled order)
  T4     a sized int / float / decimal is accepted wherever the generic type is, same result family
  T5     a const argument is accepted wherever a column argument is, same result family
  T6     parameters declared const reject column arguments
  T7     ColFn.dtype returns a type without type variables or raises DataTypeError; const-ness rule
  T9     the same totality for ImplStore.get_impl on every backend (shared with C19)
"""

from __future__ import annotations

import itertools
import random

import z3

from .. import core
from .. import harness as H
from .. import loopvc
from .. import typeuniverse as TU
from ..oblig import VC, Obligation, Outcome

T = H.types_mod
sig_mod = H.pdt._internal.ops.signature


def _fmt(sig):
    return "(" + ", ".join(str(t) for t in sig) + ")"


def _rt(op, sig):
    """(status, value): status in ok / none / error"""
    from pydiverse.transform._internal.errors import DataTypeError

    try:
        r = op.return_type(list(sig))
    except DataTypeError:
        return ("none", None)  # rejected with the documented error
    except BaseException as e:  # noqa: BLE001
        return ("error", f"{type(e).__name__}: {e}")
    return ("none", None) if r is None else ("ok", r)


def _enum_outcome(goal, n, bad, replay_prefix="native evaluation", allow_empty=False):
    if bad:
        return Outcome("refuted", detail=bad[0][:600], goal=goal, paths=n, queries=n, backend="evaluation", model={"case": bad[0][:400], "more": len(bad) - 1, "all": [b[:300] for b in bad[:80]]},
                       replay={"reproduced": True, "text": f"{replay_prefix}: {bad[0][:500]} ({len(bad)} failing tuples)"})
    if n == 0 and not allow_empty:
        return Outcome("undecided", detail="nothing enumerated", goal=goal)
    return Outcome("discharged", goal=goal, paths=max(n, 1), queries=max(n, 1), backend="evaluation", detail="" if n else "no accepted signature has such a parameter (holds trivially)")


def make_t1(opname, op, tier):
    def run(carve):
        n, bad = 0, []
        for sig in TU.tuples_for(op, tier):
            if "all_null" in carve and len(sig) > 0 and all(TU.is_null_typed(t) for t in sig):
                continue
            if "null_only_binding" in carve and _only_null_binding(op, sig):
                continue
            st, v = _rt(op, sig)
            n += 1
            if st == "error":
                bad.append(f"{opname}{_fmt(sig)} -> {v}")
            elif st == "ok" and not isinstance(v, H.Dtype):
                bad.append(f"{opname}{_fmt(sig)} returned a non-Dtype {v!r}")
        return _enum_outcome(f"{opname}.return_type(sig) in Dtype | None for every sig in U^n (no AssertionError/KeyError/...; exactly one best overload)", n, bad)

    return run


def _only_null_binding(op, sig):
    """known finding F-null-ambiguity: every non-const-literal argument that could bind a type variable / pick an overload is null-typed"""
    return len(sig) > 0 and all(TU.is_null_typed(t) for t in sig)


def make_t3(opname, op, tier, seed):
    def run(carve):
        from pydiverse.transform._internal.ops.signature import SignatureTrie

        def build(order):
            tr = SignatureTrie()
            for s in order:
                tr.insert(s.types, s.return_type, s.is_vararg)
            return tr

        sigs = list(op.signatures)
        rnd = random.Random(seed)
        shuffled = sigs[:]
        rnd.shuffle(shuffled)
        tries = [build(list(reversed(sigs))), build(shuffled)]
        n, bad = 0, []
        for sig in TU.tuples_for(op, "quick"):
            if len(sig) > 0 and all(TU.is_null_typed(t) for t in sig):
                continue
            st, v = _rt(op, sig)
            if st == "error":
                continue  # reported by T1
            for tr in tries:
                try:
                    m = tr.best_match(list(sig))
                    w = None if m is None else m[1]
                except H.pdt._internal.errors.DataTypeError:
                    w = None
                except BaseException as e:  # noqa: BLE001
                    w = f"{type(e).__name__}: {e}"
                n += 1
                same = (v is None and w is None) or (v is not None and w is not None and not isinstance(w, str) and v == w and type(v) is type(w))
                if not same:
                    bad.append(f"{opname}{_fmt(sig)}: declared order gives {v}, permuted overload order gives {w}")
        return _enum_outcome(f"{opname}: result independent of the declaration order of the {len(sigs)} overloads (reversed + shuffled trie)", n, bad)

    return run


def _accepted(op, tier):
    for sig in TU.tuples_for(op, tier):
        if len(sig) > 0 and all(TU.is_null_typed(t) for t in sig):
            continue
        st, v = _rt(op, sig)
        if st == "ok":
            yield sig, v


def make_t4(opname, op, tier):
    def run(carve):
        n, bad = 0, []
        for sig, ret in _accepted(op, "quick"):
            for i, t in enumerate(sig):
                b = T.without_const(t)
                if type(b) is H.pdt.Int:
                    members = TU.SIZED_INTS
                elif type(b) is H.pdt.Float:
                    members = TU.SIZED_FLOATS
                else:
                    continue
                for w in members:
                    w2 = T.Const(w) if T.is_const(t) else w
                    s2 = sig[:i] + (w2,) + sig[i + 1 :]
                    st, v = _rt(op, s2)
                    n += 1
                    if st != "ok":
                        bad.append(f"{opname}{_fmt(sig)} is accepted ({ret}) but with the sized type {w2} at position {i}: {st} {v or ''}")
                    elif TU.family(v) != TU.family(ret):
                        bad.append(f"{opname}{_fmt(sig)} -> {ret} but {_fmt(s2)} -> {v} (different family)")
        return _enum_outcome(f"{opname}: every sized int/float/decimal accepted wherever Int/Float is, result of the same family", n, bad, allow_empty=True)

    return run


def make_t5(opname, op, tier):
    def run(carve):
        n, bad = 0, []
        for sig, ret in _accepted(op, "quick"):
            for i, t in enumerate(sig):
                if T.is_const(t):
                    continue
                s2 = sig[:i] + (T.Const(t),) + sig[i + 1 :]
                st, v = _rt(op, s2)
                n += 1
                if st != "ok":
                    bad.append(f"{opname}{_fmt(sig)} is accepted ({ret}) but the const argument {_fmt(s2)}: {st} {v or ''}")
                elif TU.family(v) != TU.family(ret):
                    bad.append(f"{opname}{_fmt(sig)} -> {ret} but {_fmt(s2)} -> {v} (different family)")
        return _enum_outcome(f"{opname}: a constant argument is accepted wherever a column argument is, same result family", n, bad, allow_empty=True)

    return run


def make_t6(opname, op, tier):
    def run(carve):
        n, bad = 0, []
        if not any(T.is_const(p) for s in op.signatures for p in s.types):
            return Outcome("discharged", goal=f"{opname} declares no const parameter", paths=1, queries=1, backend="evaluation")

        def declared_const(i, nargs):
            """is position i const in EVERY declared overload that can take nargs arguments?"""
            res = []
            for s in op.signatures:
                k = len(s.types)
                if nargs == k or (s.is_vararg and nargs >= k - 1):
                    res.append(T.is_const(s.types[min(i, k - 1)]))
            return bool(res) and all(res)

        for sig in TU.tuples_for(op, "quick"):
            if len(sig) > 0 and all(TU.is_null_typed(t) for t in sig):
                continue
            st, _ = _rt(op, sig)
            if st != "ok":
                continue
            try:
                m = op.trie.best_match(list(sig))
            except BaseException:  # noqa: BLE001
                continue
            for i, a in enumerate(sig):
                n += 1
                if not T.is_const(a) and (declared_const(i, len(sig)) or (m is not None and i < len(m[0]) and T.is_const(m[0][i]))):
                    bad.append(f"{opname}{_fmt(sig)} is accepted although parameter {i} is declared const and the argument is a column")
        return _enum_outcome(f"{opname}: a parameter declared const never accepts a non-const argument", n, bad, allow_empty=True)

    return run


def make_t7(opname, op, tier):
    def run(carve):
        from pydiverse.transform._internal.errors import DataTypeError
        from pydiverse.transform._internal.tree.col_expr import Col, ColFn

        n, bad = 0, []
        leaf = H._LEAF
        import uuid

        tuples = TU.tuples_for(op, "quick") if max(TU.arities(op)) <= 2 else itertools.chain.from_iterable(itertools.product(TU.core_types(op), repeat=k) for k in TU.arities(op))
        for sig in tuples:
            args = [Col(f"a{i}", leaf, uuid.uuid1(), t, H.Ftype.ELEMENT_WISE) for i, t in enumerate(sig)]
            n += 1
            try:
                d = ColFn(op, *args).dtype()
            except DataTypeError:
                continue
            except BaseException as e:  # noqa: BLE001
                bad.append(f"ColFn({opname}, {_fmt(sig)}).dtype() raises {type(e).__name__}: {e}")
                continue
            if d is None:
                bad.append(f"ColFn({opname}, {_fmt(sig)}).dtype() returned None although all argument types are known")
            elif "tyvar" in carve and TU.has_tyvar(d):
                continue
            elif TU.has_tyvar(d):
                bad.append(f"ColFn({opname}, {_fmt(sig)}).dtype() = {d} contains an unresolved type variable")
            else:
                want_const = op.ftype == H.Ftype.ELEMENT_WISE and len(sig) > 0 and all(T.is_const(t) for t in sig)  # a function without arguments (rand) yields a different value per row: not a constant
                if T.is_const(d) != want_const:
                    bad.append(f"ColFn({opname}, {_fmt(sig)}).dtype() = {d}: const-ness should be {want_const}")
        return _enum_outcome(f"ColFn({opname}, args).dtype() is a Tyvar-free Dtype or raises DataTypeError; const iff element-wise, at least one argument and all arguments const", n, bad)

    return run


# --- D1: loop contract of best_signature_match ----------------------------------------


class _Tok:
    def __init__(self, idx):
        self.idx = idx  # z3 Int term: index into candidates


def make_d1():
    fn = sig_mod.best_signature_match

    def run(carve):
        tree, pre, loop, post = loopvc.split_function(fn)
        D1 = z3.Function("D1", z3.IntSort(), z3.IntSort())
        D2 = z3.Function("D2", z3.IntSort(), z3.IntSort())
        n = z3.Int("n")

        def sig_distance_contract(sig, match):
            # callee contract: the distance of candidate #idx is the pair (D1(idx), D2(idx))
            assert isinstance(match, _Tok)
            return (core.SymInt(D1(match.idx)), core.SymInt(D2(match.idx)))

        class Cands:
            def __len__(self):
                return 1  # only used by `assert len(candidates) > 0` (precondition n > 0)

            def __getitem__(self, k):
                if k == 0:
                    return _Tok(z3.IntVal(0))
                raise core.Unsupported("candidates[k]")

        ov = {"sig_distance": sig_distance_contract}
        init = loopvc.compile_block(pre, ["sig", "candidates"], ["best_index", "best_distance"], fn, ov)
        body = loopvc.compile_block(loop.body, ["sig", "i", "match", "best_index", "best_distance"], ["best_index", "best_distance"], fn, ov)
        if not (isinstance(loop, __import__("ast").For) and __import__("ast").unparse(loop.iter) == "enumerate(candidates[1:])" and __import__("ast").unparse(loop.target) == "(i, match)"):
            raise core.Unsupported(f"loop header changed: for {__import__('ast').unparse(loop.target)} in {__import__('ast').unparse(loop.iter)}")

        def lex_le(a1, a2, b1, b2):
            return z3.Or(a1 < b1, z3.And(a1 == b1, a2 <= b2))

        def lex_lt(a1, a2, b1, b2):
            return z3.Or(a1 < b1, z3.And(a1 == b1, a2 < b2))

        j = z3.Int("j")

        def inv(k, bi, bd1, bd2):
            return z3.And(
                0 <= bi, bi <= k, bd1 == D1(bi), bd2 == D2(bi),
                z3.ForAll([j], z3.Implies(z3.And(0 <= j, j <= k), lex_le(bd1, bd2, D1(j), D2(j)))),
                z3.ForAll([j], z3.Implies(z3.And(0 <= j, j < bi), lex_lt(bd1, bd2, D1(j), D2(j)))),
            )

        vc = VC("best_signature_match: loop invariant `best_index is the first argmin of the lexicographic distance over candidates[0..k]` is established, preserved by the real loop body for a generic iteration, and implies at exit that the result is the first index of the minimal distance (any number of candidates)")
        # init
        for p in core.explore(lambda: init(None, Cands())):
            vc.paths += 1
            if p.kind == "exc":
                vc.require(p.pc, z3.BoolVal(False), f"pre-loop block raises {p.value!r}")
                continue
            bi, bd = p.value
            vc.require(p.pc, inv(z3.IntVal(0), core.term(bi), core.term(bd[0]), core.term(bd[1])), "invariant not established before the loop")
        # preservation
        k = z3.Int("k")  # loop variable i of enumerate (candidate index k+1)
        bi0, b10, b20 = z3.Int("bi0"), z3.Int("bd1_0"), z3.Int("bd2_0")
        hyp = [0 <= k, k + 1 < n, inv(k, bi0, b10, b20)]
        for p in core.explore(lambda: body(None, core.SymInt(k), _Tok(k + 1), core.SymInt(bi0), (core.SymInt(b10), core.SymInt(b20))), base_pc=hyp):
            vc.paths += 1
            if p.kind == "exc":
                vc.require(p.pc, z3.BoolVal(False), f"loop body raises {p.value!r}")
                continue
            bi, bd = p.value
            vc.require(p.pc, inv(k + 1, core.term(bi), core.term(bd[0]), core.term(bd[1])), f"invariant not preserved on path {p.decisions}", {"k": k, "best_index_before": bi0, "D1(k+1)": D1(k + 1), "D2(k+1)": D2(k + 1), "bd1": b10, "bd2": b20})
        # exit: the post block returns best_index
        import ast as _ast

        if not (isinstance(post[-1], _ast.Return) and _ast.unparse(post[-1].value) == "best_index"):
            raise core.Unsupported("function no longer returns best_index")
        jj = z3.Int("jj")
        exit_hyp = [n >= 1, inv(n - 1, bi0, b10, b20)]
        vc.require(exit_hyp + [0 <= jj, jj < n], z3.And(lex_le(D1(bi0), D2(bi0), D1(jj), D2(jj)), z3.Implies(jj < bi0, lex_lt(D1(bi0), D2(bi0), D1(jj), D2(jj))), 0 <= bi0, bi0 < n), "post-condition (first argmin) does not follow from the invariant at exit")
        return vc.outcome()

    return run


def make_d2():
    def run(carve):
        vc = VC("sig_distance(sig, target) == (sum_i c1_i, sum_i c2_i) where (c1_i, c2_i) = conversion_cost(sig[i], target[i]), n = 1..4")
        for n in (1, 2, 3, 4):
            c = [(z3.Int(f"c1_{i}"), z3.Int(f"c2_{i}")) for i in range(n)]
            toks = [object() for _ in range(n)]
            idx = {id(t): i for i, t in enumerate(toks)}

            class TypesStub:
                @staticmethod
                def conversion_cost(s, t):
                    i = idx[id(s)]
                    assert t is tgt[i]
                    return (core.SymInt(c[i][0]), core.SymInt(c[i][1]))

            tgt = [object() for _ in range(n)]
            g = dict(sig_mod.sig_distance.__globals__)
            g["types"] = TypesStub
            import types as _pytypes

            f = _pytypes.FunctionType(sig_mod.sig_distance.__code__, g, "sig_distance")
            for p in core.explore(lambda: f(toks, tgt)):
                vc.paths += 1
                if p.kind == "exc":
                    vc.require(p.pc, z3.BoolVal(False), f"raises {p.value!r}")
                    continue
                r = p.value
                ok = isinstance(r, tuple) and len(r) == 2
                vc.require(p.pc, z3.And(core.term(r[0]) == sum(x[0] for x in c), core.term(r[1]) == sum(x[1] for x in c)) if ok else z3.BoolVal(False), f"n={n}: not the component-wise sum")
        return vc.outcome()

    return run


def make_t9(backend_name, cls, tier):
    def run(carve):
        from pydiverse.transform.errors import NotSupportedError

        n, bad = 0, []
        for opname, op in H.ALL_OPS.items():
            for sig, ret in _accepted(op, "quick"):
                if len(sig) > 2:
                    continue
                n += 1
                try:
                    f = cls.get_impl(op, tuple(sig))
                    if not callable(f):
                        bad.append(f"{backend_name}.get_impl({opname}, {_fmt(sig)}) returned {f!r}")
                except NotSupportedError:
                    pass
                except BaseException as e:  # noqa: BLE001
                    bad.append(f"{backend_name}.get_impl({opname}, {_fmt(sig)}) raises {type(e).__name__}: {e}")
        return _enum_outcome(f"{backend_name}: get_impl(op, sig) returns a callable or raises NotSupportedError for every accepted signature", n, bad)

    return run


def obligations(tier):
    fi = H.fn_info
    seed = int(__import__("os").environ.get("VERIF_SEED", "0") or 0)
    tfns = [fi(T.converts_to), fi(T.conversion_cost), fi(T.implicit_conversions), fi(T.is_const), fi(T.without_const), fi(T.with_const),
            fi(sig_mod.SignatureTrie.Node.all_matches), fi(sig_mod.SignatureTrie.best_match), fi(sig_mod.best_signature_match), fi(sig_mod.sig_distance),
            fi(H.pdt._internal.ops.op.Operator.return_type)]
    obs = [
        Obligation("C13/D1/best_signature_match", "D1", "loop contract: returns the first index of the lexicographically minimal distance", make_d1(), functions=[fi(sig_mod.best_signature_match)]),
        Obligation("C13/D2/sig_distance", "D2", "distance = component-wise sum of conversion costs", make_d2(), functions=[fi(sig_mod.sig_distance)], bounded="signature length n = 1..4 (costs symbolic)"),
    ]
    for opname, op in H.ALL_OPS.items():
        common = dict(functions=tfns, bounded=TU.BOUND_TEXT + ("; arity-3/4 tuples: two (one) positions range over the universe, the others over the operator's core types" if max(TU.arities(op)) > 2 and tier == "quick" else ""))
        obs.append(Obligation(f"C13/T1/{opname}", "T1", "no internal error / unique best overload for every argument type tuple", make_t1(opname, op, tier), carveouts={"all_null": "all arguments null-typed"}, **common))
        obs.append(Obligation(f"C13/T3/{opname}", "T3", "result independent of overload declaration order", make_t3(opname, op, tier, seed), **common))
        obs.append(Obligation(f"C13/T4/{opname}", "T4", "sized types accepted wherever the generic type is", make_t4(opname, op, tier), **common))
        obs.append(Obligation(f"C13/T5/{opname}", "T5", "const accepted wherever a column is", make_t5(opname, op, tier), **common))
        obs.append(Obligation(f"C13/T6/{opname}", "T6", "const parameters reject columns", make_t6(opname, op, tier), **common))
        obs.append(Obligation(f"C13/T7/{opname}", "T7", "ColFn.dtype closed / DataTypeError, const rule", make_t7(opname, op, tier), carveouts={"tyvar": "unresolved type variable in list.agg"},
                              functions=tfns + [fi(H.col_expr_mod.ColFn.dtype)], bounded=common["bounded"]))
    backends = {"polars": H.polars_backend.PolarsImpl, "sqlite": H.sqlite_backend.SqliteImpl}
    try:
        from pydiverse.transform._internal.backend.mssql import MsSqlImpl
        from pydiverse.transform._internal.backend.postgres import PostgresImpl

        backends.update({"postgres": PostgresImpl, "mssql": MsSqlImpl})
    except Exception:  # noqa: BLE001
        pass
    for bn, cls in backends.items():
        obs.append(Obligation(f"C13/T9/{bn}", "T9", "implementation lookup is total", make_t9(bn, cls, tier),
                              functions=[fi(H.table_impl_mod.TableImpl.get_impl), fi(H.pdt._internal.backend.impl_store.ImplStore.get_impl)], bounded=TU.BOUND_TEXT + "; arity <= 2"))
    return obs


DESIGN_REF = "DESIGN.md §5.13"
ASSUMPTIONS = [
    "the type universe is finite in constructors x const (exhaustive) and sampled in type parameters (region representatives, see bounded_standins)",
    "hash order: only the uniqueness of the best match (checked as part of T1) makes the result independent of set/dict iteration order; T3 re-runs the resolution with permuted declaration order",
    "D1: the header `for i, match in enumerate(candidates[1:])` is interpreted as i = 0..n-2, match = candidates[i+1]; the final `assert sum(...) == 1` is read as `the minimum is unique`",
    "T-import: the operator tries are built by the real Operator.__init__ / SignatureTrie.insert at import time",
]
TRUSTED = [
    "T-engine: pdtv symbolic execution + z3 for D1/D2; CPython evaluation of the real functions for the enumerations",
    "T-import: operator tables and IMPLICIT_CONVS are computed by the real import-time code",
]
