"""C07 - union stacks rows by column name; distinct removes duplicates.

Inductive step with two pre-state tables (bounded width, symbolic names, hidden columns whose names may
equal visible names of either side), real _union_impl -> Cache.update -> real Polars / SQL compile_ast:
  U1  refusals: accepted  =>  both tables ungrouped, same backend, visible name SETS equal; otherwise
      ValueError / TypeError from the verb call
  U2  names and order of the result are the left table's (Cache invariant + coupling with both backends)
  U3  alignment by name: result column i stacks the left column i with the right VISIBLE column of the
      same name (never a hidden one, never by position)
  U4  distinct=True -> union(distinct) / UNION, distinct=False -> union / UNION ALL
  U5  hidden columns of either side are out of scope afterwards
"""

from __future__ import annotations

import itertools

import z3

from .. import core, lfmodel, plmodel, sqlmodel
from .. import harness as H
from .. import tablestep as TS
from ..oblig import VC, Obligation, Outcome
from ..symname import SymName, name_eq
from . import c09, c11

pdt = H.pdt
verbs_mod = pdt._internal.pipe.verbs


def make_run(pre_factories, distinct, backend, same_backend=True):
    def run(carve):
        plmodel.reset_state()
        pres = [f() for f in pre_factories]
        L, R = pres

        def fn(pres, ts):
            if not same_backend:
                ts[1]._cache.backend = H.polars_backend.PolarsImpl if backend != "polars" else H.sqlite_backend.SqliteImpl
            return verbs_mod.union(ts[0], ts[1], distinct=distinct)

        paths, wit = TS.explore_step(pres, fn, backend)
        vc = VC(f"[{L.skel} u {R.skel}] union(distinct={distinct}) on {backend}: refusal rules, result names/order = left, alignment by name with the right VISIBLE columns, hidden columns dropped")
        lv = [L.phys[i] for i in L.vis]
        rv = [R.phys[i] for i in R.vis]
        same_sets = z3.And(*[z3.Or(*[name_eq(a, b) for b in rv]) for a in lv], *[z3.Or(*[name_eq(a, b) for b in lv]) for a in rv], z3.BoolVal(len(lv) == len(rv)))
        for p in paths:
            vc.paths += 1
            if p.kind == "exc":
                vc.require(p.pc, z3.BoolVal(False), f"an accepted union makes the {backend} compilation fail: {type(p.value).__name__}: {str(p.value)[:200]}", wit)
                continue
            if p.value[0] == "rejected":
                e = p.value[1]
                must_reject = bool(L.grp or R.grp) or not same_backend
                if not must_reject:
                    vc.require(p.pc, z3.Not(same_sets), f"U1: union of ungrouped tables with equal visible name sets was refused: {type(e).__name__}: {str(e)[:120]}", wit)
                else:
                    vc.queries += 1
                want = TypeError if (not same_backend) else ValueError
                vc.require(p.pc, z3.BoolVal(isinstance(e, want)), f"U1: refusal raised {type(e).__name__}, documented {want.__name__}", wit)
                continue
            _, new, state, aux, tables, _probe = p.value
            vc.require(p.pc, z3.BoolVal(not (L.grp or R.grp) and same_backend), "U1: a union with a grouped table / another backend was accepted", wit)
            vc.require(p.pc, same_sets, "U1: a union of tables with different visible name sets was accepted", wit)
            c = new._cache
            for lab, cond in c11.cache_invariant(c):
                vc.require(p.pc, cond, lab, wit)
            vc.require(p.pc, z3.And(z3.BoolVal(list(c.name_to_uuid.values()) == [L.uuids[i] for i in L.vis]), TS.seq_eq(list(c.name_to_uuid.keys()), lv)), "U2: result names / uuids / order are not the left table's", wit)
            vc.require(p.pc, z3.BoolVal(set(c.cols.keys()) == {L.uuids[i] for i in L.vis}), "U5: columns other than the left visible ones are still in scope", wit)
            if backend == "polars":
                for lab, cond in c11.polars_coupling(c, state, new._ast):
                    if lab.startswith("J5") or lab.startswith("P"):
                        continue
                    vc.require(p.pc, cond, lab, wit)
                df = state[0]
                vc.require(p.pc, z3.BoolVal(len(df.cols) == len(lv)), f"U5: the unioned frame has {len(df.cols)} columns, expected {len(lv)} (hidden columns must be dropped)", wit)
                last = df.hist[-1] if df.hist else None
                vc.require(p.pc, z3.BoolVal(last is not None and last[0] == "union" and last[1] is distinct), f"U4: expected pl.union(distinct={distinct}), got {last}", wit)
                toks = list(df.cols.values())
                for k, i in enumerate(L.vis):
                    if k >= len(toks):
                        break
                    tok = toks[k]
                    okl = isinstance(tok, tuple) and tok[0] == "union" and tok[1] == L.token(i)
                    vc.require(p.pc, z3.BoolVal(bool(okl)), f"U3: result column {k} does not stack the left column {k}: {tok}", wit)
                    if okl:
                        vc.require(p.pc, z3.Or(*[z3.And(name_eq(L.phys[i], R.phys[j]), z3.BoolVal(tok[2] == R.token(j))) for j in R.vis]), f"U3: result column {k} is not stacked with the right visible column of the same name (right part: {tok[2]})", wit)
            else:
                for lab, cond in c11.sql_coupling(c, state, aux, new._ast):
                    vc.require(p.pc, cond, lab, wit)
                table = state[0]
                comp = table.info.get("select") if table.kind == "subquery" else None
                ok = isinstance(comp, sqlmodel.CompoundModel) and comp.op == ("union" if distinct else "union_all")
                vc.require(p.pc, z3.BoolVal(bool(ok)), f"U4: expected {'UNION' if distinct else 'UNION ALL'} wrapped in a subquery, got {getattr(comp, 'op', table.kind)}", wit)
                if ok:
                    ls, rs = comp.selects
                    lc, rc = list(ls.selected_columns), list(rs.selected_columns)
                    vc.require(p.pc, z3.BoolVal(len(lc) == len(rc) == len(lv)), f"U5: the operands select {len(lc)} / {len(rc)} columns, expected {len(lv)}", wit)
                    for k, i in enumerate(L.vis):
                        if k >= min(len(lc), len(rc)):
                            break
                        vc.require(p.pc, z3.BoolVal(c09.token_of_sql(lc[k]) == L.token(i)), f"U3: left operand column {k} is not the left column {k}", wit)
                        rt = c09.token_of_sql(rc[k])
                        vc.require(p.pc, z3.Or(*[z3.And(name_eq(L.phys[i], R.phys[j]), z3.BoolVal(rt == R.token(j))) for j in R.vis]), f"U3: right operand column {k} is not the right visible column named like the left column {k} (it is {rt})", wit)
        return vc.outcome()

    return run


def u6_run(carve):
    """native unions against a Python oracle: multiplicities of union / union(distinct=True), NULL rows, column alignment by
    name, chained unions - and the operands (themselves unions) still mean the same after being used as operands"""
    import collections
    import warnings

    import polars as pl
    import sqlalchemy as sqa

    from .c13 import _enum_outcome

    A = pl.DataFrame({"a": [1, 1, 2, None, None], "b": ["x", "x", "y", None, None]})
    B = pl.DataFrame({"b": ["x", "z", None, "y"], "a": [1, 3, None, 2]})
    Cc = pl.DataFrame({"a": [1, 4, None], "b": ["x", "w", None]})
    rows = lambda df: [tuple(r) for r in df.select("a", "b").rows()]  # noqa: E731
    ra, rb, rc = rows(A), rows(B), rows(Cc)

    def dist(rs):
        seen, out = set(), []
        for r in rs:
            if r not in seen:
                seen.add(r)
                out.append(r)
        return out

    n, bad = 0, []
    eng = sqa.create_engine("sqlite://")
    for nm, df in (("a", A), ("b", B), ("c", Cc)):
        df.write_database(nm, eng)

    def same(got, want):
        return collections.Counter(got) == collections.Counter(want)

    with warnings.catch_warnings():
        warnings.simplefilter("ignore")
        for be in ("polars", "sqlite"):
            if be == "polars":
                a, b, c = pdt.Table(A, name="a"), pdt.Table(B, name="b"), pdt.Table(Cc, name="c")
            else:
                a, b, c = (pdt.Table(nm, pdt.SqlAlchemy(eng)) for nm in ("a", "b", "c"))
            ex = lambda t: [tuple(r) for r in (t >> pdt.export(pdt.Polars())).select("a", "b").rows()]  # noqa: E731

            def chk(label, tbl, want):
                nonlocal n
                n += 1
                try:
                    got = ex(tbl() if callable(tbl) else tbl)
                except (pdt.errors.SubqueryError, pdt.errors.NotSupportedError):
                    return
                except Exception as e:  # noqa: BLE001
                    bad.append(f"[{be}] {label}: raises {type(e).__name__}: {str(e)[:120]}")
                    return
                if not same(got, want):
                    bad.append(f"[{be}] {label}: {sorted(got, key=str)}; documented {sorted(want, key=str)}")

            s_all = a >> pdt.union(b)
            s_dis = a >> pdt.union(b, distinct=True)
            chk("a | b (union all)", s_all, ra + rb)
            chk("a | b (distinct)", s_dis, dist(ra + rb))
            chk("(a |d b) |d c", s_dis >> pdt.union(c, distinct=True), dist(ra + rb + rc))
            chk("a |d b after it was the left operand of another distinct union", s_dis, dist(ra + rb))
            chk("(a | b) | c (union all chain)", s_all >> pdt.union(c), ra + rb + rc)
            chk("(a | b) |d c", s_all >> pdt.union(c, distinct=True), dist(ra + rb + rc))
            chk("a | b after it was an operand (union all)", s_all, ra + rb)
            chk("c | (a |d b)", c >> pdt.union(s_dis), rc + dist(ra + rb))
            chk("a |d b after it was the RIGHT operand", s_dis, dist(ra + rb))
            chk("(a |d b) | (a |d b) via alias", s_dis >> pdt.union(s_dis >> pdt.alias("again")), dist(ra + rb) * 2)
            chk("a | a (self union)", a >> pdt.union(a), ra + ra)
            chk("a |d a", a >> pdt.union(a, distinct=True), dist(ra))
            # operands with different but compatible column types: the union is not refused, so it has to hold all the rows
            bf = b >> pdt.mutate(a=b.a.cast(pdt.Float64()) + 0.5)
            rbf = [(None if x is None else x + 0.5, y) for x, y in rb]
            mixed = a >> pdt.union(bf)
            chk("a | b' (Int64 | Float64 column)", mixed, [(None if x is None else float(x), y) for x, y in ra] + rbf)
            n += 1
            try:
                got_t = (mixed >> pdt.export(pdt.Polars())).schema["a"]
                if not mixed.a.dtype().is_float() or not got_t.is_float():
                    bad.append(f"[{be}] a | b' (Int64 | Float64 column): the result column is announced as {mixed.a.dtype()} and exported as {got_t}")
            except Exception as e:  # noqa: BLE001
                bad.append(f"[{be}] a | b' (Int64 | Float64 column): raises {type(e).__name__}")
            # hidden columns on either side never reach the result
            chk("a | (b with a hidden computed column)", a >> pdt.union(b >> pdt.mutate(e=b.a * 2) >> pdt.drop(pdt.C.e)), ra + rb)
            chk("(a with a hidden computed column) | b", a >> pdt.mutate(e=a.a * 2) >> pdt.select(a.a, a.b) >> pdt.union(b), ra + rb)
            chk("(a.select(b)) |d (b.select(b))", a >> pdt.select(a.b) >> pdt.union(b >> pdt.select(b.b), distinct=True) >> pdt.mutate(a=1) >> pdt.select(pdt.C.a, pdt.C.b),
                [(1, y) for y in dict.fromkeys(r[1] for r in ra + rb)])
            # operands that are themselves multi-table / sliced pipelines
            b2 = b >> pdt.alias("b2")
            chk("a | (b self-joined, then projected)", lambda: a >> pdt.union(b >> pdt.join(b2, b.b == b2.b, "inner", suffix="_r") >> pdt.select(b.a, b.b)),
                ra + [r for r in rb for r2 in rb if r[1] is not None and r[1] == r2[1]])
            sl = b >> pdt.arrange(b.b.nulls_last(), b.a) >> pdt.slice_head(2) >> pdt.alias("sl")
            first2 = sorted(rb, key=lambda r: (r[1] is None, r[1] or "", r[0] or 0))[:2]
            chk("a | (b >> arrange >> slice_head(2) >> alias)", lambda: a >> pdt.union(sl), ra + first2)
            chk("a | (b >> alias >> arrange >> slice_head(2)) [refusal permitted]", lambda: a >> pdt.union(b >> pdt.alias("s3") >> pdt.arrange(pdt.C.b.nulls_last(), pdt.C.a) >> pdt.slice_head(2)), ra + first2)
            # a reference taken from an operand before the union denotes the union's column (its type is the union's)
            xa = a >> pdt.mutate(tag=1)
            n += 1
            try:
                un = xa >> pdt.union(b >> pdt.mutate(tag=2))
                cnt = un >> pdt.group_by(xa.tag) >> pdt.summarize(n=pdt.count()) >> pdt.export(pdt.Polars())
                got = sorted(tuple(r) for r in cnt.select("tag", "n").rows())
                if got != [(1, len(ra)), (2, len(rb))]:
                    bad.append(f"[{be}] x = a >> mutate(tag=1); x | b.mutate(tag=2) >> group_by(x.tag) >> summarize(count): {got}; documented {[(1, len(ra)), (2, len(rb))]}")
            except (pdt.errors.SubqueryError, pdt.errors.NotSupportedError):
                pass
            except Exception as e:  # noqa: BLE001
                bad.append(f"[{be}] group_by(<reference taken before the union>): raises {type(e).__name__}: {str(e)[:100]}")
            # a verb after the union that needs a subquery, with an alias() inside an operand: refusal or the right rows, no internal error
            chk("(a | (b >> alias)) >> slice_head(20) >> filter(a > 1)  [refusal permitted]", lambda: a >> pdt.union(b >> pdt.alias("r")) >> pdt.slice_head(20) >> pdt.filter(pdt.C.a > 1), [r for r in ra + rb if r[0] is not None and r[0] > 1])
            # a None-literal column has every type
            chk("a.mutate(b=None) | b", lambda: a >> pdt.mutate(b=None) >> pdt.union(b), [(x, None) for x, _ in ra] + rb)
            # an expression over a constant column of the left operand, built BEFORE the union, is not a constant after it
            n += 1
            try:
                la = a >> pdt.mutate(tag=2)
                ecast = la.tag.cast(pdt.Float64())
                cnt2 = la >> pdt.union(b >> pdt.mutate(tag=1)) >> pdt.mutate(e=ecast) >> pdt.group_by(pdt.C.e) >> pdt.summarize(n=pdt.count()) >> pdt.export(pdt.Polars())
                got = sorted(tuple(r) for r in cnt2.select("e", "n").rows())
                if got != [(1.0, len(rb)), (2.0, len(ra))]:
                    bad.append(f"[{be}] e = l.tag.cast(Float64) (before the union); l | r >> mutate(e=e) >> group_by(e) >> summarize(count): {got}; documented {[(1.0, len(rb)), (2.0, len(ra))]}")
            except (pdt.errors.SubqueryError, pdt.errors.NotSupportedError):
                pass
            except Exception as e:  # noqa: BLE001
                bad.append(f"[{be}] group_by(<cast of a reference taken before the union>): raises {type(e).__name__}: {str(e)[:100]}")
            # a column that is a constant on each side is not a constant of the union (verbs after the union)
            tagged = a >> pdt.mutate(tag=1) >> pdt.union(b >> pdt.mutate(tag=2))
            n += 1
            try:
                cnt = tagged >> pdt.group_by(tagged.tag) >> pdt.summarize(n=pdt.count()) >> pdt.export(pdt.Polars())
                got = sorted(tuple(r) for r in cnt.select("tag", "n").rows())
                if got != [(1, len(ra)), (2, len(rb))]:
                    bad.append(f"[{be}] mutate(tag=1) | mutate(tag=2) >> group_by(tag) >> summarize(count): {got}; documented {[(1, len(ra)), (2, len(rb))]}")
            except (pdt.errors.SubqueryError, pdt.errors.NotSupportedError):
                pass
            except Exception as e:  # noqa: BLE001
                bad.append(f"[{be}] tagged union >> group_by(tag): raises {type(e).__name__}: {str(e)[:100]}")
    # Decimal operands of different precision / scale (Polars): the common type holds every value of both operands exactly
    from decimal import Decimal as D

    with warnings.catch_warnings():
        warnings.simplefilter("ignore")
        fine = [D("1.000000000000001"), D("1.000000000000002"), None]
        coarse = [D("1.00"), D("2.50"), None]
        da = pdt.Table(pl.DataFrame({"x": pl.Series(fine, dtype=pl.Decimal(20, 15))}), name="da")
        db0 = pdt.Table(pl.DataFrame({"x": pl.Series(coarse, dtype=pl.Decimal(10, 2))}), name="db")
        for label, mkb in (("Decimal(20, 15) | Decimal(10, 2)", lambda: db0), ("Decimal(20, 15) | x.cast(Decimal())  [the default Decimal(31, 11)]", lambda: db0 >> pdt.mutate(x=db0.x.cast(pdt.Decimal())))):
            for distinct in (False, True):
                for swap in (False, True):
                    n += 1
                    try:
                        l_, r_ = (mkb(), da) if swap else (da, mkb())
                        got = (l_ >> pdt.union(r_, distinct=distinct) >> pdt.export(pdt.Polars()))["x"].to_list()
                        want_rows = (coarse + fine) if swap else (fine + coarse)
                        want_rows = list(dict.fromkeys(want_rows)) if distinct else want_rows
                        if collections.Counter(None if v is None else D(v).normalize() for v in got) != collections.Counter(None if v is None else v.normalize() for v in want_rows):
                            bad.append(f"[polars] {label}{' (swapped)' if swap else ''}, distinct={distinct}: {got}; the operands hold {want_rows}")
                    except (TypeError, pdt.errors.DataTypeError):
                        pass  # refused when built: permitted
                    except Exception as e:  # noqa: BLE001
                        bad.append(f"[polars] {label}: raises {type(e).__name__}: {str(e)[:100]}")
    # two different databases: the union may be refused, but never be answered from one of them alone
    import os
    import tempfile

    with tempfile.TemporaryDirectory() as td, warnings.catch_warnings():
        warnings.simplefilter("ignore")
        e1, e2 = sqa.create_engine(f"sqlite:///{os.path.join(td, 'one.db')}"), sqa.create_engine(f"sqlite:///{os.path.join(td, 'two.db')}")
        A.write_database("a", e1)
        B.write_database("b", e2)
        B.head(1).write_database("b", e1)  # a decoy with the same name in the left database
        n += 1
        try:
            got = [tuple(r) for r in (pdt.Table("a", pdt.SqlAlchemy(e1)) >> pdt.union(pdt.Table("b", pdt.SqlAlchemy(e2))) >> pdt.export(pdt.Polars())).select("a", "b").rows()]
            if not same(got, ra + rb):
                bad.append(f"[sqlite] union of tables from two different databases: {sorted(got, key=str)} (the right table was read from the left database)")
        except Exception:  # noqa: BLE001 - any refusal is fine here
            pass
        e1.dispose()
        e2.dispose()
    return _enum_outcome("union / union(distinct=True) multiplicities, NULL rows, alignment by name and chained unions agree with a Python oracle; operands keep their meaning", n, bad)


def obligations(tier):
    fi = H.fn_info
    fns = [fi(verbs_mod._union_impl), fi(verbs_mod.union), fi(TS.Cache.update), fi(H.types_mod.lca_type), fi(pdt._internal.pipe.pipeable.check_subquery)]
    fns_p = fns + [fi(H.polars_backend.compile_ast)]
    fns_s = fns + [fi(H.sql_backend.SqlImpl.compile_ast), fi(H.sql_backend.SqlImpl.compile_query)]
    sk = [TS.Skeleton(c) for c in (("vis",), ("vis", "vis"), ("vis", "hid"), ("hid", "vis"), ("vis", "vis", "hid"), ("vis", "hid", "vis"), ("grp", "vis"))]
    obs = []
    for ls, rs in itertools.product(sk, sk):
        if tier == "quick" and ls.w + rs.w > 5:
            continue
        pf = [lambda ls=ls: TS.Pre(ls, "l"), lambda rs=rs: TS.Pre(rs, "r")]
        for distinct in (False, True):
            for backend, f in (("polars", fns_p), ("sql", fns_s)):
                obs.append(Obligation(f"C07/U/{backend}/{ls}u{rs}/distinct={distinct}", "U1-U5", f"union(distinct={distinct}) of {ls} and {rs} on {backend}", make_run(pf, distinct, backend),
                                      functions=f, bounded=f"table widths {ls.w} and {rs.w} (names symbolic, hidden/visible name collisions explored)", tags=("cross_backend",)))
    obs.append(Obligation("C07/U6/native_oracle", "U6", "unions against a Python oracle (multiplicities, NULL rows, alignment by name, chains, operand reuse)", u6_run, functions=fns_p + [fi(H.sql_backend.SqlImpl.compile_ast)],
                          bounded="21 union shapes x 2 backends on three small tables with duplicates and NULL rows"))
    pf = [lambda: TS.Pre(TS.Skeleton(("vis",)), "l"), lambda: TS.Pre(TS.Skeleton(("vis",)), "r")]
    for backend, f in (("polars", fns_p), ("sql", fns_s)):
        obs.append(Obligation(f"C07/U1/{backend}/different_backends", "U1", "union of tables with different backends is refused with TypeError", make_run(pf, False, backend, same_backend=False), functions=f, bounded="width 1"))
    return obs


DESIGN_REF = "DESIGN.md §5.7"
ASSUMPTIONS = c11.ASSUMPTIONS + [
    "all pre-state columns have the same type (Int64), so the `no common type -> TypeError` refusal is exercised by C13's lca_type enumeration, not here",
    "engine UNION / UNION ALL row semantics (null-equal de-duplication, multiplicities) are library axioms; U4 checks the requested operation is the one emitted",
]
LEVEL = "other"
EXPLANATION = c11.EXPLANATION.replace("every verb", "union (distinct / all) of two tables")
