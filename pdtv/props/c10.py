"""C10 - tables and expressions are immutable values.

F1  static frame obligations (pdtv/frame.py) on the real source ASTs: every function under contract writes
    only to objects that are fresh in its activation or listed in its `modifies` clause
    (sidecar pdtv/contracts_frames.py).                                                  [all paths, unbounded]
F2  dynamic frame check in the inductive-step harness: a deep fingerprint of the input tables (cache, AST node)
    and of the argument expressions is unchanged by every verb, on every explored path.   [bounded width]
"""

from __future__ import annotations

import ast
import importlib
import inspect
import textwrap

import z3

from .. import contracts_frames as CF
from .. import frame
from .. import harness as H
from .. import plmodel
from .. import tablestep as TS
from ..oblig import VC, Obligation, Outcome
from . import c06, c11

pdt = H.pdt


def resolve(qual):
    parts = qual.split(".")
    for i in range(len(parts), 0, -1):
        try:
            mod = importlib.import_module(".".join(parts[:i]))
        except ImportError:
            continue
        obj = mod
        for p in parts[i:]:
            obj = inspect.getattr_static(obj, p) if inspect.isclass(obj) else getattr(obj, p)
        return obj
    raise ImportError(qual)


def unwrap(obj):
    while True:
        if isinstance(obj, (staticmethod, classmethod)):
            obj = obj.__func__
        elif hasattr(obj, "__wrapped__"):
            obj = obj.__wrapped__
        else:
            return obj


def make_f1(qual, contract):
    def run(carve):
        fn = unwrap(resolve(qual))
        src, start = inspect.getsourcelines(fn)
        tree = ast.parse(textwrap.dedent("".join(src))).body[0]
        chk = frame.FrameChecker(tree, contract, CF.CONTRACTS, qual, line_offset=start - 1)
        viol = chk.run()
        if contract.get("returns_fresh"):
            for ln, k in chk.returns:
                if k not in ("fresh", "shallow", "deep"):
                    viol.append(frame.Site(ln, f"returns a value of kind `{k}`; the contract (used by modify_ast) promises a fresh table shell", "return"))
            if not chk.returns:
                viol.append(frame.Site(0, "no return statement found", "return"))
        viol = [v for v in viol if not any(str(v.lineno) == str(k) or k in v.what for k in carve_lines(carve))]
        goal = f"frame: {qual} writes only to fresh objects" + (f" or to {contract.get('modifies')}" if contract.get("modifies") else "")
        n = sum(1 for _ in ast.walk(tree))
        if viol:
            v = viol[0]
            return Outcome("refuted", detail=f"{qual} {v}", goal=goal, paths=1, queries=n, backend="frame-analysis", model={"site": repr(v), "all": [repr(x) for x in viol]},
                           replay={"reproduced": False, "text": "static frame obligation; see the dynamic frame check F2 for a concrete input"})
        return Outcome("discharged", goal=goal, paths=1, queries=n, backend="frame-analysis", notes=[repr(w) for w in chk.writes])

    return run


def carve_lines(carve):
    out = []
    for c in carve:
        if c.startswith("site:"):
            out.append(c[5:])
    return out


# ---- F2 dynamic ------------------------------------------------------------------------------


def fp(x, depth=0, seen=None):
    """deep structural fingerprint (identity of leaves, structure of containers / objects)"""
    from pydiverse.transform._internal.tree.ast import AstNode
    from pydiverse.transform._internal.tree.col_expr import ColExpr, Order

    seen = seen if seen is not None else {}
    if depth > 8:
        return "..."
    if isinstance(x, (str, int, float, bool, type(None), bytes)) or isinstance(x, type):
        return ("v", type(x).__name__, str.__str__(x) if isinstance(x, str) else repr(x))
    if id(x) in seen:
        return ("ref", seen[id(x)])
    seen[id(x)] = len(seen)
    if isinstance(x, dict):
        return ("dict", id(x), tuple((fp(k, depth + 1, seen), fp(v, depth + 1, seen)) for k, v in x.items()))
    if isinstance(x, (list, tuple)):
        return (type(x).__name__, id(x) if isinstance(x, list) else 0, tuple(fp(v, depth + 1, seen) for v in x))
    if isinstance(x, (set, frozenset)):
        return ("set", id(x), tuple(sorted((repr(fp(v, depth + 1, seen)) for v in x))))
    if isinstance(x, (ColExpr, Order, TS.Cache, AstNode, TS.Table)):
        fields = {}
        for cls in type(x).__mro__:
            for s in cls.__dict__.get("__slots__", ()):
                try:
                    fields[s] = object.__getattribute__(x, s)
                except AttributeError:
                    pass
        try:
            fields.update(object.__getattribute__(x, "__dict__"))
        except AttributeError:
            pass
        fields.pop("_dtype", None)  # memoised type / function type: permitted memo writes
        fields.pop("_ftype", None)
        return (type(x).__name__, id(x), tuple((k, fp(v, depth + 1, seen)) for k, v in sorted(fields.items())))
    return ("obj", type(x).__name__, id(x))


def make_f2(pre_factories, label, fn, backend):
    def run(carve):
        plmodel.reset_state()
        pres = [f() for f in pre_factories]
        probe = (lambda tables: [fp(t) for t in tables], lambda tok, tables: tok == [fp(t) for t in tables])
        paths, wit = TS.explore_step(pres, fn, backend, probe=probe)
        vc = VC(f"[{', '.join(str(p.skel) for p in pres)}] {label}: the input tables (cache, AST node, columns) have the same deep fingerprint before and after the verb call, on every path (also when the verb raises)")
        for p in paths:
            vc.paths += 1
            if p.kind == "exc":
                if isinstance(p.value, (plmodel.PolarsError,)):
                    vc.queries += 1
                    continue
                raise p.value  # anything else is a failure of the probe / harness, not a verdict
            same = p.value[-1]
            vc.require(p.pc, z3.BoolVal(bool(same)), "an input table was modified by the verb", wit)
        return vc.outcome()

    return run


def f3_run(carve):
    """a table / expression does not share mutable containers with its caller: changing a dict / list that was passed to a
    verb or an expression method afterwards changes neither the metadata nor the exported frame (native)"""
    import warnings

    import polars as pl
    import sqlalchemy as sqa

    from .c13 import _enum_outcome

    n, bad = 0, []
    df = pl.DataFrame({"a": [1, 2, 2], "b": [3, 4, 5], "c": [6, 7, 8]})
    dfu = pl.DataFrame({"a": [2, 9], "b": [4, 4], "z": [0, 1]})
    eng = sqa.create_engine("sqlite://")
    df.write_database("t", eng)
    dfu.write_database("u", eng)

    def snap(x):
        if isinstance(x, pdt.Table):
            out = x >> pdt.ungroup() >> pdt.export(pdt.Polars())
            return (x >> pdt.columns(), out.columns, sorted(map(str, out.rows())), x._ast.ast_repr())
        return x.ast_repr()

    with warnings.catch_warnings():
        warnings.simplefilter("ignore")
        for be, t, u in (("polars", pdt.Table(df, name="t"), pdt.Table(dfu, name="u")), ("sqlite", pdt.Table("t", pdt.SqlAlchemy(eng)), pdt.Table("u", pdt.SqlAlchemy(eng)))):
            def cases():
                m = {"a": "x"}
                yield "rename(dict with str keys)", t >> pdt.rename(m), lambda: m.update({"b": "y", "a": "q"})
                m2 = {t.a: "x"}
                yield "rename(dict with Col keys)", t >> pdt.rename(m2), lambda: m2.update({t.b: "y"})
                on = [t.a == u.a]
                yield "join(on=list)", t >> pdt.join(u, on, "inner"), lambda: on.append(t.b == u.b)
                mp = {1: 10}
                yield "map(dict)", t >> pdt.mutate(k=t.a.map(mp)), lambda: mp.update({2: 20})
                key = (1, 2)
                mp2 = {key: 10}
                yield "map(dict) expression", t.a.map(mp2), lambda: mp2.update({3: 30})
                pb = [t.a]
                yield "partition_by=list", t >> pdt.mutate(k=t.b.sum(partition_by=pb)), lambda: pb.append(t.c)
                ar = [t.b.descending()]
                yield "arrange=list", t >> pdt.mutate(k=t.c.shift(1, arrange=ar)), lambda: ar.insert(0, t.a)
                fl = [t.a > 1]
                yield "filter=list", t >> pdt.summarize(k=t.b.sum(filter=fl)), lambda: fl.append(t.c > 7)
                names = ["a", "b"]
                yield "select(*list)", t >> pdt.select(*names), lambda: names.reverse()
                d = {"a": [1, 2], "b": [3, 4]}
                yield "Table(dict)", pdt.Table(d, name="d"), lambda: (d["a"].append(9), d.update({"zz": [0, 0]}))
                vals = [1, 2]
                yield "is_in(*list)", t >> pdt.filter(t.a.is_in(*vals)), lambda: vals.append(3)
                # expressions are values: building on an expression must not change it
                pos = pdt.when(t.a > 1).then(1)
                yield "open case expression reused", t >> pdt.mutate(k=pos), lambda: pos.when(t.a < 2).then(-1).otherwise(0)
                pos2 = pdt.when(t.a > 1).then(1)
                yield "open case expression (expression)", pos2, lambda: pos2.when(t.b > 3).then(7)
                wc = pdt.when(t.a > 1)
                first = wc.then(1)
                yield "when clause used twice", first, lambda: wc.then(2).when(t.c > 0).then(3)
                base = t.a + t.b
                yield "arithmetic subexpression reused", t >> pdt.mutate(k=base), lambda: (base * 2, base.cast(pdt.Float64()), base.is_in(1, 2), base.map({3: 4}))
                win = t.c.shift(1, arrange=t.b)
                yield "window expression reused under another grouping", t >> pdt.mutate(k=win), lambda: (t >> pdt.group_by(t.a) >> pdt.mutate(k2=win) >> pdt.ungroup() >> pdt.export(pdt.Polars()))
                cexpr = pdt.C.c.shift(1, arrange=pdt.C.b)
                yield "C-expression resolved against two tables", cexpr, lambda: ((t >> pdt.mutate(k=cexpr)), (t >> pdt.rename({"b": "c", "c": "b"}) >> pdt.mutate(k=cexpr) >> pdt.export(pdt.Polars())))

            for label, obj, mutate_arg in cases():
                n += 1
                try:
                    before = snap(obj)
                    mutate_arg()
                    after = snap(obj)
                except Exception as e:  # noqa: BLE001
                    bad.append(f"[{be}] {label}: {type(e).__name__}: {str(e)[:140]}")
                    continue
                if before != after:
                    bad.append(f"[{be}] {label}: changing the caller's container after the call changed the result: {str(before)[:160]} -> {str(after)[:160]}")
    return _enum_outcome("tables and expressions do not alias mutable containers passed by the caller (dicts / lists given to rename, join, map, partition_by, arrange, filter, Table)", n, bad)


def f4_run(carve):
    """export / build_query / show_query / collect are observers: a table can be exported any number of times with the same
    result, and its AST reads the same afterwards (native; SQL and Polars)"""
    import warnings

    from .. import pipelines as P
    from .c13 import _enum_outcome

    n, bad = 0, []
    B = {st.label: st for st in P.steps()}
    E = {st.label: st for st in P.expr_steps()}
    mk = P.Step
    extra = [
        [B["arrange(a.nl,h)"], mk("mutate(rn=row_number())", lambda x, c: x >> pdt.mutate(rn=pdt.row_number(), sh=x.h.shift(1)), "keep", ("h",), True, False)],
        [B["group_by(a)"], B["arrange(h.desc)"], mk("mutate(rn=row_number())", lambda x, c: x >> pdt.mutate(rn=pdt.row_number()), "keep", ("h",), True, False)],
        [B["mutate(w=row_number)"], B["alias"], B["filter(a>1)"]],
        [B["left_join(u)"], B["mutate(x=a+h)"]],
        [B["union(t2)"], B["filter(a>1)"]],
        [B["group_by(a)"], B["summarize(n,m)"], B["filter(a>1)"]],
        [B["arrange(a.nl,h)"], B["slice_head(3,1)"], B["alias"], B["summarize(sa)"]],
        [E["case/coalesce"], E["string"]],
        [E["agg_window(part_f)"], B["arrange(h.desc)"]],
    ]
    pipes = [[st] for st in P.steps()] + extra
    with warnings.catch_warnings():
        warnings.simplefilter("ignore")
        for be in ("polars", "sqlite"):
            for pipe in pipes:
                c = P.Ctx(be, "mixed")
                x = c.t
                try:
                    for st in pipe:
                        if not P._has(x, *st.needs):
                            raise LookupError
                        x = st.fn(x, c)
                        if x is None:
                            raise LookupError
                    x = x >> pdt.ungroup()
                    r0 = x._ast.ast_repr()
                    first = x >> pdt.export(pdt.Polars())
                except Exception:  # noqa: BLE001  (rejections / refusals / first-export failures are C14 / C01)
                    continue
                n += 1
                lab = f"[{be}] " + " >> ".join(st.label for st in pipe)
                try:
                    q1 = x >> pdt.build_query()
                    second = x >> pdt.export(pdt.Polars())
                    q2 = x >> pdt.build_query()
                    third = x >> pdt.mutate(zz__=1) >> pdt.export(pdt.Polars())
                    r1 = x._ast.ast_repr()
                except (pdt.errors.SubqueryError, pdt.errors.NotSupportedError):
                    continue
                except Exception as ex:  # noqa: BLE001
                    bad.append(f"{lab}: after one export the table cannot be used again: {type(ex).__name__}: {str(ex)[:140]}")
                    continue
                key = lambda df: sorted(map(str, df.rows()))  # noqa: E731
                if first.columns != second.columns or key(first) != key(second):
                    bad.append(f"{lab}: the second export differs from the first")
                if q1 != q2:
                    bad.append(f"{lab}: build_query gives another text after an export")
                if r0 != r1:
                    bad.append(f"{lab}: the AST of the table reads differently after export / build_query")
                if third.columns[:-1] != first.columns:
                    bad.append(f"{lab}: a verb applied after an export sees other columns")
    return _enum_outcome("export / build_query leave the table unchanged: repeated exports agree, the query text and the AST are stable, the table stays usable", n, bad)


def obligations(tier):
    fi = H.fn_info
    obs = []
    for qual, contract in CF.FUNCTIONS.items():
        try:
            f = unwrap(resolve(qual))
            info = fi(f)
        except Exception as e:  # noqa: BLE001
            info = {"name": qual, "file": None, "error": str(e)}
        obs.append(Obligation(f"C10/F1/{qual.replace('pydiverse.transform._internal.', '')}", "F1", f"frame condition of {qual.split('.')[-1]}", make_f1(qual, contract), functions=[info],
                              carveouts={"site:1611": "known finding"}))
    # dynamic frame check on the step harness
    sk = [TS.Skeleton(c) for c in (("vis", "hid"), ("grp", "vis"), ("vis", "vis", "hid"))]
    for skel in sk:
        pf = [lambda skel=skel: TS.Pre(skel)]
        for label, fn in c11.steps_for(TS.Pre(skel), tier):
            f2 = lambda pres, ts, fn=fn: fn(pres[0], ts[0])  # noqa: E731
            for backend in ("polars", "sql"):
                obs.append(Obligation(f"C10/F2/{backend}/{skel}/{label}", "F2", f"{label}: inputs unchanged ({backend})", make_f2(pf, label, f2, backend), functions=[fi(TS.Cache.update)],
                                      bounded=f"table width {skel.w}; dynamic fingerprint on all symbolic paths"))
    obs.append(Obligation("C10/F4/observers", "F4", "export / build_query are observers (repeated exports agree; the table stays usable and reads the same)", f4_run,
                          functions=[fi(pdt._internal.pipe.verbs.export), fi(pdt._internal.pipe.verbs.build_query), fi(H.sql_backend.SqlImpl.compile_ast), fi(H.verbs_tree.Verb._clone) if hasattr(H, "verbs_tree") else fi(pdt._internal.pipe.verbs.export)],
                          bounded="36 pipelines x 2 backends (native execution)"))
    obs.append(Obligation("C10/F3/caller_containers", "F3", "no aliasing of caller-owned mutable containers (dicts / lists passed to verbs and expression methods)", f3_run,
                          functions=[fi(pdt._internal.pipe.verbs.rename), fi(pdt._internal.pipe.verbs.join), fi(H.col_expr_mod.ColExpr.map), fi(H.col_expr_mod.ColFn.__init__)], bounded="11 call shapes x 2 backends (native execution)"))
    ls, rs = TS.Skeleton(("vis", "hid")), TS.Skeleton(("vis",))
    pf = [lambda: TS.Pre(ls, "l"), lambda: TS.Pre(rs, "r")]
    for label, info, fn in c06.join_steps(TS.Pre(ls, "l"), TS.Pre(rs, "r")):
        obs.append(Obligation(f"C10/F2/polars/join/{label}", "F2", f"join({label}): inputs unchanged", make_f2(pf, label, fn, "polars"), functions=[fi(pdt._internal.pipe.verbs.join)], bounded="widths 2 and 1"))
    return obs


DESIGN_REF = "DESIGN.md §5.10"
ASSUMPTIONS = [
    "F1 is a syntactic write-set analysis: aliases created by unknown (library) calls or by storing a pre-existing object inside a fresh container and writing through it later are not tracked; callee effects are taken from the sidecar contracts (pdtv/contracts_frames.py), each of which is itself an obligation or a stated assumption",
    "memo writes (_dtype / _ftype caches) are permitted: their value is a function of the immutable subtree",
    "the backend compile functions may rewrite the tree they are given; export / build_query pass `table._ast.clone()` (checked: their frame obligations)",
    "mutation of source frames inside polars / SQLAlchemy is not decided",
]
