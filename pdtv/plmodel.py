"""Library model of the part of the polars API that /repo's backend/polars.py uses.

This module is bound to the name ``pl`` inside the real backend module while the real
``compile_col_expr`` / ``@impl`` functions run (see props/common.patched).  Every
method below is an *assumed contract* on polars (trusted base T-lib); the axioms are
checked against the installed polars on a value grid by ``conformance.py`` (bounded,
thorough tier) and are listed in the evidence.

Denotation: a PlExpr carries the nullable value (nv.NV) the expression has on one generic
row.  Aggregations work on an abstract group: a PlExpr that is a plain per-row
expression can be aggregated; the result is a scalar PlExpr whose value is given by
uninterpreted group functions (nn_count, nn_sum, ...) of the *row expression identity*.
"""

from __future__ import annotations

import z3

from . import nv as N
from .core import Sym, SymBool, SymInt, SymReal, SymStr, Unsupported, ctx, term
from .nv import BOOL, INT, NV, REAL, STR

AXIOMS_USED: set[str] = set()


def _ax(name):
    AXIOMS_USED.add(name)


# ---------------------------------------------------------------------------------
# dtypes: we accept the real polars dtype objects (they come from Dtype.to_polars())
# as well as attribute access on this module (pl.Int64, pl.Float64(), pl.Utf8 ...)

import polars as _real_pl  # noqa: E402

Int8, Int16, Int32, Int64 = _real_pl.Int8, _real_pl.Int16, _real_pl.Int32, _real_pl.Int64
UInt8, UInt16, UInt32, UInt64 = _real_pl.UInt8, _real_pl.UInt16, _real_pl.UInt32, _real_pl.UInt64
Float32, Float64, Decimal = _real_pl.Float32, _real_pl.Float64, _real_pl.Decimal
Utf8, String, Boolean = _real_pl.Utf8, _real_pl.String, _real_pl.Boolean
Date, Datetime, Time, Duration, Null = _real_pl.Date, _real_pl.Datetime, _real_pl.Time, _real_pl.Duration, _real_pl.Null
List, Enum, Struct = _real_pl.List, _real_pl.Enum, _real_pl.Struct
Series = _real_pl.Series
DataFrame = _real_pl.DataFrame


def sort_of_pltype(t):
    if t is None:
        return None
    tt = t if isinstance(t, type) else type(t)
    if issubclass(tt, (_real_pl.Int8, _real_pl.Int16, _real_pl.Int32, _real_pl.Int64, _real_pl.UInt8, _real_pl.UInt16, _real_pl.UInt32, _real_pl.UInt64)):
        return INT
    if issubclass(tt, (_real_pl.Float32, _real_pl.Float64, _real_pl.Decimal)):
        return REAL
    if issubclass(tt, _real_pl.Boolean):
        return BOOL
    if issubclass(tt, (_real_pl.String, _real_pl.Enum, _real_pl.Categorical)):
        return STR
    if issubclass(tt, (_real_pl.Date, _real_pl.Datetime, _real_pl.Time, _real_pl.Duration)):
        return INT  # abstract ordinal
    if issubclass(tt, _real_pl.Null):
        return None
    raise Unsupported(f"polars dtype {t}")


def family_of_pltype(t):
    """coarse family used by the typing obligations (C12)"""
    tt = t if isinstance(t, type) else type(t)
    for fam, classes in (
        ("int", (_real_pl.Int8, _real_pl.Int16, _real_pl.Int32, _real_pl.Int64, _real_pl.UInt8, _real_pl.UInt16, _real_pl.UInt32, _real_pl.UInt64)),
        ("float", (_real_pl.Float32, _real_pl.Float64, _real_pl.Decimal)),
        ("bool", (_real_pl.Boolean,)),
        ("string", (_real_pl.String, _real_pl.Enum, _real_pl.Categorical)),
        ("date", (_real_pl.Date,)),
        ("datetime", (_real_pl.Datetime,)),
        ("time", (_real_pl.Time,)),
        ("duration", (_real_pl.Duration,)),
        ("null", (_real_pl.Null,)),
        ("list", (_real_pl.List,)),
    ):
        if issubclass(tt, classes):
            return fam
    raise Unsupported(f"polars dtype {t}")


from .nv import G_ROWS, agg_facts, agg_fns  # noqa: E402,F401


def reset_state():
    N.reset_agg_state()
    AXIOMS_USED.clear()
    ENV.clear()
    RANK_APPS.clear()


def _expr_id(e: "PlExpr"):
    return N.expr_id(e.nv, e.order_id)


# ---------------------------------------------------------------------------------


INT_WRAP = True
_TWO64, _TWO63 = 2**64, 2**63


def wrap64(t):
    """two's complement wrap-around of a mathematical integer term into int64"""
    return t - _TWO64 * ((t + _TWO63) / _TWO64)


class PolarsError(Exception):
    """an error the real polars raises at execution time"""


class UntypedNull:
    pass


UNTYPED_NULL = UntypedNull()


def _to_nv(x, like_sort=None) -> "NV | UntypedNull":
    if isinstance(x, PlExpr):
        return x.nv
    if x is None:
        return N.null_of(like_sort) if like_sort is not None else UNTYPED_NULL
    if isinstance(x, Sym):
        t = x.t
        if like_sort == REAL and t.sort() == INT:
            t = z3.ToReal(t)
        return NV(False, t)
    if isinstance(x, (bool, int, float, str)):
        return N.const(x, like_sort)
    raise Unsupported(f"polars model: operand {type(x).__name__}")


def _pair(a, b):
    na = _to_nv(a)
    nb = _to_nv(b, None if isinstance(na, UntypedNull) else na.sort)
    if isinstance(na, UntypedNull):
        if isinstance(nb, UntypedNull):
            na = nb = N.null_of(INT)
        else:
            na = N.null_of(nb.sort)
    elif isinstance(nb, UntypedNull):
        nb = N.null_of(na.sort)
    return N.unify(na, nb)


class PlExpr:
    """model of pl.Expr; kind: 'row' (per-row value) | 'agg' (one value per group) |
    'window' (structure only)"""

    __hash__ = object.__hash__

    def __init__(self, nvv, kind="row", node=None, pltype=None, order_id=0):
        self.nv = nvv
        self.kind = kind
        self.node = node or ("opaque",)
        self.pltype = pltype  # tracked by the typing model when known
        self.order_id = order_id  # row order the expression is evaluated in (sort_by)

    def __repr__(self):
        return f"PlExpr[{self.kind}]({self.node})"

    def __bool__(self):
        raise TypeError("the truth value of an Expr is ambiguous")

    def _k(self, *others):
        ks = {self.kind} | {o.kind for o in others if isinstance(o, PlExpr)}
        if "window" in ks:
            return "window"
        return "agg" if ks == {"agg"} else ("row" if "agg" not in ks else "agg")

    def _mk(self, nvv, op, *args, pltype=None):
        return PlExpr(nvv, self._k(*args), (op, self.node, *[a.node if isinstance(a, PlExpr) else a for a in args]), pltype, self.order_id)

    # -- arithmetic -----------------------------------------------------------------
    def _arith(self, o, f, name, swap=False):
        a, b = _pair(self, o)
        if swap:
            a, b = b, a
        _ax(f"polars: `{name}` is null iff an operand is null")
        if a.sort == INT and INT_WRAP and name in ("+", "-", "*"):
            _ax("polars: Int64 `+ - *` wrap around modulo 2^64 (machine arithmetic; intermediates may overflow even when the documented result fits)")
            g = f
            f = lambda x, y: wrap64(g(x, y))  # noqa: E731
        return self._mk(N.lift(f, a, b), name, o)

    def __add__(self, o):
        a, _ = _pair(self, o)
        if a.sort == STR:
            return self._arith(o, lambda x, y: z3.Concat(x, y), "+")
        return self._arith(o, lambda x, y: x + y, "+")

    def __radd__(self, o):
        return self._arith(o, lambda x, y: x + y, "+", True)

    def __sub__(self, o):
        return self._arith(o, lambda x, y: x - y, "-")

    def __rsub__(self, o):
        return self._arith(o, lambda x, y: x - y, "-", True)

    def __mul__(self, o):
        return self._arith(o, lambda x, y: x * y, "*")

    def __rmul__(self, o):
        return self._arith(o, lambda x, y: x * y, "*", True)

    def __truediv__(self, o):
        a, b = _pair(self, o)
        a, b = N.to_real(a), N.to_real(b)
        _ax("polars: `/` is true division (Float result) and null iff an operand is null")
        return self._mk(N.lift(lambda x, y: x / y, a, b), "/", o)

    def __rtruediv__(self, o):
        a, b = _pair(self, o)
        a, b = N.to_real(a), N.to_real(b)
        return self._mk(N.lift(lambda x, y: y / x, a, b), "r/", o)

    def __floordiv__(self, o):
        a, b = _pair(self, o)
        if a.sort != INT:
            raise Unsupported("polars model: // on non-integers")
        _ax("polars: integer `//` rounds toward negative infinity (floor)")
        return self._mk(N.lift(N.floor_div, a, b), "//", o)

    def __mod__(self, o):
        a, b = _pair(self, o)
        if a.sort != INT:
            raise Unsupported("polars model: % on non-integers")
        _ax("polars: integer `%` has the sign of the divisor (x - y*floor(x/y))")
        return self._mk(N.lift(N.floor_mod, a, b), "%", o)

    def __pow__(self, o):
        a, b = _pair(self, o)
        if a.sort == REAL:
            b = N.to_real(b)
            _ax("polars: float `**` is the real power function pow_r (uninterpreted), null iff an operand is null")
            return self._mk(N.lift(lambda x, y: N.POW(x, y), a, b), "**", o)
        raise Unsupported("polars model: ** on non-floats (result depends on polars integer pow)")

    def __neg__(self):
        return self._mk(N.lift(lambda x: -x, self.nv), "neg")

    def __pos__(self):
        return self

    def __abs__(self):
        return self._mk(N.lift(N.abs_t, self.nv), "abs")

    def abs(self):
        return self.__abs__()

    # -- comparisons ----------------------------------------------------------------
    def _cmp(self, o, f, name):
        a, b = _pair(self, o)
        _ax("polars: comparisons are null iff an operand is null")
        return self._mk(N.lift(f, a, b), name, o, pltype=Boolean)

    def __eq__(self, o):
        return self._cmp(o, lambda x, y: x == y, "==")

    def __ne__(self, o):
        return self._cmp(o, lambda x, y: x != y, "!=")

    def __lt__(self, o):
        return self._cmp(o, N.lt_t, "<")

    def __le__(self, o):
        return self._cmp(o, N.le_t, "<=")

    def __gt__(self, o):
        return self._cmp(o, lambda x, y: N.lt_t(y, x), ">")

    def __ge__(self, o):
        return self._cmp(o, lambda x, y: N.le_t(y, x), ">=")

    # -- boolean ---------------------------------------------------------------------
    def __and__(self, o):
        a, b = _pair(self, o)
        _ax("polars: `&` on booleans is Kleene AND")
        return self._mk(N.k_and(a, b), "&", o, pltype=Boolean)

    __rand__ = __and__

    def __or__(self, o):
        a, b = _pair(self, o)
        _ax("polars: `|` on booleans is Kleene OR")
        return self._mk(N.k_or(a, b), "|", o, pltype=Boolean)

    __ror__ = __or__

    def __xor__(self, o):
        a, b = _pair(self, o)
        _ax("polars: `^` on booleans is null iff an operand is null")
        return self._mk(N.lift(lambda x, y: z3.Xor(x, y), a, b), "^", o, pltype=Boolean)

    __rxor__ = __xor__

    def __invert__(self):
        return self._mk(N.k_not(self.nv), "~", pltype=Boolean)

    # -- null handling ---------------------------------------------------------------
    def is_null(self):
        return self._mk(NV(False, self.nv.null), "is_null", pltype=Boolean)

    def is_not_null(self):
        return self._mk(NV(False, z3.Not(self.nv.null)), "is_not_null", pltype=Boolean)

    def fill_null(self, value=None, strategy=None):
        if strategy is not None:
            return PlExpr(NV(z3.BoolVal(False), self.nv.val), "window", ("fill_null_strategy", self.node, strategy), self.pltype, self.order_id)
        a, b = _pair(self, value)
        _ax("polars: x.fill_null(y) = y where x is null, else x")
        return self._mk(N.coalesce2(a, b), "fill_null", value)

    def clip(self, lower_bound=None, upper_bound=None):
        x = self.nv
        if x.sort in (BOOL, STR):
            raise PolarsError("InvalidOperationError: `clip` only supports physical numeric types")
        lo = _to_nv(lower_bound, x.sort)
        hi = _to_nv(upper_bound, x.sort)
        lo = N.null_of(x.sort) if isinstance(lo, UntypedNull) else lo
        hi = N.null_of(x.sort) if isinstance(hi, UntypedNull) else hi
        lo, x = N.unify(lo, x)
        hi, x = N.unify(hi, x)
        lo, x = N.unify(lo, x)
        _ax("polars: x.clip(l, u) = l if x < l, else u if x > u, else x; null x stays null; a null bound is ignored; only numeric/temporal types")
        v = z3.If(z3.And(z3.Not(lo.null), x.val < lo.val), lo.val, z3.If(z3.And(z3.Not(hi.null), x.val > hi.val), hi.val, x.val))
        return self._mk(NV(x.null, v), "clip", lower_bound, upper_bound)

    # -- numeric ---------------------------------------------------------------------
    def round(self, decimals=0, mode=None):
        d = term(decimals) if not isinstance(decimals, PlExpr) else None
        if d is None:
            raise Unsupported("round with expr decimals")
        _ax("polars: round(d) is the rounding function round_to (uninterpreted; ties excluded)")
        if self.nv.sort == INT:
            return self._mk(N.lift(lambda x: N.ROUND_INT(x, d), self.nv), "round", decimals)
        return self._mk(N.lift(lambda x: N.ROUND(x, d), self.nv), "round", decimals)

    def floor(self):
        _ax("polars: floor is the mathematical floor")
        return self._mk(N.lift(N.floor_real, N.to_real(self.nv)), "floor")

    def ceil(self):
        _ax("polars: ceil is the mathematical ceiling")
        return self._mk(N.lift(N.ceil_real, N.to_real(self.nv)), "ceil")

    def _unary_real(self, name):
        f = N.UNARY_REAL[name]
        return self._mk(N.lift(lambda x: f(x), N.to_real(self.nv)), name)

    def exp(self):
        return self._unary_real("exp")

    def log(self, base=None):
        if base is not None:
            raise Unsupported("log with base")
        return self._unary_real("log")

    def log10(self):
        return self._unary_real("log10")

    def sin(self):
        return self._unary_real("sin")

    def cos(self):
        return self._unary_real("cos")

    def tan(self):
        return self._unary_real("tan")

    def arcsin(self):
        return self._unary_real("asin")

    def arccos(self):
        return self._unary_real("acos")

    def arctan(self):
        return self._unary_real("atan")

    def sqrt(self):
        return self._unary_real("sqrt")

    def cbrt(self):
        _ax("cbrt(x) = sign(x) * |x| ** (1/3) (definition shared by all engines)")
        return self._mk(N.lift(N.cbrt_def, N.to_real(self.nv)), "cbrt")

    def is_infinite(self):
        _ax("value domain: floats are finite reals (DESIGN §4)")
        return self._mk(N.lift(lambda x: z3.BoolVal(False), self.nv), "is_infinite", pltype=Boolean)

    def is_finite(self):
        return self._mk(N.lift(lambda x: z3.BoolVal(True), self.nv), "is_finite", pltype=Boolean)

    def is_nan(self):
        return self._mk(N.lift(lambda x: z3.BoolVal(False), self.nv), "is_nan", pltype=Boolean)

    def is_not_nan(self):
        return self._mk(N.lift(lambda x: z3.BoolVal(True), self.nv), "is_not_nan", pltype=Boolean)

    # -- casts -----------------------------------------------------------------------
    def cast(self, dtype, strict=True, wrap_numerical=False):
        s = sort_of_pltype(dtype)
        x = self.nv
        fam = family_of_pltype(dtype)
        src_fam = family_of_pltype(self.pltype) if self.pltype is not None else None
        same_family = src_fam == fam if src_fam is not None else (s == x.sort and fam in ("int", "float", "bool", "string"))
        if s is None or (s == x.sort and same_family):
            _ax("polars: a cast within the same type family keeps the value (overflow / precision aside, A-math)")
            return PlExpr(x, self.kind, ("cast", self.node, str(dtype), strict), dtype, self.order_id)
        if x.sort == INT and s == REAL:
            _ax("polars: int -> float cast is exact (A-math)")
            r = NV(x.null, z3.ToReal(x.val))
        elif x.sort == REAL and s == INT:
            _ax("polars: float -> int cast truncates toward zero")
            r = NV(x.null, z3.If(x.val >= 0, z3.ToInt(x.val), -z3.ToInt(-x.val)))
        elif x.sort == BOOL and s == INT:
            _ax("polars: bool -> int cast gives 0/1")
            r = NV(x.null, z3.If(x.val, z3.IntVal(1), z3.IntVal(0)))
        elif x.sort == BOOL and s == REAL:
            r = NV(x.null, z3.If(x.val, z3.RealVal(1), z3.RealVal(0)))
        elif x.sort == INT and s == BOOL:
            r = NV(x.null, x.val != 0)
        else:
            # engine-native text formats / temporal conversions: uninterpreted per engine; null stays null
            _ax("polars: a strict cast keeps null as null and maps non-null values by the engine's conversion function (uninterpreted)")
            f = z3.Function(f"pl_cast_{src_fam or x.sort}_{fam}", x.sort, s)
            r = NV(x.null, f(x.val))
        return PlExpr(r, self.kind, ("cast", self.node, str(dtype), strict), dtype, self.order_id)

    def replace(self, old, new=None, **kw):
        if self.nv.sort == STR and isinstance(old, str) and isinstance(new, str):
            _ax("polars: replace(old,new) maps exactly the value old to new")
            return self._mk(NV(self.nv.null, z3.If(self.nv.val == z3.StringVal(old), z3.StringVal(new), self.nv.val)), "replace", old, new, pltype=self.pltype)
        raise Unsupported("polars model: replace")

    # -- aggregation (abstract group) -----------------------------------------------
    def _agg(self, name, nvv, pltype=None):
        if self.kind != "row":
            raise Unsupported(f"aggregation {name} of a non-row expression")
        return PlExpr(nvv, "agg", (name, self.node), pltype, self.order_id)

    def count(self):
        f = agg_fns(self.nv.sort)
        _ax("polars: x.count() = number of non-null values in the group (never null)")
        return self._agg("count", NV(False, f["nn_count"](_expr_id(self))), UInt32)

    def sum(self):
        s = self.nv.sort
        f = agg_fns(s)
        g = _expr_id(self)
        _ax("polars: x.sum() = sum of the non-null values, 0 if there is none (never null)")
        zero = z3.RealVal(0) if s == REAL else z3.IntVal(0)
        return self._agg("sum", NV(False, z3.If(f["nn_count"](g) == 0, zero, f["nn_sum"](g))))

    def mean(self):
        f = agg_fns(self.nv.sort)
        g = _expr_id(self)
        _ax("polars: x.mean() = mean of the non-null values, null if there is none")
        return self._agg("mean", NV(f["nn_count"](g) == 0, f["nn_mean"](g)), Float64)

    def min(self):
        f = agg_fns(self.nv.sort)
        g = _expr_id(self)
        _ax("polars: x.min()/x.max() ignore nulls and are null if there is no non-null value")
        return self._agg("min", NV(f["nn_count"](g) == 0, f["nn_all"](g) if self.nv.sort == BOOL else f["nn_min"](g)), self.pltype)

    def max(self):
        f = agg_fns(self.nv.sort)
        g = _expr_id(self)
        _ax("polars: x.min()/x.max() ignore nulls and are null if there is no non-null value")
        return self._agg("max", NV(f["nn_count"](g) == 0, f["nn_any"](g) if self.nv.sort == BOOL else f["nn_max"](g)), self.pltype)

    def any(self, ignore_nulls=True):
        f = agg_fns(BOOL)
        g = _expr_id(self)
        some_true = z3.And(f["nn_count"](g) > 0, f["nn_any"](g))
        if not ignore_nulls:
            _ax("polars: x.any(ignore_nulls=False) is the Kleene OR over the group (null if no value is true and some value is null)")
            return self._agg("any", NV(z3.And(z3.Not(some_true), f["nn_count"](g) < G_ROWS), some_true), Boolean)
        _ax("polars: x.any() ignores nulls; False if there is no non-null value (never null)")
        return self._agg("any", NV(False, some_true), Boolean)

    def all(self, ignore_nulls=True):
        f = agg_fns(BOOL)
        g = _expr_id(self)
        all_true = z3.Or(f["nn_count"](g) == 0, f["nn_all"](g))
        if not ignore_nulls:
            _ax("polars: x.all(ignore_nulls=False) is the Kleene AND over the group (null if no value is false and some value is null)")
            return self._agg("all", NV(z3.And(all_true, f["nn_count"](g) < G_ROWS), all_true), Boolean)
        _ax("polars: x.all() ignores nulls; True if there is no non-null value (never null)")
        return self._agg("all", NV(False, all_true), Boolean)

    def first(self):
        if self.kind == "agg":
            return PlExpr(self.nv, "agg", ("first", self.node), self.pltype, self.order_id)
        f = agg_fns(self.nv.sort)
        g = _expr_id(self)
        return self._agg("first", NV(f["first_null"](g), f["first"](g)), self.pltype)

    def implode(self):
        return PlExpr(self.nv, "agg", ("implode", self.node), None, self.order_id)

    # -- window structure (value semantics not modelled; structure is inspected) -----
    def _win(self, name, *args, **kw):
        return PlExpr(self.nv, "window", (name, self.node, *[a.node if isinstance(a, PlExpr) else a for a in args], tuple(sorted((k, _node_of(v)) for k, v in kw.items()))), self.pltype, self.order_id)

    def rank(self, method="average", descending=False):
        r = self._win("rank", method, descending=descending)
        r.pltype = UInt32
        if method in ("dense", "min") and not descending and self.node[0] != "struct":
            # value model on the generic row: null key -> null rank; the rank function itself is
            # uninterpreted, its order facts are instantiated by the obligation (rank_facts)
            f = z3.Function(f"rank_{method}_{self.nv.sort}", self.nv.sort, INT)
            rv = f(self.nv.val)
            RANK_APPS.append((method, self.nv, rv))
            _ax("polars: x.rank('dense') is null for a null x, lies in 1..len, and is strictly monotone in x (equal keys get equal ranks)")
            r.nv = NV(self.nv.null, rv)
        return r

    def shift(self, n=1, fill_value=None):
        return self._win("shift", _node_of(n), fill_value=fill_value)

    def cum_sum(self, reverse=False):
        return self._win("cum_sum")

    def sort_by(self, by, *more_by, descending=False, nulls_last=False, **kw):
        return self._win("sort_by", by=_node_of(by), descending=_node_of(descending), nulls_last=_node_of(nulls_last))

    def over(self, partition_by=None, *more, order_by=None, **kw):
        if self.kind == "agg" and not order_by:
            _ax("polars: agg_expr.over(partition) gives every row the aggregate of its partition")
            return PlExpr(self.nv, "row", ("over", self.node, _node_of(partition_by), None), self.pltype, self.order_id)
        return self._win("over", partition_by=_node_of(partition_by), order_by=_node_of(order_by))

    def is_in(self, other, nulls_equal=False):
        if not isinstance(other, _PlList):
            raise Unsupported("polars model: is_in with a non-list argument")
        if nulls_equal:
            raise Unsupported("polars model: is_in(nulls_equal=True)")
        _ax("polars: x.is_in(list) is null iff x is null; otherwise true iff some non-null list element equals x (null elements never match and never make the result null)")
        hit = z3.BoolVal(False)
        x = self.nv
        for e in other.items:
            a, b = N.unify(x, e.nv)
            hit = z3.Or(hit, z3.And(z3.Not(b.null), a.val == b.val))
        return self._mk(NV(x.null, hit), "is_in", *other.items, pltype=Boolean)

    def alias(self, name):
        return PlExpr(self.nv, self.kind, ("alias", self.node, name), self.pltype, self.order_id)

    def map_elements(self, *a, **k):
        return PlExpr(NV(False, z3.FreshConst(REAL)), "row", ("map_elements",), Float64)

    @property
    def str(self):
        return _StrNS(self)

    @property
    def dt(self):
        return _DtNS(self)


def _node_of(v):
    if isinstance(v, PlExpr):
        return v.node
    if isinstance(v, (list, tuple)):
        return tuple(_node_of(x) for x in v)
    if isinstance(v, Sym):
        return ("sym", str(v.t))
    return v


Expr = PlExpr


def _const_str(y):
    if isinstance(y, str):
        return y
    if isinstance(y, PlExpr) and y.node[0] == "lit" and isinstance(y.node[1], str):
        return y.node[1]
    return None


class _StrNS:
    def __init__(self, e):
        self.e = e

    def _lit(self, y):
        if isinstance(y, PlExpr):
            return y.nv
        return _to_nv(y, STR)

    def starts_with(self, y):
        _ax("polars: str.starts_with(p) is the literal prefix test, null iff an operand is null")
        return self.e._mk(N.lift(lambda x, p: z3.PrefixOf(p, x), self.e.nv, self._lit(y)), "str.starts_with", y, pltype=Boolean)

    def ends_with(self, y):
        _ax("polars: str.ends_with(p) is the literal suffix test, null iff an operand is null")
        return self.e._mk(N.lift(lambda x, p: z3.SuffixOf(p, x), self.e.nv, self._lit(y)), "str.ends_with", y, pltype=Boolean)

    def contains(self, y, literal=False, strict=True):
        if isinstance(literal, Sym):
            literal = bool(literal)
        if literal:
            _ax("polars: str.contains(p, literal=True) is the literal substring test")
            return self.e._mk(N.lift(lambda x, p: z3.Contains(x, p), self.e.nv, self._lit(y)), "str.contains_literal", y, pltype=Boolean)
        _ax("polars: str.contains(p, literal=False) interprets p as a regular expression (uninterpreted relation regex_find)")
        f = z3.Function("regex_find", STR, STR, BOOL)
        return self.e._mk(N.lift(lambda x, p: f(x, p), self.e.nv, self._lit(y)), "str.contains_regex", y, pltype=Boolean)

    def replace_all(self, pattern, value, literal=False):
        if isinstance(literal, Sym):
            literal = bool(literal)
        REGEX_META = set(".^$*+?()[]{}|\\")
        pc, vc_ = _const_str(pattern), _const_str(value)
        if literal or (pc is not None and pc != "" and not (set(pc) & REGEX_META) and vc_ is not None and "$" not in vc_):
            _ax("polars: str.replace_all(p, v, literal=True) replaces every literal occurrence; so does literal=False when p has no regex metacharacter and v no `$`")
            f = z3.Function("replace_all_literal", STR, STR, STR, STR)
        else:
            _ax("polars: str.replace_all(p, v, literal=False) interprets p as a regular expression (uninterpreted regex_replace_all)")
            f = z3.Function("regex_replace_all", STR, STR, STR, STR)
        return self.e._mk(N.lift(lambda x, p, v: f(x, p, v), self.e.nv, self._lit(pattern), self._lit(value)), "str.replace_all", pattern, value, literal)

    def to_lowercase(self):
        f = z3.Function("lower", STR, STR)
        return self.e._mk(N.lift(lambda x: f(x), self.e.nv), "str.lower")

    def to_uppercase(self):
        f = z3.Function("upper", STR, STR)
        return self.e._mk(N.lift(lambda x: f(x), self.e.nv), "str.upper")

    def len_chars(self):
        return self.e._mk(N.lift(lambda x: z3.Length(x), self.e.nv), "str.len_chars", pltype=UInt32)

    def strip_chars(self, characters=None):
        f = z3.Function("strip_ws", STR, STR)
        return self.e._mk(N.lift(lambda x: f(x), self.e.nv), "str.strip")

    def slice(self, offset, length=None):
        o, ln = _to_nv(offset, INT), _to_nv(length, INT)
        _ax("polars: str.slice(o, n) = substring starting at o (0-based) of length n, for o >= 0, n >= 0")
        return self.e._mk(N.lift(lambda x, a, b: z3.SubString(x, a, b), self.e.nv, o, ln), "str.slice", offset, length)

    def join(self, delimiter="", ignore_nulls=True):
        return PlExpr(NV(False, z3.FreshConst(STR)), "agg", ("str.join", self.e.node, _node_of(delimiter)), String)

    def to_datetime(self, *a, **k):
        f = z3.Function("parse_datetime", STR, INT)
        return self.e._mk(N.lift(lambda x: f(x), self.e.nv), "str.to_datetime", pltype=Datetime)

    def to_date(self, *a, **k):
        f = z3.Function("parse_date", STR, INT)
        return self.e._mk(N.lift(lambda x: f(x), self.e.nv), "str.to_date", pltype=Date)


class _DtNS:
    _RET = {
        "year": Int32, "month": Int8, "day": Int8, "hour": Int8, "minute": Int8, "second": Int8,
        "millisecond": Int32, "microsecond": Int32, "weekday": Int8, "ordinal_day": Int16,
        "total_days": Int64, "total_hours": Int64, "total_minutes": Int64, "total_seconds": Int64,
        "total_milliseconds": Int64, "total_microseconds": Int64,
    }

    def __init__(self, e):
        self.e = e

    def __getattr__(self, name):
        if name not in self._RET:
            raise Unsupported(f"polars model: dt.{name}")

        def m(*a, **k):
            f = z3.Function(f"dt_{name}", INT, INT)
            return self.e._mk(N.lift(lambda x: f(x), self.e.nv), f"dt.{name}", pltype=self._RET[name])

        return m


# ---------------------------------------------------------------------------------
# module level functions

ENV: dict = {}  # physical column name -> PlExpr  (set by the obligation)
RANK_APPS: list = []


def rank_facts():
    """order facts of the dense rank instantiated for all recorded applications (pairwise)"""
    facts = []
    for m, k, r in RANK_APPS:
        facts.append(z3.Implies(z3.Not(k.null), z3.And(r >= 1, r <= G_ROWS)))
    for m1, k1, r1 in RANK_APPS:
        for m2, k2, r2 in RANK_APPS:
            if m1 == m2 == "dense" and k1.sort == k2.sort and r1.get_id() != r2.get_id():
                facts.append(z3.Implies(z3.And(z3.Not(k1.null), z3.Not(k2.null)), N.lt_t(k1.val, k2.val) == (r1 < r2)))
    return facts


STRUCT_MODE = False  # table-level obligations: pl.col(name) is a symbolic reference resolved by lfmodel


def col(name, *more):
    if more:
        raise Unsupported("pl.col with several names")
    if isinstance(name, Sym):
        raise Unsupported("pl.col(symbolic name)")
    if STRUCT_MODE:
        return PlExpr(NV(z3.FreshConst(BOOL, "cn"), z3.FreshConst(INT, "cv")), "row", ("col", name))
    if name not in ENV:
        raise KeyError(f"polars model: no column {name!r} in the frame")
    return ENV[name]


def lit(value, dtype=None, allow_object=False):
    s = sort_of_pltype(dtype) if dtype is not None else None
    n = _to_nv(value, s)
    if isinstance(n, UntypedNull):
        n = N.null_of(INT)
    elif s is not None and n.sort != s:
        if n.sort == INT and s == REAL:
            n = N.to_real(n)
    return PlExpr(n, "agg" if False else "row", ("lit", _node_of(value)), dtype)


class _Then(PlExpr):
    """result of when(..).then(..) chains; the value so far has `otherwise null`"""

    def __init__(self, branches):
        self.branches = branches  # list[(cond PlExpr, value)]
        nvv = self._compute(None)
        kinds = [c.kind for c, _ in branches] + [v.kind for _, v in branches if isinstance(v, PlExpr)]
        kind = "window" if "window" in kinds else ("agg" if "agg" in kinds and all(k == "agg" for k in kinds) else ("agg" if "agg" in kinds else "row"))
        super().__init__(nvv, kind, ("case", tuple((c.node, _node_of(v)) for c, v in branches)), None)

    def _compute(self, otherwise):
        sort = None
        for _, v in self.branches:
            n = _to_nv(v)
            if not isinstance(n, UntypedNull):
                sort = n.sort if sort is None or sort == n.sort else REAL
        if otherwise is not None:
            n = _to_nv(otherwise)
            if not isinstance(n, UntypedNull):
                sort = n.sort if sort is None or sort == n.sort else REAL
        if sort is None:
            sort = INT
        _ax("polars: when(c).then(a)...otherwise(b) takes the first branch whose condition is true (a null condition is not true); without otherwise the result is null")
        acc = N.null_of(sort) if otherwise is None else self._coerce(_to_nv(otherwise, sort), sort)
        for c, v in reversed(self.branches):
            acc = N.ite(N.is_true(c.nv), self._coerce(_to_nv(v, sort), sort), acc)
        return acc

    @staticmethod
    def _coerce(n, sort):
        if isinstance(n, UntypedNull):
            return N.null_of(sort)
        if n.sort != sort and sort == REAL:
            return N.to_real(n)
        return n

    def when(self, *conds):
        return _When(self.branches, _conj(conds))

    def otherwise(self, value):
        r = PlExpr(self._compute(value), self.kind, ("case", self.node[1], _node_of(value)), None)
        if isinstance(value, PlExpr) and value.kind == "agg" and self.kind == "row":
            r.kind = "agg"
        if isinstance(value, PlExpr) and value.kind == "window":
            r.kind = "window"
        return r


class _When:
    def __init__(self, branches, cond):
        self.branches = branches
        self.cond = cond

    def then(self, value):
        return _Then(self.branches + [(self.cond, value)])


def _conj(conds):
    cs = []
    for c in conds:
        if isinstance(c, PlExpr):
            cs.append(c)
        elif isinstance(c, Sym) or isinstance(c, bool):
            cs.append(lit(c))
        else:
            cs.extend(list(c))
    acc = cs[0]
    for c in cs[1:]:
        acc = acc & c
    return acc


def when(*conds):
    return _When([], _conj(conds))


def _flatten(args):
    out = []
    for a in args:
        if isinstance(a, PlExpr):
            out.append(a)
        elif isinstance(a, (list, tuple)) or hasattr(a, "__next__"):
            out.extend(_flatten(list(a)))
        else:
            out.append(lit(a))
    return out


def _fold(args, f, name):
    xs = _flatten(args)
    if not xs:
        raise Unsupported(f"{name} of nothing")
    acc = xs[0].nv
    for x in xs[1:]:
        acc = f(acc, x.nv)
    k = "window" if any(x.kind == "window" for x in xs) else ("agg" if all(x.kind == "agg" for x in xs) else "row")
    return PlExpr(acc, k, (name, *[x.node for x in xs]), xs[0].pltype)


def any_horizontal(*exprs):
    _ax("polars: any_horizontal is the Kleene OR of its arguments")
    return _fold(exprs, N.k_or, "any_horizontal")


def all_horizontal(*exprs):
    _ax("polars: all_horizontal is the Kleene AND of its arguments")
    return _fold(exprs, N.k_and, "all_horizontal")


def max_horizontal(*exprs):
    _ax("polars: max_horizontal/min_horizontal skip nulls and are null iff all arguments are null")
    return _fold(exprs, N.nmax, "max_horizontal")


def min_horizontal(*exprs):
    _ax("polars: max_horizontal/min_horizontal skip nulls and are null iff all arguments are null")
    return _fold(exprs, N.nmin, "min_horizontal")


def coalesce(*exprs):
    _ax("polars: coalesce returns the first non-null argument")
    return _fold(exprs, N.coalesce2, "coalesce")


class _PlList:
    def __init__(self, items):
        self.items = items


def concat_list(*exprs):
    return _PlList(_flatten(exprs))


def sum_horizontal(*exprs):
    raise Unsupported("pl.sum_horizontal")


def len():  # noqa: A001
    _ax("polars: pl.len() = number of rows of the group/frame (never null)")
    return PlExpr(NV(False, G_ROWS), "agg", ("len",), UInt32)


def count(*a):
    return len()


def struct(*exprs, **kw):
    xs = _flatten(exprs)
    return PlExpr(NV(False, z3.FreshConst(INT)), "window" if any(x.kind == "window" for x in xs) else "row", ("struct", *[x.node for x in xs]), Struct)


def int_range(start=0, end=None, step=1, *, dtype=Int64, eager=False):
    if end is None:
        start, end = 0, start
    return PlExpr(NV(False, z3.FreshConst(INT)), "window", ("int_range", _node_of(start), _node_of(end), str(dtype)), dtype)


class _Selected:
    def __init__(self, v):
        self.v = v

    def item(self):
        v = self.v
        if isinstance(v, PlExpr):
            if v.node[0] != "lit":
                raise Unsupported("pl.select(non-literal).item()")
            n = v.nv
            _ax("polars: pl.select(lit(v)).item() == v")
            if z3.is_true(z3.simplify(n.null)):
                return None
            from .core import wrap

            t = z3.simplify(n.val)
            if z3.is_int_value(t):
                return t.as_long()
            if z3.is_true(t):
                return True
            if z3.is_false(t):
                return False
            if z3.is_string_value(t):
                return t.as_string()
            return wrap(n.val)
        return v


def select(*exprs, **kw):
    if builtins_len(exprs) != 1:
        raise Unsupported("pl.select with several expressions")
    return _Selected(exprs[0])


import builtins as _b  # noqa: E402

builtins_len = _b.len


def __getattr__(name):
    if name.startswith("__"):
        raise AttributeError(name)
    if name in ("LazyFrame", "union", "concat"):
        from . import lfmodel

        return {"LazyFrame": lfmodel.LF, "union": lfmodel.union, "concat": lfmodel.concat}[name]
    raise Unsupported(f"polars model: pl.{name}")
