"""Stand-in DBAPI modules so that SQLAlchemy engines for PostgreSQL and SQL Server can be *constructed*
offline (no driver is installed, nothing can be fetched).  They never connect; the dialect objects and
their SQL compilers - which is what the obligations exercise - are the real SQLAlchemy ones."""

import sys
import types


def _fake(name, **attrs):
    if name in sys.modules:
        return sys.modules[name]
    m = types.ModuleType(name)
    m.__dict__.update(attrs)
    sys.modules[name] = m
    return m


class _Err(Exception):
    pass


def _noconnect(*a, **k):
    raise RuntimeError("no database in this sandbox (fake driver)")


def install():
    ext = _fake("psycopg2.extensions", ISOLATION_LEVEL_AUTOCOMMIT=0, ISOLATION_LEVEL_READ_COMMITTED=1, ISOLATION_LEVEL_REPEATABLE_READ=2, ISOLATION_LEVEL_SERIALIZABLE=3, ISOLATION_LEVEL_READ_UNCOMMITTED=4)
    extras = _fake("psycopg2.extras")
    _fake("psycopg2", paramstyle="pyformat", __version__="2.9.9 (fake)", apilevel="2.0", threadsafety=2, Error=_Err, extensions=ext, extras=extras, connect=_noconnect)
    _fake(
        "pyodbc", paramstyle="qmark", version="5.0.0", apilevel="2.0", threadsafety=1, Error=_Err, connect=_noconnect, Cursor=type("Cursor", (), {}), Connection=type("Connection", (), {}),
        SQL_DRIVER_NAME=6, SQL_DRIVER_VER=7, SQL_WVARCHAR=-9, SQL_VARCHAR=12, SQL_WLONGVARCHAR=-10, SQL_DECIMAL=3, SQL_CHAR=1, SQL_WCHAR=-8, SQL_WMETADATA=-99, SQL_TYPE_TIMESTAMP=93,
    )


def engines():
    import sqlalchemy as sqa

    install()
    return {
        "sqlite": sqa.create_engine("sqlite://"),
        "postgres": sqa.create_engine("postgresql+psycopg2://u@h/d"),
        "mssql": sqa.create_engine("mssql+pyodbc://u@h/d?driver=x"),
    }
