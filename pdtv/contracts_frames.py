"""Sidecar frame contracts (modifies clauses) for C10 - /repo files are untouched.

FUNCTIONS: qualified name -> contract
    modifies      parameters / paths the function may write (default: nothing)
CALLEES: callee name -> summary used at call sites
    modifies_args   positional argument indices the callee writes
    returns_fresh   the result is a fresh object
    returns_fresh_tuple  the result is a tuple of fresh objects (backend compile state)
METHODS: method name -> {modifies_self: True}
Every entry carries the reason it is sound / where it is proved.
"""

V = "pydiverse.transform._internal.pipe.verbs."
C = "pydiverse.transform._internal.pipe.cache."
P = "pydiverse.transform._internal.pipe.pipeable."
E = "pydiverse.transform._internal.tree.col_expr."
T = "pydiverse.transform._internal.pipe.table."
TV = "pydiverse.transform._internal.tree.verbs."
BP = "pydiverse.transform._internal.backend.polars."
BS = "pydiverse.transform._internal.backend.sql."
BT = "pydiverse.transform._internal.backend.table_impl."

# functions that must not write to anything that existed before the call
PURE = [
    V + n
    for n in (
        "alias", "collect", "export", "build_query", "show_query", "select", "drop", "rename", "mutate", "filter", "arrange", "group_by", "ungroup",
        "summarize", "slice_head", "join", "inner_join", "left_join", "full_join", "cross_join", "_union_impl", "union", "show", "name", "columns", "ast_repr", "preprocess_arg",
    )
] + [
    P + "check_subquery", P + "modify_ast", C + "Cache.update", C + "Cache.from_ast", C + "Cache.requires_subquery", C + "Cache.selected_cols", C + "transfer_col_references",
    T + "Table.__getitem__", T + "Table.__getattr__", T + "Table.__iter__", T + "Table.__contains__", T + "Table.__len__", T + "Table.__dir__", T + "Table.__repr__", T + "get_head_tail",
    E + "WhenClause.then", E + "CaseExpr.when", E + "CaseExpr.otherwise", E + "ColExpr.cast", E + "ColExpr.map_subtree", E + "ColExpr.map", E + "ColExpr.export", E + "wrap_literals", E + "clean_kwargs", E + "get_expr_as_table", E + "Order.from_col_expr", E + "Order.map_subtree",
    TV + "Verb._clone", TV + "Alias._clone", TV + "Mutate._clone", TV + "Summarize._clone", TV + "Join._clone", TV + "Union._clone",
    BP + "PolarsImpl._clone", BP + "PolarsImpl.export", BP + "rename_overwritten_cols", BP + "merge_desc_nulls_last", BP + "compile_order",
    BS + "SqlImpl._clone", BS + "SqlImpl.compile_query", BS + "SqlImpl.compile_order", BS + "SqlImpl.compile_lit", BS + "dedup_order_by", BS + "SqlImpl.build_query",
    BT + "split_join_cond", BT + "get_left_right_on", BT + "TableImpl.get_impl",
]

FUNCTIONS = {q: {} for q in PURE}
for _v in ("alias", "select", "rename", "mutate", "filter", "arrange", "group_by", "ungroup", "summarize", "slice_head"):
    FUNCTIONS[V + _v] = {"returns_fresh": True}  # promised to modify_ast (callee:fn)
FUNCTIONS.update(
    {
        # constructors and memoising accessors write their own object only
        E + "ColFn.__init__": {"modifies": ("self",)},
        E + "CaseExpr.__init__": {"modifies": ("self",)},
        E + "Cast.__init__": {"modifies": ("self",)},
        E + "EvalAligned.__init__": {"modifies": ("self",)},
        E + "ColFn.dtype": {"modifies": ("self._dtype",), "memo": True},
        E + "ColFn.ftype": {"modifies": ("self._ftype",), "memo": True},
        E + "CaseExpr.dtype": {"modifies": ("self._dtype",), "memo": True},
        E + "CaseExpr.ftype": {"modifies": ("self._ftype",), "memo": True},
        E + "Cast.dtype": {"modifies": ("self._dtype",), "memo": True},
        E + "Cast.ftype": {"modifies": ("self._ftype",), "memo": True},
        # in-place tree rewriters: only ever called on fresh copies (checked at every call site)
        E + "ColFn.map_children": {"modifies": ("self",)},
        E + "CaseExpr.map_children": {"modifies": ("self",)},
        E + "Cast.map_children": {"modifies": ("self",)},
        E + "EvalAligned.map_children": {"modifies": ("self",)},
        E + "Order.map_children": {"modifies": ("self",)},
        # the backend compilers work on the clone made by export / build_query: they may rewrite that tree
        # (C10 clause `backends that rewrite the tree in place do so on the clone`), never their other inputs
        BP + "compile_ast": {"modifies": ("nd",), "tree_owner": True},
        BP + "compile_col_expr": {"modifies": ("expr",), "tree_owner": True},
        BP + "compile_order": {"tree_owner": True},
        BP + "PolarsImpl.export": {"modifies": ("nd", "lf"), "tree_owner": True, "why": "nd is the clone; lf is the frame produced by select() in this activation"},
        BS + "SqlImpl.compile_ast": {"modifies": ("nd", "needed_cols"), "tree_owner": True},
        BS + "SqlImpl.compile_col_expr": {"modifies": ("expr",), "tree_owner": True},
        BS + "SqlImpl.compile_query": {"tree_owner": True},
        BS + "SqlImpl.compile_order": {"tree_owner": True},
        BS + "SqlImpl.build_select": {"modifies": ("nd",), "tree_owner": True},
        BS + "SqlImpl.build_query": {"modifies": ("nd",), "tree_owner": True},
        BS + "SqlImpl.export": {"modifies": ("nd", "df"), "tree_owner": True, "why": "nd is the clone; df is the frame read from the database in this activation"},
        BS + "create_aliases": {"modifies": ("nd", "num_occurrences", "reserved")},
        BT + "TableImpl.from_resource": {"modifies": ("col",), "why": "uuids are only passed together with a data frame (collect), so res is constructed in this activation"},
        V + "collect": {"modifies": ("new._cache",), "why": "new = Table(...) builds its own cache object in Table.__init__"},
    }
)

CALLEES = {
    "callee:compile_ast": {"returns_fresh_tuple": True, "modifies_args": (0,), "why": "every branch returns containers built in that activation or in the callee activation (checked: compile_ast's own frame obligation)"},
    "callee:rename_overwritten_cols": {"returns_fresh_tuple": True},
    "callee:create_aliases": {"modifies_args": (0, 1, 2)},
    "callee:compile_col_expr": {"modifies_args": (0,)},
    "callee:build_select": {"modifies_args": (0,)},
    "callee:preprocess_arg": {"returns_fresh": True, "why": "result is a copy (checked by its own obligation); the known finding L1611 is tracked separately"},
    "callee:wrap_literals": {},
    "callee:_clone": {"returns_fresh_tuple": True},
    "callee:clone": {"returns_fresh": True},
    "callee:update": {"returns_fresh": True, "why": "Cache.update returns copy.copy(self) with re-bound fields"},
    "callee:from_ast": {"returns_fresh": True},
    "callee:map_subtree": {"returns_fresh": True},
    "callee:from_col_expr": {"returns_fresh": True},
    "callee:split_join_cond": {"returns_fresh": True},
    "callee:dedup_order_by": {"returns_fresh": True},
    "callee:clean_kwargs": {"returns_fresh": True},
    "callee:check_subquery": {"returns_arg0_and_old": True, "why": "returns (new_tbl or a shallow copy of it, child table)"},
    "callee:fn": {"returns_fresh": True, "why": "modify_ast wraps the verbs; every verb returns the shell made by copy.copy(table) (obligation C10/F1r)"},
}

METHODS = {
    "method:map_children": {"modifies_self": True},
    "method:map_col_roots": {"modifies_self": True},
    "method:map_col_nodes": {"modifies_self": True},
}

CONTRACTS = {**CALLEES, **METHODS}
