"""Table of record for C03: the documented, null-aware meaning of every element-wise
operator, written from the property statement and the operator docstrings in
/repo/src/.../ops/ops/*.py (NOT from the implementations).

SPEC[name](args: list[NV], lits) -> NV     (name = attribute name in the ops module)
Each entry carries the sentence of the documentation it transcribes.
"""

from __future__ import annotations

import functools

import z3

from .. import nv as N
from ..nv import BOOL, INT, NV, REAL, STR

SPEC = {}
DOC = {}


def spec(name, doc):
    def reg(f):
        SPEC[name] = f
        DOC[name] = doc
        return f

    return reg


def _prop(f):
    """arithmetic and comparisons propagate null"""
    return lambda a, b: N.lift_num(f, a, b)


PROP = "property C03: arithmetic and comparisons propagate null"

spec("add", PROP)(lambda a, b: N.lift(lambda x, y: z3.Concat(x, y), a, b) if a.sort == STR else N.lift_num(lambda x, y: x + y, a, b))
spec("sub", PROP)(_prop(lambda x, y: x - y))
spec("mul", PROP)(_prop(lambda x, y: x * y))
spec("truediv", PROP + "; `/` is true division with Float result")(lambda a, b: N.lift(lambda x, y: x / y, N.to_real(a), N.to_real(b)))
spec("floordiv", "docstring of __floordiv__: always rounds towards zero, regardless of the sign")(_prop(N.trunc_div))
spec("mod", "docstring of __mod__: the output has the same sign as the left hand side")(_prop(N.trunc_mod))
spec("pow", PROP + "; x ** y with Float result")(lambda a, b: N.lift(lambda x, y: N.POW(x, y), N.to_real(a), N.to_real(b)))
spec("neg", PROP)(lambda a: N.lift(lambda x: -x, a))
spec("pos", PROP)(lambda a: a)
spec("abs", PROP + "; absolute value")(lambda a: N.lift(N.abs_t, a))

spec("equal", PROP)(_prop(lambda x, y: x == y))
spec("not_equal", PROP)(_prop(lambda x, y: x != y))
spec("less_than", PROP)(_prop(N.lt_t))
spec("less_equal", PROP)(_prop(N.le_t))
spec("greater_than", PROP)(_prop(lambda x, y: N.lt_t(y, x)))
spec("greater_equal", PROP)(_prop(lambda x, y: N.le_t(y, x)))

KLEENE = "property C03: booleans follow three-valued (Kleene) logic"
spec("bool_and", KLEENE)(N.k_and)
spec("bool_or", KLEENE)(N.k_or)
spec("bool_xor", KLEENE + " (xor is null iff an operand is null)")(lambda a, b: N.lift(lambda x, y: z3.Xor(x, y), a, b))
spec("bool_invert", KLEENE)(N.k_not)

spec("is_null", "docstring: indicates whether the value is null")(lambda a: NV(False, a.null))
spec("is_not_null", "docstring")(lambda a: NV(False, z3.Not(a.null)))
spec("fill_null", "docstring: replaces every null by the given value")(N.coalesce2)


@spec("is_in", "docstring: t.c.is_in(a1, a2, ...) is equivalent to (t.c == a1) | (t.c == a2) | ... ; empty list gives false")
def _is_in(x, *vals):
    acc = NV(False, z3.BoolVal(False))
    for v in vals:
        acc = N.k_or(acc, N.lift_num(lambda p, q: p == q, x, v))
    return acc


spec("coalesce", "docstring: returns the first non-null value among the given")(lambda *xs: functools.reduce(N.coalesce2, xs))
spec("horizontal_max", "property C03: horizontal min/max skip nulls")(lambda *xs: functools.reduce(N.nmax, xs))
spec("horizontal_min", "property C03: horizontal min/max skip nulls")(lambda *xs: functools.reduce(N.nmin, xs))
spec("horizontal_sum", PROP + " (sum of the arguments)")(
    lambda *xs: functools.reduce(lambda a, b: N.lift(lambda p, q: z3.Concat(p, q), a, b) if a.sort == STR else N.lift_num(lambda p, q: p + q, a, b), xs)
)
spec("horizontal_any", KLEENE)(lambda *xs: functools.reduce(N.k_or, xs))
spec("horizontal_all", KLEENE)(lambda *xs: functools.reduce(N.k_and, xs))


@spec("clip", "docstring: if the input is not null, equivalent to pdt.max(pdt.min(self, upper_bound), lower_bound) (null-skipping max/min); null input stays null")
def _clip(x, lo, hi):
    r = N.nmax(N.nmin(x, hi), lo)
    return NV(x.null, r.val)


@spec("round", "docstring: rounds to a given number of decimals (rounding function round_to, ties excluded); negative decimals round to tens, hundreds, ...")
def _round(x, d):
    from ..core import IPOW

    p = z3.ToReal(IPOW(z3.IntVal(10), -d.val))
    xr = N.to_real(x).val
    neg = N.ROUND(xr / p, z3.IntVal(0)) * p
    pos = z3.ToReal(N.ROUND_INT(x.val, d.val)) if x.sort == INT else N.ROUND(x.val, d.val)
    return NV(z3.Or(x.null, d.null), z3.If(d.val >= 0, pos, neg))


spec("floor", "docstring: the largest integer less than or equal to the input")(lambda a: N.lift(N.floor_real, N.to_real(a)))
spec("ceil", "docstring: the smallest integer greater than or equal to the input")(lambda a: N.lift(N.ceil_real, N.to_real(a)))

spec("cbrt", PROP + "; the real cube root, cbrt(x) = sign(x) * |x| ** (1/3)")(lambda a: N.lift(N.cbrt_def, N.to_real(a)))
for _n in ("exp", "log", "log10", "sin", "cos", "tan", "asin", "acos", "atan", "sqrt"):
    spec(_n, PROP + f"; the real function {_n}")((lambda n: lambda a: N.lift(lambda x: N.UNARY_REAL[n](x), N.to_real(a)))(_n))

FINITE = "value domain (DESIGN §4): floats are finite, non-NaN reals"
spec("is_inf", FINITE)(lambda a: N.lift(lambda x: z3.BoolVal(False), a))
spec("is_not_inf", FINITE)(lambda a: N.lift(lambda x: z3.BoolVal(True), a))
spec("is_nan", FINITE)(lambda a: N.lift(lambda x: z3.BoolVal(False), a))
spec("is_not_nan", FINITE)(lambda a: N.lift(lambda x: z3.BoolVal(True), a))


def case_spec(branches, default):
    """property C03: a case expression takes its first true branch and null without a match"""
    sort = next((v.sort for _, v in branches), None)
    acc = default if default is not None else N.null_of(sort)
    for c, v in reversed(branches):
        acc = N.ite(N.is_true(c), v, acc)
    return acc
