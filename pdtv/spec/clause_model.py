"""Placement oracle `fits` for C08 (DESIGN §3.4): may verb V be folded into the SELECT that has been
accumulated in abstract state s WITHOUT changing the meaning?

Derived from the SQL evaluation order
    FROM/JOIN -> WHERE -> GROUP BY + aggregates -> HAVING -> window functions / select list -> ORDER BY -> LIMIT/OFFSET
and the commutation facts noted per rule.  The state s is what the accumulated SELECT already
contains: a LIMIT, an aggregation (grouped or not), WHERE/HAVING predicates, an ORDER BY, columns
defined by window functions, and the current grouping (pending group_by).

Each rule returns (ok: bool, why: str).  This is OUR oracle: a disagreement with the code is only
called a finding after it has been replayed on Polars vs SQLite (props/c08.py).
"""

from __future__ import annotations

import dataclasses


@dataclasses.dataclass(frozen=True)
class S:
    limit: bool  # LIMIT present
    agg: str  # 'none' | 'grouped' | 'ungrouped'   (a summarize has been folded in)
    filtered: bool  # WHERE / HAVING present
    ordered: bool  # ORDER BY present
    k1: str  # kind of column c1: 'ew' | 'win' | 'agg'
    grouped_now: bool  # a group_by is pending (partition_by non-empty)
    c1_hidden: bool = False  # column c1 is no longer selected (still referable through an earlier table object)

    @property
    def has_window(self):
        return self.k1 == "win"


def fits(verb: str, s: S, refs_k1: bool = False, fn: str = "ew", side: str = "left", how: str = "inner"):
    """verb: filter | mutate | summarize | arrange | slice_head | group_by | ungroup | select | rename | alias | join | union
    refs_k1: the verb's expressions reference column c1; fn: ew | window | aggwin (kind of function a mutate applies)"""
    if verb in ("select", "rename", "ungroup", "alias", "slice_head"):
        return True, "only changes the select list / labels / LIMIT window composition"
    if verb == "group_by":
        return True, "grouping state only; later verbs are judged on their own"
    if verb == "filter":
        if s.limit:
            return False, "a filter after LIMIT must see only the limited rows; WHERE is evaluated before LIMIT"
        if s.has_window:
            return False, "WHERE/HAVING are evaluated before window functions: the window column would be computed on the filtered rows"
        if s.agg == "ungrouped":
            return False, "after an ungrouped summarize the only rows are aggregates: the predicate would land in WHERE (before aggregation) or reference an aggregate there"
        if s.agg == "grouped":
            return True, "goes to HAVING, evaluated on the aggregated rows"
        return True, "goes to WHERE; commutes with the row-wise select list and with ORDER BY"
    if verb == "mutate":
        if fn == "ew":
            return True, "row-wise expression over the select list (inlined); commutes with everything later"
        if s.limit:
            return False, "a window / aggregate-as-window function must see only the limited rows; window functions are evaluated before LIMIT"
        if refs_k1 and s.k1 in ("win", "agg"):
            return False, "a window function over a window / aggregate expression cannot be nested in one SELECT"
        return True, "window functions are evaluated after WHERE / GROUP BY / HAVING, i.e. on the rows the table holds"
    if verb == "arrange":
        if s.limit:
            return False, "ORDER BY is applied before LIMIT: re-ordering after the limit would change the selected rows"
        return True, "ORDER BY keys are prepended"
    if verb == "summarize":
        if s.limit:
            return False, "aggregation is evaluated before LIMIT"
        if s.agg != "none":
            return False, "a second aggregation cannot be nested in one SELECT"
        if refs_k1 and s.k1 in ("win", "agg"):
            return False, "an aggregate over a window / aggregate expression cannot be nested in one SELECT"
        if s.has_window and s.grouped_now and False:
            return False, ""
        return True, "GROUP BY over the (filtered) rows"
    if verb in ("join", "union"):
        if s.limit:
            return False, "the operand's LIMIT would apply to the joined / unioned rows"
        if s.agg != "none":
            return False, "an aggregated operand needs its own SELECT"
        if s.has_window:
            return False, "window columns of an operand would be evaluated on the joined rows"
        if verb == "join" and how == "full" and s.filtered:
            return False, "a WHERE of an operand of a FULL JOIN cannot be merged"
        if verb == "join" and how == "left" and side == "left" and s.filtered and False:
            return False, ""
        if verb == "union" and s.ordered:
            return False, "ORDER BY inside a compound-select operand is not allowed / has no meaning"
        if verb == "union" and s.filtered and False:
            return False, ""
        return True, "operand is a plain (filtered) selection"
    raise KeyError(verb)
