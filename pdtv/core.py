"""Symbolic values, path exploration and the solver facade.

Execution model ("native mode"): the real function objects of /repo are *called* with
proxy values (Sym*) that wrap z3 terms.  Whenever Python needs the truth value of a
symbolic boolean (``if``, ``and``, ``min``, ``in`` ...) ``SymBool.__bool__`` asks the
active PathCtx, which explores *both* outcomes when both are feasible under the
current path condition (exploration by re-execution with a decision prefix, so no
heap snapshot is needed).  A loop-free function is thereby covered for all values
of its symbolic inputs; every path ends in a verification condition
``pc and not post`` that must be unsat.
"""

from __future__ import annotations

import itertools
import subprocess
import tempfile
import time

import z3

# ----------------------------------------------------------------------------------
# exceptions of the tool (BaseException: real code's ``except Exception`` must not
# swallow them)


class Unsupported(BaseException):
    """construct outside the supported subset -> obligation UNDECIDED"""


class PathAbort(BaseException):
    """path condition infeasible"""


class TooManyPaths(BaseException):
    pass


# ----------------------------------------------------------------------------------
# solver facade

SOLVER_TIMEOUT_MS = 20000
STATS = {"queries": 0, "time": 0.0, "cvc5": 0, "z3_unknown": 0}


def _cvc5_check(assertions, timeout_s=30):
    s = z3.Solver()
    s.add(*assertions)
    smt = s.to_smt2()
    smt = "(set-logic ALL)\n" + smt
    with tempfile.NamedTemporaryFile("w", suffix=".smt2", delete=True) as f:
        f.write(smt)
        f.flush()
        try:
            out = subprocess.run(
                ["/usr/bin/cvc5", "--strings-exp", f"--tlimit={int(timeout_s * 1000)}", f.name],
                capture_output=True,
                text=True,
                timeout=timeout_s + 5,
            ).stdout.strip()
        except Exception:
            return "unknown"
    if out.startswith("unsat"):
        return "unsat"
    if out.startswith("sat"):
        return "sat"
    return "unknown"


def check(assertions, timeout_ms=None, want_model=False, use_cvc5=True):
    """returns (verdict, model|None, backend) ; verdict in sat/unsat/unknown"""
    t0 = time.time()
    s = z3.Solver()
    s.set("timeout", timeout_ms or SOLVER_TIMEOUT_MS)
    s.add(*assertions)
    r = s.check()
    STATS["queries"] += 1
    backend = "z3"
    verdict = str(r)
    model = None
    if r == z3.sat and want_model:
        model = s.model()
    if r == z3.unknown:
        STATS["z3_unknown"] += 1
        if use_cvc5:
            v = _cvc5_check(assertions)
            STATS["cvc5"] += 1
            if v != "unknown":
                verdict, backend = v, "cvc5"
                if v == "sat" and want_model:
                    # try z3 once more with a different tactic for a model
                    s2 = z3.Solver()
                    s2.set("timeout", 4 * (timeout_ms or SOLVER_TIMEOUT_MS))
                    s2.set("smt.random_seed", 7)
                    s2.add(*assertions)
                    if s2.check() == z3.sat:
                        model = s2.model()
    STATS["time"] += time.time() - t0
    return verdict, model, backend


# ----------------------------------------------------------------------------------
# path context

_CTX: "PathCtx | None" = None


def ctx() -> "PathCtx":
    if _CTX is None:
        raise Unsupported("symbolic branch outside an exploration")
    return _CTX


class PathCtx:
    def __init__(self, prefix, base_pc):
        self.prefix = prefix  # list[(choice, term_id)]
        self.decisions = []  # list[(choice, term_id, term)]
        self.pc = list(base_pc)
        self.pending = []
        self.counter = itertools.count()
        self.notes = []  # free-form trace notes from models

    def fresh(self, name, sort):
        return z3.Const(f"{name}!{next(self.counter)}", sort)

    def assume(self, term):
        self.pc.append(term)

    def feasible(self, term):
        v, _, _ = check(self.pc + [term], timeout_ms=5000, use_cvc5=False)
        return v != "unsat"

    def decide(self, term) -> bool:
        t = z3.simplify(term)
        if z3.is_true(t):
            return True
        if z3.is_false(t):
            return False
        i = len(self.decisions)
        tid = t.get_id()
        if i < len(self.prefix):
            c, ptid, _keep = self.prefix[i]
            if ptid != tid:
                raise Unsupported("non-deterministic re-execution (branch term changed between runs)")
        else:
            can_t = self.feasible(t)
            can_f = self.feasible(z3.Not(t))
            if can_t and can_f:
                c = True
                self.pending.append([(d[0], d[1], d[2]) for d in self.decisions] + [(False, tid, t)])
            elif can_t:
                c = True
            elif can_f:
                c = False
            else:
                raise PathAbort()
        self.decisions.append((c, tid, t))
        self.pc.append(t if c else z3.Not(t))
        return c


class Path:
    __slots__ = ("pc", "kind", "value", "decisions", "notes")

    def __init__(self, pc, kind, value, decisions, notes):
        self.pc, self.kind, self.value, self.decisions, self.notes = pc, kind, value, decisions, notes

    def __repr__(self):
        return f"Path({self.kind}, {self.value!r}, |pc|={len(self.pc)})"


def explore(fn, base_pc=(), max_paths=4000, catch=(Exception,)):
    """Run ``fn()`` on every feasible path. ``fn`` must create its mutable inputs itself
    (it is re-executed once per path).  Exceptions of the classes in ``catch`` raised
    by the code under analysis end a path with kind 'exc'."""
    global _CTX
    work = [[]]
    paths = []
    while work:
        prefix = work.pop()
        c = PathCtx(prefix, base_pc)
        saved = _CTX
        _CTX = c
        try:
            try:
                val = fn()
                kind = "ret"
            except PathAbort:
                continue
            except (Unsupported, TooManyPaths):
                raise
            except catch as e:  # noqa: BLE001
                val, kind = e, "exc"
        finally:
            _CTX = saved
        work.extend(c.pending)
        paths.append(Path(c.pc, kind, val, [d[0] for d in c.decisions], c.notes))
        if len(paths) + len(work) > max_paths:
            raise TooManyPaths(f"more than {max_paths} paths")
    return paths


# ----------------------------------------------------------------------------------
# symbolic scalars


def _is_num(x):
    return isinstance(x, (int, float)) and not isinstance(x, bool)


class Sym:
    __slots__ = ("t",)
    __hash__ = None  # never usable as dict/set key: avoids silently wrong hashing

    def __init__(self, t):
        self.t = t

    def __repr__(self):
        return f"<{type(self).__name__} {self.t}>"

    def __copy__(self):
        return self

    def __deepcopy__(self, memo):
        return self

    def __iter__(self):
        raise Unsupported(f"iteration over symbolic scalar {self!r}")


def term(x, sort=None):
    """z3 term of a python / Sym value"""
    if isinstance(x, Sym):
        t = x.t
        if sort is not None and t.sort() != sort:
            if sort == z3.RealSort() and t.sort() == z3.IntSort():
                return z3.ToReal(t)
            raise Unsupported(f"sort mismatch {t.sort()} vs {sort}")
        return t
    if isinstance(x, bool):
        return z3.BoolVal(x)
    if isinstance(x, int):
        return z3.RealVal(x) if sort == z3.RealSort() else z3.IntVal(x)
    if isinstance(x, float):
        if x != x or x in (float("inf"), float("-inf")):
            raise Unsupported("non-finite float constant")
        return z3.RealVal(repr(x))
    if isinstance(x, str):
        return z3.StringVal(x)
    if z3.is_expr(x):
        return x
    raise Unsupported(f"no z3 term for {type(x).__name__}")


def wrap(t):
    s = t.sort()
    if s == z3.BoolSort():
        return SymBool(t)
    if s == z3.IntSort():
        return SymInt(t)
    if s == z3.RealSort():
        return SymReal(t)
    if s == z3.StringSort():
        return SymStr(t)
    return SymVal(t)


class SymBool(Sym):
    __slots__ = ()

    def __bool__(self):
        return ctx().decide(self.t)

    def __and__(self, o):
        if isinstance(o, (bool, SymBool)):
            return SymBool(z3.And(self.t, term(o)))
        return NotImplemented

    __rand__ = __and__

    def __or__(self, o):
        if isinstance(o, (bool, SymBool)):
            return SymBool(z3.Or(self.t, term(o)))
        return NotImplemented

    __ror__ = __or__

    def __xor__(self, o):
        if isinstance(o, (bool, SymBool)):
            return SymBool(z3.Xor(self.t, term(o)))
        return NotImplemented

    __rxor__ = __xor__

    def __invert__(self):
        return SymBool(z3.Not(self.t))

    def __eq__(self, o):
        if isinstance(o, (bool, SymBool)):
            return SymBool(self.t == term(o))
        return False

    def __ne__(self, o):
        if isinstance(o, (bool, SymBool)):
            return SymBool(self.t != term(o))
        return True

    def __int__(self):
        raise Unsupported("int(SymBool)")

    def to_int(self):
        return SymInt(z3.If(self.t, 1, 0))


def py_floordiv(a, b):
    """Python's floor division on z3 Int terms (b != 0)"""
    return z3.If(b > 0, a / b, (-a) / (-b))


def py_mod(a, b):
    return a - b * py_floordiv(a, b)


IPOW = z3.Function("ipow", z3.IntSort(), z3.IntSort(), z3.IntSort())


class _SymNum(Sym):
    __slots__ = ()

    def _co(self, o):
        """coerce (self, other) to a common numeric sort; returns (a, b, cls) or None"""
        if isinstance(o, bool) or not (isinstance(o, (_SymNum,)) or _is_num(o)):
            return None
        a = self.t
        b = term(o)
        if a.sort() == b.sort():
            return a, b, type(self) if isinstance(self, SymReal) or not isinstance(o, SymReal) else SymReal
        # mixed int / real
        if a.sort() == z3.IntSort():
            a = z3.ToReal(a)
        if b.sort() == z3.IntSort():
            b = z3.ToReal(b)
        return a, b, SymReal

    def _bin(self, o, f, swap=False):
        c = self._co(o)
        if c is None:
            return NotImplemented
        a, b, cls = c
        if swap:
            a, b = b, a
        return cls(f(a, b))

    def _cmp(self, o, f):
        c = self._co(o)
        if c is None:
            return NotImplemented
        a, b, _ = c
        return SymBool(f(a, b))

    def __add__(self, o):
        return self._bin(o, lambda a, b: a + b)

    def __radd__(self, o):
        return self._bin(o, lambda a, b: a + b, True)

    def __sub__(self, o):
        return self._bin(o, lambda a, b: a - b)

    def __rsub__(self, o):
        return self._bin(o, lambda a, b: a - b, True)

    def __mul__(self, o):
        return self._bin(o, lambda a, b: a * b)

    def __rmul__(self, o):
        return self._bin(o, lambda a, b: a * b, True)

    def __neg__(self):
        return type(self)(-self.t)

    def __pos__(self):
        return self

    def __abs__(self):
        return type(self)(z3.If(self.t >= 0, self.t, -self.t))

    def __lt__(self, o):
        return self._cmp(o, lambda a, b: a < b)

    def __le__(self, o):
        return self._cmp(o, lambda a, b: a <= b)

    def __gt__(self, o):
        return self._cmp(o, lambda a, b: a > b)

    def __ge__(self, o):
        return self._cmp(o, lambda a, b: a >= b)

    def __eq__(self, o):
        r = self._cmp(o, lambda a, b: a == b)
        return False if r is NotImplemented else r

    def __ne__(self, o):
        r = self._cmp(o, lambda a, b: a != b)
        return True if r is NotImplemented else r

    def __bool__(self):
        return ctx().decide(self.t != 0)

    def __truediv__(self, o):
        c = self._co(o)
        if c is None:
            return NotImplemented
        a, b, _ = c
        if a.sort() == z3.IntSort():
            a, b = z3.ToReal(a), z3.ToReal(b)
        return SymReal(a / b)

    def __rtruediv__(self, o):
        c = self._co(o)
        if c is None:
            return NotImplemented
        a, b, _ = c
        if a.sort() == z3.IntSort():
            a, b = z3.ToReal(a), z3.ToReal(b)
        return SymReal(b / a)


class SymInt(_SymNum):
    __slots__ = ()

    def __floordiv__(self, o):
        if isinstance(o, (int, SymInt)) and not isinstance(o, bool):
            return SymInt(py_floordiv(self.t, term(o)))
        return NotImplemented

    def __rfloordiv__(self, o):
        if isinstance(o, int) and not isinstance(o, bool):
            return SymInt(py_floordiv(term(o), self.t))
        return NotImplemented

    def __mod__(self, o):
        if isinstance(o, (int, SymInt)) and not isinstance(o, bool):
            return SymInt(py_mod(self.t, term(o)))
        return NotImplemented

    def __rmod__(self, o):
        if isinstance(o, int) and not isinstance(o, bool):
            return SymInt(py_mod(term(o), self.t))
        return NotImplemented

    def __rpow__(self, base):
        # base ** self  (only used as 10 ** k, k >= 0): uninterpreted with positivity fact
        if isinstance(base, int) and base > 0:
            r = IPOW(z3.IntVal(base), self.t)
            ctx().assume(z3.Implies(self.t >= 0, r >= 1))
            return SymInt(r)
        return NotImplemented

    def __index__(self):
        raise Unsupported("symbolic int used as an index / range bound")

    def __int__(self):
        raise Unsupported("int(SymInt)")

    def __float__(self):
        raise Unsupported("float(SymInt)")


class SymReal(_SymNum):
    __slots__ = ()

    def __float__(self):
        raise Unsupported("float(SymReal)")


class SymStr(Sym):
    __slots__ = ()

    def __add__(self, o):
        if isinstance(o, (str, SymStr)):
            return SymStr(z3.Concat(self.t, term(o)))
        return NotImplemented

    def __radd__(self, o):
        if isinstance(o, (str, SymStr)):
            return SymStr(z3.Concat(term(o), self.t))
        return NotImplemented

    def __eq__(self, o):
        if isinstance(o, (str, SymStr)):
            return SymBool(self.t == term(o))
        return False

    def __ne__(self, o):
        if isinstance(o, (str, SymStr)):
            return SymBool(self.t != term(o))
        return True

    def __bool__(self):
        return ctx().decide(z3.Length(self.t) > 0)

    def __contains__(self, o):
        return bool(SymBool(z3.Contains(self.t, term(o))))

    def length(self):
        return SymInt(z3.Length(self.t))

    def __len__(self):
        raise Unsupported("len() of a symbolic string (use .length())")

    def startswith(self, p):
        return SymBool(z3.PrefixOf(term(p), self.t))

    def endswith(self, p):
        return SymBool(z3.SuffixOf(term(p), self.t))

    def __str__(self):
        raise Unsupported("str() of a symbolic string")

    def __format__(self, spec):
        raise Unsupported("formatting a symbolic string")


class SymVal(Sym):
    """term of an uninterpreted / datatype sort: only equality"""

    __slots__ = ()

    def __eq__(self, o):
        if isinstance(o, SymVal) and o.t.sort() == self.t.sort():
            return SymBool(self.t == o.t)
        if z3.is_expr(o) and o.sort() == self.t.sort():
            return SymBool(self.t == o)
        return False

    def __ne__(self, o):
        r = self.__eq__(o)
        return True if r is False else ~r


def sym_ite(c, a, b):
    """value-level if-then-else without forking (both values must be same kind)"""
    if isinstance(c, bool):
        return a if c else b
    ta, tb = term(a), term(b)
    if ta.sort() != tb.sort():
        if {ta.sort(), tb.sort()} == {z3.IntSort(), z3.RealSort()}:
            ta = z3.ToReal(ta) if ta.sort() == z3.IntSort() else ta
            tb = z3.ToReal(tb) if tb.sort() == z3.IntSort() else tb
        else:
            raise Unsupported("ite over different sorts")
    return wrap(z3.If(c.t, ta, tb))


def is_symbolic(x):
    return isinstance(x, Sym)


def model_value(m, t):
    """python value of term t in model m (ints, bools, reals as Fraction/str, strings)"""
    v = m.eval(t, model_completion=True)
    if z3.is_int_value(v):
        return v.as_long()
    if z3.is_true(v):
        return True
    if z3.is_false(v):
        return False
    if z3.is_rational_value(v):
        from fractions import Fraction

        return Fraction(v.numerator_as_long(), v.denominator_as_long())
    if z3.is_string_value(v):
        return v.as_string()
    return str(v)
