"""Inductive-step harness for the table-level (history-quantified) properties.

A *pre-state* is an arbitrary table of bounded width: which columns exist, which are
visible / hidden / grouping columns is enumerated concretely (skeletons); column NAMES are
symbolic strings (current/physical name and creation-time name of every column), only
constrained by the invariants that the obligations assume for the pre-state:

  M1  name_to_uuid / uuid_to_name are inverse bijections in the same order, keys(uuid_to_name) in cols
  P   physical names in the Polars frame are pairwise distinct, every in-scope uuid has one
  J   visible names/uuids/order and grouping agree between Cache and the backend state

The real verb function is applied to a real Table carrying this pre-state, then the real
Cache.update and the real backend compile_ast run on the new node with the recursive call
`compile_ast(nd.child)` answered by the pre-state (callee contract = induction hypothesis).
The obligation proves the invariants for the post-state on every path; together with the
base case (source table) this gives the invariant for all verb histories - bounded only in
the table width (number of columns), which is reported as the bound.
"""

from __future__ import annotations

import contextlib
import copy
import itertools
import uuid as _uuid

import z3

from pydiverse.common import Int64

from . import harness as H
from . import lfmodel, plmodel, sqlmodel
from .symname import SymName, distinct_facts

Cache = H.pdt._internal.pipe.cache.Cache
Table = H.pdt._internal.pipe.table.Table
verbs_tree = H.pdt._internal.tree.verbs
PolarsImpl = H.polars_backend.PolarsImpl
Ftype = H.Ftype


class Skeleton:
    """cols[i] in {'hid', 'vis', 'grp'} (grp = visible and grouping column)"""

    def __init__(self, cols):
        self.cols = tuple(cols)

    def __repr__(self):
        return "skel[" + ",".join(self.cols) + "]"

    @property
    def w(self):
        return len(self.cols)


def skeletons(max_w, min_w=1, need_hidden=None):
    for w in range(min_w, max_w + 1):
        for combo in itertools.product(("vis", "hid", "grp"), repeat=w):
            if not any(c != "hid" for c in combo):
                continue
            yield Skeleton(combo)


class _SrcNode(PolarsImpl):
    """stand-in for `node.child`: an AST node whose compilation result is the pre-state"""

    def __init__(self, name):  # noqa: super-init-not-called
        self.name = name
        self.cols = {}

    def __repr__(self):
        return f"<pre-state node {self.name}>"


class Pre:
    def __init__(self, skel: Skeleton, tag="t", backend_cls=PolarsImpl, dtypes=None, ftypes=None, limit=0, group_by=(), is_filtered=False):
        self.skel = skel
        self.tag = tag
        w = skel.w
        self.uuids = [_uuid.uuid1() for _ in range(w)]
        self.phys = [SymName(f"{tag}_n{i}") for i in range(w)]  # current (visible) / physical (hidden) name
        self.cname = [SymName(f"{tag}_m{i}") for i in range(w)]  # name the column was created with (Col.name)
        self.dtypes = dtypes or [Int64()] * w
        self.ftypes = ftypes or [Ftype.ELEMENT_WISE] * w
        self.node = _SrcNode(tag)
        self.vis = [i for i, c in enumerate(skel.cols) if c != "hid"]
        self.grp = [i for i, c in enumerate(skel.cols) if c == "grp"]
        self.facts = distinct_facts(self.phys)
        self.backend_cls = backend_cls
        self.limit, self.group_by, self.is_filtered = limit, group_by, is_filtered

    def nn(self, k):
        """a new, arbitrary column name chosen by the user in this step"""
        return SymName(k)

    # ---- Cache ---------------------------------------------------------------------
    def cols_dict(self):
        # cols is iterated in an order unrelated to the visible order
        order = list(reversed(range(self.skel.w)))
        return {self.uuids[i]: H.Col(self.cname[i], self.node, self.uuids[i], self.dtypes[i], self.ftypes[i]) for i in order}

    def cache(self):
        return Cache(
            name_to_uuid={self.phys[i]: self.uuids[i] for i in self.vis},
            uuid_to_name={self.uuids[i]: self.phys[i] for i in self.vis},
            partition_by=[self.uuids[i] for i in self.grp],
            derived_from={self.node},
            cols=self.cols_dict(),
            limit=self.limit,
            group_by=set(self.group_by),
            is_filtered=self.is_filtered,
            backend=self.backend_cls,
        )

    def table(self):
        t = Table.__new__(Table)
        t._ast = self.node
        t._cache = self.cache()
        return t

    # ---- Polars backend state --------------------------------------------------------
    def polars_state(self):
        df = lfmodel.LF({self.phys[i]: ("src", self.tag, i) for i in range(self.skel.w)})
        name_in_df = {self.uuids[i]: self.phys[i] for i in range(self.skel.w)}
        return df, name_in_df, [self.uuids[i] for i in self.vis], [self.uuids[i] for i in self.grp]

    def token(self, i):
        return ("src", self.tag, i)

    # ---- SQL backend state -------------------------------------------------------------
    def sql_names(self):
        # visible columns carry their current name as label; hidden ones an arbitrary (unconstrained) label
        return [self.phys[i] if i in self.vis else self.cname[i] for i in range(self.skel.w)]

    def sql_state(self, where=(), having=(), order_by=(), limit=None, offset=None, group_by=()):
        names = self.sql_names()
        tbl = sqlmodel.FromModel("base", self.tag)
        cols = {}
        sqa_expr = {}
        for i in range(self.skel.w):
            c = sqlmodel.SX("column", f"{self.tag}_c{i}", type_=H.sqlite_backend.SqliteImpl.sqa_type(self.dtypes[i]))
            c.table = tbl
            c.token = self.token(i)
            cols[f"{self.tag}_c{i}"] = c
            sqa_expr[self.uuids[i]] = sqlmodel.label(names[i], c)
        tbl.columns = sqlmodel._ColColl(cols)
        tbl.c = tbl.columns
        cd = self.cols_dict()
        q = H.sql_backend.Query(
            select=[self.uuids[i] for i in self.vis],
            partition_by=[cd[self.uuids[i]] for i in self.grp],
            group_by=list(group_by),
            where=list(where),
            having=list(having),
            order_by=list(order_by),
            limit=limit,
            offset=offset,
        )
        return tbl, q, sqa_expr


@contextlib.contextmanager
def polars_step(pres):
    """patch the backend: library models, structural column references, and the recursive
    compile_ast answered by the pre-states of `pres`"""
    real = H.polars_backend.compile_ast
    by_node = {id(p.node): p for p in pres}

    def stub(nd):
        p = by_node.get(id(nd))
        if p is not None:
            return p.polars_state()
        return real(nd)

    with H.patched():
        saved = plmodel.STRUCT_MODE
        plmodel.STRUCT_MODE = True
        H.polars_backend.compile_ast = stub
        try:
            yield real
        finally:
            H.polars_backend.compile_ast = real
            plmodel.STRUCT_MODE = saved


@contextlib.contextmanager
def sql_step(pres, state_kw=None):
    """like polars_step for SqlImpl.compile_ast (a classmethod: the recursive call goes through the class)"""
    SqlImpl = H.sql_backend.SqlImpl
    orig = SqlImpl.__dict__["compile_ast"]
    real_fn = orig.__func__
    by_node = {id(p.node): p for p in pres}

    def stub(cls, nd, needed_cols):
        p = by_node.get(id(nd))
        if p is not None:
            return p.sql_state(**(state_kw or {}).get(p.tag, {}))
        return real_fn(cls, nd, needed_cols)

    with H.patched():
        SqlImpl.compile_ast = classmethod(stub)
        try:
            yield lambda nd, needed: real_fn(H.sqlite_backend.SqliteImpl, nd, needed)
        finally:
            SqlImpl.compile_ast = orig


def seq_eq(xs, ys):
    """z3 Bool: two python sequences of names/uuids are equal element-wise (None if lengths differ)"""
    from .symname import name_eq

    if len(xs) != len(ys):
        return z3.BoolVal(False)
    cs = []
    for a, b in zip(xs, ys):
        if isinstance(a, str) or isinstance(b, str):
            cs.append(name_eq(a, b))
        else:
            cs.append(z3.BoolVal(a == b))
    return z3.And(*cs) if cs else z3.BoolVal(True)
