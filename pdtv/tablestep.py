"""Inductive-step harness for the table-level (history-quantified) properties.

A *pre-state* is an arbitrary table of bounded width: which columns exist, which are
visible / hidden / grouping columns is enumerated concretely (skeletons); column NAMES are
symbolic strings (current/physical name and creation-time name of every column), only
constrained by the invariants that the obligations assume for the pre-state:

  M1  name_to_uuid / uuid_to_name are inverse bijections in the same order, keys(uuid_to_name) in cols
  P   physical names in the Polars frame are pairwise distinct, every in-scope uuid has one
  J   visible names/uuids/order and grouping agree between Cache and the backend state

The real verb function is applied to a real Table carrying this pre-state, then the real
Cache.update and the real backend compile_ast run on the new node with the recursive call
`compile_ast(nd.child)` answered by the pre-state (callee contract = induction hypothesis).
The obligation proves the invariants for the post-state on every path; together with the
base case (source table) this gives the invariant for all verb histories - bounded only in
the table width (number of columns), which is reported as the bound.
"""

from __future__ import annotations

import contextlib
import copy
import itertools
import uuid as _uuid

import z3

from pydiverse.common import Int64

from . import harness as H
from . import lfmodel, plmodel, sqlmodel
from .symname import SymName, distinct_facts

Cache = H.pdt._internal.pipe.cache.Cache
Table = H.pdt._internal.pipe.table.Table
verbs_tree = H.pdt._internal.tree.verbs
PolarsImpl = H.polars_backend.PolarsImpl
Ftype = H.Ftype


class Skeleton:
    """cols[i] in {'hid', 'vis', 'grp'} (grp = visible and grouping column)"""

    def __init__(self, cols):
        self.cols = tuple(cols)

    def __repr__(self):
        return "skel[" + ",".join(self.cols) + "]"

    @property
    def w(self):
        return len(self.cols)


def skeletons(max_w, min_w=1, need_hidden=None):
    for w in range(min_w, max_w + 1):
        for combo in itertools.product(("vis", "hid", "grp"), repeat=w):
            if not any(c != "hid" for c in combo):
                continue
            yield Skeleton(combo)


class _SrcNode(PolarsImpl):
    """stand-in for `node.child`: an AST node whose compilation result is the pre-state"""

    def __init__(self, name):  # noqa: super-init-not-called
        self.name = name
        self.cols = {}

    def __repr__(self):
        return f"<pre-state node {self.name}>"


_NO_LIMIT = []


def no_limit():
    """the value Cache.limit has when no LIMIT is present - read off a real source table (0 before, None after the repair
    of the slice_head(0) sentinel), so that the pre-states are built in the representation of the code under analysis"""
    if not _NO_LIMIT:
        import polars as pl

        _NO_LIMIT.append(H.pdt.Table(pl.DataFrame({"a": [1]}), name="probe")._cache.limit)
    return _NO_LIMIT[0]


class Pre:
    def __init__(self, skel: Skeleton, tag="t", backend_cls=PolarsImpl, dtypes=None, ftypes=None, limit="none", group_by=(), is_filtered=False):
        self.skel = skel
        self.tag = tag
        w = skel.w
        self.uuids = [_uuid.uuid1() for _ in range(w)]
        self.phys = [SymName(f"{tag}_n{i}") for i in range(w)]  # current (visible) / physical (hidden) name
        self.cname = [SymName(f"{tag}_m{i}") for i in range(w)]  # name the column was created with (Col.name)
        self.dtypes = dtypes or [Int64()] * w
        self.ftypes = ftypes or [Ftype.ELEMENT_WISE] * w
        self.node = _SrcNode(tag)
        self.vis = [i for i, c in enumerate(skel.cols) if c != "hid"]
        self.grp = [i for i, c in enumerate(skel.cols) if c == "grp"]
        self.facts = distinct_facts(self.phys)
        self.backend_cls = backend_cls
        self.limit, self.group_by, self.is_filtered = (no_limit() if isinstance(limit, str) else limit), group_by, is_filtered

    def nn(self, k):
        """a new, arbitrary column name chosen by the user in this step"""
        return SymName(k)

    # ---- Cache ---------------------------------------------------------------------
    def cols_dict(self):
        # cols is iterated in an order unrelated to the visible order
        order = list(reversed(range(self.skel.w)))
        return {self.uuids[i]: H.Col(self.cname[i], self.node, self.uuids[i], self.dtypes[i], self.ftypes[i]) for i in order}

    def cache(self):
        return Cache(
            name_to_uuid={self.phys[i]: self.uuids[i] for i in self.vis},
            uuid_to_name={self.uuids[i]: self.phys[i] for i in self.vis},
            partition_by=[self.uuids[i] for i in self.grp],
            derived_from={self.node},
            cols=self.cols_dict(),
            limit=self.limit,
            group_by=set(self.group_by),
            is_filtered=self.is_filtered,
            backend=self.backend_cls,
        )

    def table(self):
        t = Table.__new__(Table)
        t._ast = self.node
        t._cache = self.cache()
        return t

    # ---- Polars backend state --------------------------------------------------------
    def polars_state(self):
        df = lfmodel.LF({self.phys[i]: ("src", self.tag, i) for i in range(self.skel.w)})
        name_in_df = {self.uuids[i]: self.phys[i] for i in range(self.skel.w)}
        return df, name_in_df, [self.uuids[i] for i in self.vis], [self.uuids[i] for i in self.grp]

    def token(self, i):
        return ("src", self.tag, i)

    # ---- SQL backend state -------------------------------------------------------------
    def sql_names(self):
        # visible columns carry their current name as label; hidden ones an arbitrary (unconstrained) label
        return [self.phys[i] if i in self.vis else self.cname[i] for i in range(self.skel.w)]

    def sql_state(self, where=(), having=(), order_by=(), limit=None, offset=None, group_by=()):
        names = self.sql_names()
        tbl = sqlmodel.FromModel("base", self.tag)
        cols = {}
        sqa_expr = {}
        for i in range(self.skel.w):
            c = sqlmodel.SX("column", f"{self.tag}_c{i}", type_=H.sqlite_backend.SqliteImpl.sqa_type(self.dtypes[i]))
            c.table = tbl
            c.token = self.token(i)
            cols[f"{self.tag}_c{i}"] = c
            e = c
            if self.ftypes[i] == Ftype.WINDOW:
                e = sqlmodel.over(sqlmodel.func.SUM(c), partition_by=None, order_by=None)
            elif self.ftypes[i] == Ftype.AGGREGATE:
                e = sqlmodel.func.SUM(c)
            sqa_expr[self.uuids[i]] = sqlmodel.label(names[i], e)
        tbl.columns = sqlmodel._ColColl(cols)
        tbl.c = tbl.columns
        cd = self.cols_dict()
        q = H.sql_backend.Query(
            select=[self.uuids[i] for i in self.vis],
            partition_by=[cd[self.uuids[i]] for i in self.grp],
            group_by=list(group_by),
            where=list(where),
            having=list(having),
            order_by=list(order_by),
            limit=limit,
            offset=offset,
        )
        return tbl, q, sqa_expr


@contextlib.contextmanager
def polars_step(pres):
    """patch the backend: library models, structural column references, and the recursive
    compile_ast answered by the pre-states of `pres`"""
    real = H.polars_backend.compile_ast
    by_node = {id(p.node): p for p in pres}

    def stub(nd):
        p = by_node.get(id(nd))
        if p is not None:
            return p.polars_state()
        return real(nd)

    real_from_ast = Cache.__dict__["from_ast"]

    def from_ast_stub(node):
        p = by_node.get(id(node))
        if p is not None:
            return p.cache()
        return real_from_ast.__func__(node)

    with H.patched():
        saved = plmodel.STRUCT_MODE
        plmodel.STRUCT_MODE = True
        H.polars_backend.compile_ast = stub
        Cache.from_ast = staticmethod(from_ast_stub)
        try:
            yield real
        finally:
            H.polars_backend.compile_ast = real
            Cache.from_ast = real_from_ast
            plmodel.STRUCT_MODE = saved


@contextlib.contextmanager
def sql_step(pres, state_kw=None):
    """like polars_step for SqlImpl.compile_ast (a classmethod: the recursive call goes through the class)"""
    SqlImpl = H.sql_backend.SqlImpl
    orig = SqlImpl.__dict__["compile_ast"]
    real_fn = orig.__func__
    by_node = {id(p.node): p for p in pres}

    def stub(cls, nd, needed_cols):
        p = by_node.get(id(nd))
        if p is not None:
            return p.sql_state(**(state_kw or {}).get(p.tag, {}))
        return real_fn(cls, nd, needed_cols)

    real_from_ast = Cache.__dict__["from_ast"]

    def from_ast_stub(node):
        p = by_node.get(id(node))
        if p is not None:
            return p.cache()
        return real_from_ast.__func__(node)

    with H.patched():
        SqlImpl.compile_ast = classmethod(stub)
        Cache.from_ast = staticmethod(from_ast_stub)
        try:
            yield lambda nd, needed: real_fn(H.sqlite_backend.SqliteImpl, nd, needed)
        finally:
            SqlImpl.compile_ast = orig
            Cache.from_ast = real_from_ast


def seq_eq(xs, ys):
    """z3 Bool: two python sequences of names/uuids are equal element-wise (None if lengths differ)"""
    from .symname import name_eq

    if len(xs) != len(ys):
        return z3.BoolVal(False)
    cs = []
    for a, b in zip(xs, ys):
        if isinstance(a, str) or isinstance(b, str):
            cs.append(name_eq(a, b))
        else:
            cs.append(z3.BoolVal(a == b))
    return z3.And(*cs) if cs else z3.BoolVal(True)


REJECTIONS = None


def rejections():
    e = H.pdt.errors
    return (ValueError, TypeError, e.ColumnNotFoundError, e.DataTypeError, e.FunctionTypeError, e.SubqueryError)


def reserved_name_facts(names):
    """column names the Python call syntax / Table.__getattr__ cannot carry (excluded by assumption)"""
    out = []
    for nm in names:
        for d in ("__copy__", "__deepcopy__", "__setstate__", "__getstate__", "self", "table"):
            out.append(nm.t != z3.StringVal(d))
    return out


@contextlib.contextmanager
def deterministic_uuids():
    """uuid.uuid1() yields the same fresh values on every re-execution of a path (A-uuid: still fresh,
    i.e. different from every uuid of the pre-state)"""
    real = _uuid.uuid1
    cnt = itertools.count(1)
    _uuid.uuid1 = lambda *a, **k: _uuid.UUID(int=(0xFEED << 96) + next(cnt))
    try:
        yield
    finally:
        _uuid.uuid1 = real


def explore_step(pres, fn, backend="polars", extra_facts=(), sql_state_kw=None, max_paths=4000, probe=None):
    """Symbolically execute one verb step.  fn(pres, tables) -> new Table.
    Returns (paths, wit): each path value is ("rejected", exc) or ("ok", new, state, aux) where
    state is the backend state computed by the real compile_ast for the new node; aux holds the
    export select (polars) / the SELECT model (sql)."""
    from .core import explore

    wit = {}
    facts = list(extra_facts)
    allnames = []
    for p in pres:
        for i, nm in enumerate(p.phys):
            wit[f"{p.tag}.name{i}"] = nm.t
        for i, nm in enumerate(p.cname):
            wit[f"{p.tag}.cname{i}"] = nm.t
        facts += p.facts
        allnames += p.phys + p.cname
    news = [SymName(k) for k in ("r0", "r1", "k0", "k1", "sfx")]
    for n in news:
        wit[str(n.t)] = n.t
    facts += reserved_name_facts(allnames + news[:4])
    if backend != "polars":
        for p in pres:
            p.backend_cls = H.sqlite_backend.SqliteImpl

    def body():
        tables = [p.table() for p in pres]
        ctxm = polars_step(pres) if backend == "polars" else sql_step(pres, sql_state_kw)
        with deterministic_uuids(), ctxm as real_compile:
            tok = probe[0](tables) if probe else None
            try:
                new = fn(pres, tables)
            except rejections() as e:
                return ("rejected", e, tables, probe[1](tok, tables) if probe else None)
            probed = probe[1](tok, tables) if probe else None
            node = new._ast
            if backend == "polars":
                state = real_compile(node)
                df, name_in_df, select, _ = state
                exported = df.select(*(name_in_df[u] for u in select))
                lookup = {u: (pn, df.cols[pn] if pn in df.cols else None) for u, pn in name_in_df.items()}
                aux = {"exported": exported, "lookup": lookup}
            else:
                final = Cache.selected_cols(new._cache)
                needed = {c._uuid: 1 for c in final}
                if isinstance(node, verbs_tree.Alias) and node.uuid_map is not None:
                    inv = {v: k for k, v in node.uuid_map.items()}
                    needed = {inv[u]: 1 for u in needed}
                state = real_compile(node, needed)
                aux = H.sqlite_backend.SqliteImpl.compile_query(*state)
            return ("ok", new, state, aux, tables, probed)

    paths = explore(body, base_pc=facts, catch=(Exception,), max_paths=max_paths)
    return paths, wit
