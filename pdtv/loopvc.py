"""Loop contracts on real functions.

The loop body (and the straight-line blocks before / after the loop) are cut out of the
function's *real* source AST on every run, compiled as small functions over the loop-carried
variables (globals = the real module's globals, optionally with callee contracts bound to
some names) and executed natively with proxy values.  The verification conditions
(initialisation, preservation for a generic iteration, use at exit) are then discharged by z3.
Dropped by the extraction: nothing inside the blocks; the loop header itself (iteration protocol:
`for i, x in enumerate(seq[1:])` binds i = 0.. and x = seq[i+1]) is interpreted by the contract.
"""

from __future__ import annotations

import ast
import copy

from . import harness as H


def split_function(fn, loop_ordinal=0):
    """returns (FunctionDef, statements before the loop, loop node, statements after)"""
    tree = H.function_ast(fn)
    body = tree.body
    # skip docstring
    if body and isinstance(body[0], ast.Expr) and isinstance(body[0].value, ast.Constant) and isinstance(body[0].value.value, str):
        body = body[1:]
    idx = [i for i, s in enumerate(body) if isinstance(s, (ast.For, ast.While))]
    if loop_ordinal >= len(idx):
        raise H.Unsupported(f"{fn.__qualname__}: no top-level loop #{loop_ordinal}")
    i = idx[loop_ordinal]
    return tree, body[:i], body[i], body[i + 1 :]


def compile_block(stmts, argnames, outnames, fn, overrides=None, name="_block"):
    """def _block(<argnames>): <stmts>; return (<outnames>)   compiled in fn's module globals"""
    stmts = [copy.deepcopy(s) for s in stmts]
    ret = ast.Return(value=ast.Tuple(elts=[ast.Name(id=n, ctx=ast.Load()) for n in outnames], ctx=ast.Load()))
    fd = ast.FunctionDef(
        name=name,
        args=ast.arguments(posonlyargs=[], args=[ast.arg(arg=a) for a in argnames], kwonlyargs=[], kw_defaults=[], defaults=[]),
        body=stmts + [ret],
        decorator_list=[],
        type_params=[],
    )
    mod = ast.Module(body=[fd], type_ignores=[])
    ast.fix_missing_locations(mod)
    g = dict(fn.__globals__)
    if overrides:
        g.update(overrides)
    code = compile(mod, filename=f"<extracted from {fn.__qualname__}>", mode="exec")
    exec(code, g)  # noqa: S102
    return g[name]


def block_source(stmts):
    return "\n".join(ast.unparse(s) for s in stmts)
