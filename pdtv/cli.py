"""./check <property> --tier quick|thorough [--only SUBSTR] [--jobs N] [--replay FILE] [--list]"""

from __future__ import annotations

import argparse
import importlib
import json
import os
import sys
import time


def main(argv=None):
    ap = argparse.ArgumentParser()
    ap.add_argument("prop")
    ap.add_argument("--tier", default=os.environ.get("VERIF_TIER", "quick"), choices=["quick", "thorough"])
    ap.add_argument("--only", default=None)
    ap.add_argument("--jobs", type=int, default=None)
    ap.add_argument("--replay", default=None)
    ap.add_argument("--list", action="store_true")
    ap.add_argument("--no-evidence", action="store_true")
    a = ap.parse_args(argv)
    t0 = time.time()
    seed = int(os.environ.get("VERIF_SEED", "0") or 0)
    prop = a.prop.upper()
    try:
        from . import oblig

        mod = importlib.import_module(f"pdtv.props.{prop.lower()}")
        if a.replay:
            return replay(mod, a.replay)
        obs = mod.obligations(a.tier)
        if a.only:
            obs = [o for o in obs if a.only in o.oid]
        if a.list:
            for o in obs:
                print(o.oid, "[bounded]" if o.bounded else "")
            print(len(obs), "obligations")
            return 0
        if not obs:
            print(f"TOOL-ERROR property={prop}: no obligations generated")
            return 3
        known = oblig.load_known(prop)
        results = oblig.run_all(obs, known, jobs=a.jobs)
        from .props import common

        extra = mod.extra(a.tier, seed) if hasattr(mod, "extra") else None
        rc = oblig.finish(
            prop,
            a.tier,
            obs,
            results,
            known,
            t0=t0,
            design_ref=mod.DESIGN_REF,
            trusted_base=getattr(mod, "TRUSTED", common.TRUSTED_MODELS),
            assumptions=mod.ASSUMPTIONS,
            extra_cov=extra,
            seed=seed,
            level=getattr(mod, "LEVEL", "proof"),
            explanation=getattr(mod, "EXPLANATION", ""),
        )
        return rc
    except BaseException as e:  # noqa: BLE001
        import traceback

        traceback.print_exc()
        print(f"TOOL-ERROR property={prop}: {type(e).__name__}: {e}")
        return 3


def replay(mod, path):
    d = json.load(open(path))
    obs = {o.oid: o for o in mod.obligations("thorough")}
    ob = obs.get(d["obligation"])
    if ob is None:
        print("unknown obligation", d["obligation"])
        return 3
    print("obligation:", ob.oid)
    print("counter-model:", d.get("counter_model"))
    if ob.replayer is None:
        print("no native replay builder for this obligation; solver output:", d.get("failed_on"))
        return 1
    r = ob.replayer(d.get("counter_model") or {})
    print("native replay:", r)
    return 1 if r.get("reproduced") else 0


if __name__ == "__main__":
    sys.exit(main())
