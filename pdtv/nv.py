"""Nullable values (null flag + payload) and the shared value algebra used by the
library models (what polars / SQLite compute) and by the specifications (what the
documentation promises).  Payload sorts: Int, Real, Bool, String; dates/times/durations
are abstract integers (only order/equality is used)."""

from __future__ import annotations

import z3

from .core import Unsupported, py_floordiv, py_mod

INT, REAL, BOOL, STR = z3.IntSort(), z3.RealSort(), z3.BoolSort(), z3.StringSort()


class NV:
    __slots__ = ("null", "val")

    def __init__(self, null, val):
        self.null = null if z3.is_expr(null) else z3.BoolVal(bool(null))
        self.val = val

    @property
    def sort(self):
        return self.val.sort()

    def __repr__(self):
        return f"NV(null={self.null}, val={self.val})"


def default_of(sort):
    if sort == INT:
        return z3.IntVal(0)
    if sort == REAL:
        return z3.RealVal(0)
    if sort == BOOL:
        return z3.BoolVal(False)
    if sort == STR:
        return z3.StringVal("")
    return z3.FreshConst(sort)


def null_of(sort):
    return NV(z3.BoolVal(True), default_of(sort))


def const(v, sort=None):
    if v is None:
        return null_of(sort or INT)
    if isinstance(v, bool):
        return NV(False, z3.BoolVal(v))
    if isinstance(v, int):
        return NV(False, z3.RealVal(v) if sort == REAL else z3.IntVal(v))
    if isinstance(v, float):
        return NV(False, z3.RealVal(repr(v)))
    if isinstance(v, str):
        return NV(False, z3.StringVal(v))
    raise Unsupported(f"constant {v!r}")


def to_real(a: NV) -> NV:
    if a.sort == REAL:
        return a
    if a.sort == INT:
        return NV(a.null, z3.ToReal(a.val))
    raise Unsupported(f"to_real of {a.sort}")


def unify(a: NV, b: NV):
    if a.sort == b.sort:
        return a, b
    # an untyped NULL constant takes the sort of the other operand
    if z3.is_true(a.null):
        return null_of(b.sort), b
    if z3.is_true(b.null):
        return a, null_of(a.sort)
    if {a.sort, b.sort} == {INT, REAL}:
        return to_real(a), to_real(b)
    raise Unsupported(f"sort mismatch {a.sort} / {b.sort}")


def eq(a: NV, b: NV):
    """same nullable value (z3 Bool)"""
    a, b = unify(a, b)
    return z3.And(a.null == b.null, z3.Implies(z3.Not(a.null), a.val == b.val))


def lift(f, *args: NV) -> NV:
    """null if any argument is null"""
    return NV(z3.Or(*[a.null for a in args]) if len(args) > 1 else args[0].null, f(*[a.val for a in args]))


def lift_num(f, a: NV, b: NV) -> NV:
    a, b = unify(a, b)
    return lift(f, a, b)


def ite(c, a: NV, b: NV) -> NV:
    a, b = unify(a, b)
    return NV(z3.If(c, a.null, b.null), z3.If(c, a.val, b.val))


def is_true(a: NV):
    return z3.And(z3.Not(a.null), a.val)


def is_false(a: NV):
    return z3.And(z3.Not(a.null), z3.Not(a.val))


def k_and(a: NV, b: NV) -> NV:
    null = z3.And(z3.Not(is_false(a)), z3.Not(is_false(b)), z3.Or(a.null, b.null))
    return NV(null, z3.And(is_true(a), is_true(b)))


def k_or(a: NV, b: NV) -> NV:
    null = z3.And(z3.Not(is_true(a)), z3.Not(is_true(b)), z3.Or(a.null, b.null))
    return NV(null, z3.Or(is_true(a), is_true(b)))


def k_not(a: NV) -> NV:
    return NV(a.null, z3.Not(a.val))


def trunc_div(a, b):
    """integer division truncating toward zero (z3 Int terms, b != 0)"""
    q = py_floordiv(abs_t(a), abs_t(b))
    return z3.If((a < 0) != (b < 0), -q, q)


def trunc_mod(a, b):
    """remainder with the sign of the dividend"""
    return a - b * trunc_div(a, b)


def abs_t(a):
    return z3.If(a >= 0, a, -a)


def floor_div(a, b):
    return py_floordiv(a, b)


def floor_mod(a, b):
    return py_mod(a, b)


def max_t(a, b):
    if a.sort() == BOOL:
        return z3.Or(a, b)
    if a.sort() == STR:
        return z3.If(STR_LE(a, b), b, a)
    return z3.If(a >= b, a, b)


def min_t(a, b):
    if a.sort() == BOOL:
        return z3.And(a, b)
    if a.sort() == STR:
        return z3.If(STR_LE(a, b), a, b)
    return z3.If(a <= b, a, b)


# string order: an abstract total order (both engines are assumed to use binary collation)
STR_LE = z3.Function("str_le", STR, STR, BOOL)


def lt_t(a, b):
    if a.sort() == STR:
        return z3.And(STR_LE(a, b), a != b)
    if a.sort() == BOOL:
        return z3.And(z3.Not(a), b)
    return a < b


def le_t(a, b):
    if a.sort() == STR:
        return STR_LE(a, b)
    if a.sort() == BOOL:
        return z3.Implies(a, b)
    return a <= b


def str_order_axioms(terms):
    """total-order facts for str_le instantiated on the given string terms"""
    ax = []
    for a in terms:
        ax.append(STR_LE(a, a))
        for b in terms:
            ax.append(z3.Or(STR_LE(a, b), STR_LE(b, a)))
            ax.append(z3.Implies(z3.And(STR_LE(a, b), STR_LE(b, a)), a == b))
            for c in terms:
                ax.append(z3.Implies(z3.And(STR_LE(a, b), STR_LE(b, c)), STR_LE(a, c)))
    return ax


def nmax(a: NV, b: NV) -> NV:
    """null-skipping maximum"""
    a, b = unify(a, b)
    return NV(
        z3.And(a.null, b.null),
        z3.If(a.null, b.val, z3.If(b.null, a.val, max_t(a.val, b.val))),
    )


def nmin(a: NV, b: NV) -> NV:
    a, b = unify(a, b)
    return NV(
        z3.And(a.null, b.null),
        z3.If(a.null, b.val, z3.If(b.null, a.val, min_t(a.val, b.val))),
    )


def coalesce2(a: NV, b: NV) -> NV:
    a, b = unify(a, b)
    return NV(z3.And(a.null, b.null), z3.If(a.null, b.val, a.val))


# uninterpreted real functions shared by models and specs (no arithmetic meaning is
# assumed beyond functionality: both engines and the documentation mean "the" function)
def ufun(name, *sorts):
    return z3.Function(name, *sorts)


ROUND = ufun("round_to", REAL, INT, REAL)  # round(x, decimals>=0), ties excluded by DESIGN §4
ROUND_INT = ufun("round_int", INT, INT, INT)
FLOOR = ufun("floor_r", REAL, REAL)
CEIL = ufun("ceil_r", REAL, REAL)
POW = ufun("pow_r", REAL, REAL, REAL)
UNARY_REAL = {n: ufun(n + "_r", REAL, REAL) for n in ("exp", "log", "log10", "sin", "cos", "tan", "asin", "acos", "atan", "sqrt", "cbrt")}


def sign_real(x):
    return z3.If(x > 0, z3.RealVal(1), z3.If(x < 0, z3.RealVal(-1), z3.RealVal(0)))


def cbrt_def(x):
    return sign_real(x) * POW(abs_t(x), z3.RealVal(repr(1 / 3)))


INF = z3.Real("engine_infinity")  # stands for the engine's +inf; column values are finite (DESIGN §4)
_domain_facts: list = []


def domain_facts():
    return list(_domain_facts)


def floor_real(x):
    return z3.ToReal(z3.ToInt(x))


def ceil_real(x):
    return -z3.ToReal(z3.ToInt(-x))


# ---------------------------------------------------------------------------------
# abstract group model shared by the polars and the SQL model: a per-row expression is
# identified by its (null, value) terms; group functions are uninterpreted.

GROUP = z3.DeclareSort("RowExprId")
G_ROWS = z3.Int("group_rows")
_agg_ids: dict = {}
_agg_facts: list = []
_AGG_CACHE: dict = {}


def reset_agg_state():
    _agg_ids.clear()
    _agg_facts.clear()
    _domain_facts.clear()
    _pair_cache.clear()


def agg_fns(sort):
    k = str(sort)
    if k not in _AGG_CACHE:
        _AGG_CACHE[k] = {
            "nn_count": z3.Function("nn_count", GROUP, INT),
            "nn_sum": z3.Function(f"nn_sum_{k}", GROUP, sort if sort in (INT, REAL) else INT),
            "nn_mean": z3.Function(f"nn_mean_{k}", GROUP, REAL),
            "nn_min": z3.Function(f"nn_min_{k}", GROUP, sort),
            "nn_max": z3.Function(f"nn_max_{k}", GROUP, sort),
            "nn_any": z3.Function("nn_any", GROUP, BOOL),
            "nn_all": z3.Function("nn_all", GROUP, BOOL),
            "first": z3.Function(f"first_{k}", GROUP, sort),
            "first_null": z3.Function("first_null", GROUP, BOOL),
        }
    return _AGG_CACHE[k]


def expr_id(e: NV, order_id=0):
    key = (e.null.get_id(), e.val.get_id(), order_id)
    if key not in _agg_ids:
        c = z3.Const(f"rowexpr_{len(_agg_ids)}", GROUP)
        _agg_ids[key] = (c, e.null, e.val)  # keep the terms alive (ids are only unique while alive)
        cnt = agg_fns(e.sort)["nn_count"](c)
        _agg_facts.append(z3.And(cnt >= 0, cnt <= G_ROWS))
        if z3.is_false(z3.simplify(e.null)):
            _agg_facts.append(cnt == G_ROWS)
        if z3.is_true(z3.simplify(e.null)):
            _agg_facts.append(cnt == 0)
    return _agg_ids[key][0]


_pair_cache: dict = {}


def agg_facts():
    """facts about the abstract group; includes congruence: two row expressions that are equal on
    every row (valid equality of their (null, value) terms) are the same column of the group"""
    from . import core

    facts = list(_agg_facts) + [G_ROWS >= 0]
    items = list(_agg_ids.values())
    for i in range(len(items)):
        for j in range(i + 1, len(items)):
            (c1, n1, v1), (c2, n2, v2) = items[i], items[j]
            if v1.sort() != v2.sort():
                continue
            key = (c1.get_id(), c2.get_id())
            if key not in _pair_cache:
                same = z3.And(n1 == n2, z3.Implies(z3.Not(n1), v1 == v2))
                verdict, _, _ = core.check([z3.Not(same)], timeout_ms=5000, use_cvc5=False)
                _pair_cache[key] = verdict == "unsat"
            if _pair_cache[key]:
                facts.append(c1 == c2)
    return facts
