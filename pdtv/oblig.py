"""Obligations, the parallel runner, known findings, evidence and replay files."""

from __future__ import annotations

import dataclasses
import json
import multiprocessing as mp
import os
import re
import sys
import time
import traceback
from typing import Any, Callable

import z3

from . import core
from .core import TooManyPaths, Unsupported

VERIF = os.path.dirname(os.path.dirname(os.path.abspath(__file__)))
OUT = os.path.join(VERIF, "out")


@dataclasses.dataclass
class Outcome:
    status: str  # discharged | refuted | undecided | error
    detail: str = ""
    goal: str = ""
    paths: int = 0
    queries: int = 0
    solver_s: float = 0.0
    backend: str = "z3"
    model: dict | None = None  # counter-model (python values) when refuted
    replay: dict | None = None  # native replay result {reproduced: bool, text: str}
    axioms: list = dataclasses.field(default_factory=list)
    notes: list = dataclasses.field(default_factory=list)


@dataclasses.dataclass
class Obligation:
    oid: str
    group: str
    desc: str
    run: Callable[..., Outcome]  # run(carve: list[str]) -> Outcome
    functions: list = dataclasses.field(default_factory=list)  # fn_info dicts
    bounded: str | None = None  # text of the bound if this is a bounded stand-in
    carveouts: dict = dataclasses.field(default_factory=dict)  # name -> description
    replayer: Callable[[dict], dict] | None = None
    tags: tuple = ()


class VC:
    """accumulates the verdict over the paths of one obligation"""

    def __init__(self, goal_text="", facts=()):
        self.goal_text = goal_text
        self.facts = list(facts)
        self.paths = 0
        self.queries = 0
        self.t = 0.0
        self.backends = set()
        self.refuted = None  # (model dict, detail)
        self.undecided = None

    def require(self, pc, post, label="", witness_terms=None):
        """pc /\\ facts /\\ not post must be unsat"""
        if self.refuted is not None:
            return
        t0 = time.time()
        verdict, model, backend = core.check(list(pc) + self.facts + [z3.Not(post)], want_model=True)
        self.t += time.time() - t0
        self.queries += 1
        self.backends.add(backend)
        if verdict == "sat":
            md = {}
            if model is not None:
                for name, t in (witness_terms or {}).items():
                    try:
                        md[name] = core.model_value(model, t)
                    except Exception:  # noqa: BLE001
                        md[name] = "?"
                    if not isinstance(md[name], (int, bool, str, type(None))):
                        md[name] = str(md[name])
            self.refuted = (md, label)
        elif verdict == "unknown":
            self.undecided = f"solver returned unknown on {label or 'a path'}"

    def outcome(self, **kw) -> Outcome:
        base = dict(goal=self.goal_text, paths=self.paths, queries=self.queries, solver_s=round(self.t, 4), backend="+".join(sorted(self.backends)) or "z3")
        base.update(kw)
        if self.refuted is not None:
            return Outcome("refuted", detail=self.refuted[1], model=self.refuted[0], **base)
        if self.undecided is not None:
            return Outcome("undecided", detail=self.undecided, **base)
        if self.paths == 0 or self.queries == 0:
            return Outcome("undecided", detail="vacuous: no path / no verification condition generated", **base)
        return Outcome("discharged", **base)


# ---------------------------------------------------------------------------------
# runner

_OBLIGS: list[Obligation] = []


def _run_one(i_carve):
    i, carve = i_carve
    ob = _OBLIGS[i]
    t0 = time.time()
    try:
        out = ob.run(carve)
    except (Unsupported, TooManyPaths) as e:
        out = Outcome("undecided", detail=f"{type(e).__name__}: {e}")
    except Exception as e:  # noqa: BLE001
        out = Outcome("error", detail="".join(traceback.format_exception(type(e), e, e.__traceback__))[-3000:])
    if out.status == "refuted" and ob.replayer is not None and out.replay is None:
        try:
            out.replay = ob.replayer(out.model or {})
        except BaseException as e:  # noqa: BLE001
            out.replay = {"reproduced": False, "text": f"replay failed to run: {type(e).__name__}: {e}"}
    d = dataclasses.asdict(out)
    d["wall_s"] = round(time.time() - t0, 3)
    d["carve"] = list(carve)
    return i, d


def run_all(obligs: list[Obligation], known: list[dict], jobs=None):
    """returns list of result dicts (one per obligation, plus one per carve-out run)"""
    global _OBLIGS
    _OBLIGS = obligs
    tasks = []
    for i, ob in enumerate(obligs):
        kf = [k for k in known if k.get("status") == "open" and kf_match(k, ob.oid)]
        carve = sorted({k["carveout"] for k in kf if k.get("carveout")})
        tasks.append((i, ()))
        if carve:
            tasks.append((i, tuple(carve)))
    jobs = jobs or min(16, os.cpu_count() or 4)
    results = []
    if jobs == 1 or len(tasks) < 3:
        for t in tasks:
            results.append(_run_one(t))
    else:
        ctxm = mp.get_context("fork")
        with ctxm.Pool(jobs) as pool:
            for r in pool.imap_unordered(_run_one, tasks, chunksize=1):
                results.append(r)
    results.sort(key=lambda r: (r[0], len(r[1]["carve"])))
    return results


def kf_match(k, oid):
    import fnmatch

    pats = k["obligation"] if isinstance(k["obligation"], list) else [k["obligation"]]
    return any(fnmatch.fnmatchcase(oid, p) for p in pats)


def load_known(prop):
    p = os.path.join(VERIF, "known_findings.json")
    if not os.path.exists(p):
        return []
    data = json.load(open(p))
    return [k for k in data.get("findings", []) if k["property"] == prop]


def _safe(s):
    return re.sub(r"[^A-Za-z0-9_.-]+", "_", s)[:150]


def finish(prop, tier, obligs, results, known, *, t0, design_ref, trusted_base, assumptions, extra_cov=None, checker_cmd=None, seed=0, level="proof", explanation=""):
    """print verdict lines, write evidence + replay files, return exit code"""
    by_ob: dict[int, list[dict]] = {}
    for i, d in results:
        by_ob.setdefault(i, []).append(d)
    violations = []
    undecided = []
    errors = []
    known_hits = []
    n_proof = n_disch = 0
    bounded = []
    samples = []
    backends = {}
    solver_s = 0.0
    fns = {}
    axioms = set()
    vac = {"obligations_with_zero_paths": 0}
    open_known = [k for k in known if k.get("status") == "open"]
    matched_known = set()
    for i, ob in enumerate(obligs):
        rs = by_ob.get(i, [])
        plain = next((r for r in rs if not r["carve"]), None)
        carved = next((r for r in rs if r["carve"]), None)
        for f in ob.functions:
            if f and f.get("name"):
                fns[f["name"]] = f
        for r in rs:
            solver_s += r["solver_s"]
            axioms.update(r.get("axioms") or [])
            backends[r["backend"]] = backends.get(r["backend"], 0) + 1
        kf = [k for k in open_known if kf_match(k, ob.oid)]
        deciding = plain
        if kf:
            # known finding: the plain run must still fail (else the finding is stale -> just report it as
            # fixed-looking, no alarm), and the carved run must be discharged
            if plain["status"] == "refuted":
                for k in kf:
                    if id(k) not in matched_known:
                        known_hits.append(k)
                    matched_known.add(id(k))
            if carved is not None:
                deciding = carved
            elif plain["status"] == "refuted":
                deciding = dict(plain, status="discharged-known")
        st = deciding["status"]
        if ob.bounded:
            bounded.append({"obligation": ob.oid, "bound": ob.bounded, "status": st})
        else:
            n_proof += 1
            if st in ("discharged", "discharged-known"):
                n_disch += 1
        if st == "refuted":
            violations.append((ob, deciding))
        elif st == "undecided":
            undecided.append((ob, deciding))
        elif st == "error":
            errors.append((ob, deciding))
        if len(samples) < 6 or (st != "discharged" and len(samples) < 12):
            samples.append({"obligation": ob.oid, "what": ob.desc, "goal": deciding.get("goal", "")[:600], "status": st, "paths": deciding["paths"], "queries": deciding["queries"], "backend": deciding["backend"]})
        if deciding["paths"] == 0 and st == "discharged":
            vac["obligations_with_zero_paths"] += 1

    for k in known_hits:
        print(f"KNOWN-FINDING: property={prop} {k['id']}: {k['witness']}")
    for k in open_known:
        if id(k) not in matched_known:
            print(f"note: known finding {k['id']} no longer reproduces (obligation {k['obligation']} not refuted)")
    rdir = os.path.join(OUT, "replay", prop)
    os.makedirs(rdir, exist_ok=True)
    for fn in os.listdir(rdir):
        if fn.endswith(".json"):
            os.remove(os.path.join(rdir, fn))
    for ob, r in violations:
        path = os.path.join(OUT, "replay", prop, _safe(ob.oid) + ".json")
        rep = r.get("replay") or {}
        json.dump(
            {
                "property": prop,
                "obligation": ob.oid,
                "what": ob.desc,
                "goal": r.get("goal"),
                "failed_on": r.get("detail"),
                "counter_model": r.get("model"),
                "native_replay": rep,
                "functions": ob.functions,
                "solver": r.get("backend"),
                "carveouts_applied": r.get("carve"),
            },
            open(path, "w"),
            indent=1,
            default=str,
        )
        tail = "" if rep.get("reproduced") else " no-failing-input-found"
        print(f"VIOLATION property={prop} replay={path}{tail}")
        print(f"  obligation {ob.oid}: {ob.desc}\n  counter-model: {r.get('model')}\n  replay: {str(rep.get('text', 'none'))[:400]}")
    for ob, r in undecided:
        print(f"UNDECIDED property={prop} obligation={ob.oid}: {r['detail'][:300]}")
    for ob, r in errors:
        print(f"TOOL-ERROR property={prop} obligation={ob.oid}: {r['detail'][-600:]}")

    wall = time.time() - t0
    cov = {
        "obligations": n_proof,
        "discharged": n_disch,
        "checker_cmd": checker_cmd or f"./check {prop} --tier {tier}",
        "trusted_base": trusted_base,
        "samples": samples,
        "functions_under_contract": sorted(fns.values(), key=lambda f: f["name"]),
        "backends": backends,
        "solver_time_s": round(solver_s, 3),
        "bounded_standins": bounded,
        "known_findings_reported": [k["id"] for k in known_hits],
        "library_axioms_used": sorted(axioms),
        "undecided": [ob.oid for ob, _ in undecided],
        "vacuity": vac,
        "design_ref": design_ref,
        "solver_stats": dict(core.STATS),
    }
    n_bounded_ok = sum(1 for b in bounded if b["status"] in ("discharged", "discharged-known"))
    total_paths = sum(d["paths"] for _, d in results)
    if level != "proof":
        cov["explanation"] = explanation
        cov["evaluations"] = total_paths
        cov["distinct_nontrivial"] = n_bounded_ok + n_disch
        cov["rule"] = "one case = one obligation (verb step x abstract pre-state, or enumeration); evaluations = symbolic paths / enumerated tuples explored; all are distinct by construction"
        cov["exhaustive"] = False
    if extra_cov:
        cov.update(extra_cov)
    ev = {
        "property_id": prop,
        "tier": tier,
        "seed": seed,
        "level": level,
        "coverage": cov,
        "assumptions": assumptions,
        "wall_s": round(wall, 2),
        "violations": len(violations),
    }
    os.makedirs(os.path.join(VERIF, "evidence"), exist_ok=True)
    json.dump(ev, open(os.path.join(VERIF, "evidence", f"{prop}.json"), "w"), indent=1, default=str)
    print(f"{prop} [{tier}]: {n_disch}/{n_proof} obligations discharged, {len(bounded)} bounded stand-ins, {len(known_hits)} known findings, {len(violations)} violations, {len(undecided)} undecided, {len(errors)} tool errors, {wall:.1f}s")
    if errors:
        return 3
    if violations:
        return 1
    if undecided or (n_proof == 0 and level == "proof") or (n_proof + len(bounded) == 0):
        return 2
    return 0
