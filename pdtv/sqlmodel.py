"""Library model of the part of the SQLAlchemy API used by /repo's SQL backends, with
a denotation under the semantics of the executable representative SQLite (and the
SQL standard where they agree).

Bound to the name ``sqa`` inside backend/sql.py and backend/sqlite.py while the real
``compile_col_expr`` / ``@impl`` functions run.  SQLAlchemy *type* classes are the real
ones (the code only inspects them with isinstance); column elements are SX terms.
Every rule in ``den`` is an assumed contract (T-lib), conformance-tested on a value
grid against the installed sqlite3 (bounded, thorough tier)."""

from __future__ import annotations

import sqlalchemy as _sa
import z3

from . import nv as N
from .core import Sym, Unsupported, term
from .nv import BOOL, INT, NV, REAL, STR

AXIOMS_USED: set[str] = set()


def _ax(name):
    AXIOMS_USED.add(name)


__version__ = _sa.__version__

# real type classes / helpers that the code inspects
Integer, BigInteger, SmallInteger = _sa.Integer, _sa.BigInteger, _sa.SmallInteger
Double, Float, Numeric, DECIMAL = _sa.Double, _sa.Float, _sa.Numeric, _sa.DECIMAL
String, Boolean, Date, DateTime, Time, Interval = _sa.String, _sa.Boolean, _sa.Date, _sa.DateTime, _sa.Time, _sa.Interval
ARRAY = _sa.ARRAY
types = _sa.types
Engine = _sa.Engine
make_url = _sa.make_url


def _inst(t):
    return t() if isinstance(t, type) else t


def sort_of_satype(t):
    t = _inst(t)
    if isinstance(t, _sa.Boolean):
        return BOOL
    if isinstance(t, _sa.Integer):
        return INT
    if isinstance(t, (_sa.Float, _sa.Numeric)):
        return REAL
    if isinstance(t, _sa.String):
        return STR
    if isinstance(t, (_sa.Date, _sa.DateTime, _sa.Time, _sa.Interval)):
        return INT
    if isinstance(t, _sa.types.NullType):
        return None
    raise Unsupported(f"sqlalchemy type {t!r}")


def _py_type(v):
    if isinstance(v, bool):
        return _sa.Boolean()
    if isinstance(v, int):
        return _sa.Integer()
    if isinstance(v, float):
        return _sa.Float()
    if isinstance(v, str):
        return _sa.String()
    if v is None:
        return _sa.types.NullType()
    if isinstance(v, Sym):
        s = v.t.sort()
        return {INT: _sa.Integer(), REAL: _sa.Float(), BOOL: _sa.Boolean(), STR: _sa.String()}[s]
    raise Unsupported(f"literal of type {type(v).__name__}")


class SX:
    """SQL expression term"""

    __hash__ = object.__hash__

    def __init__(self, kind, *args, type_=None, **kw):
        self.kind = kind
        self.args = args
        self.kw = kw
        self.type = _inst(type_) if type_ is not None else _sa.types.NullType()

    def __repr__(self):
        return f"SX({self.kind}, {', '.join(map(repr, self.args))}{', ' + repr(self.kw) if self.kw else ''})"

    def __bool__(self):
        raise TypeError("Boolean value of this clause is not defined")

    # attribute surface used by the code
    @property
    def name(self):
        if self.kind == "label":
            return self.args[0]
        if self.kind == "column":
            return self.args[0]
        if self.kind in ("type_coerce",):
            return self.args[0].name
        raise Unsupported(f".name of {self.kind}")

    @property
    def element(self):
        if self.kind in ("unary_mod", "label"):
            return self.args[-1] if self.kind == "label" else self.args[1]
        raise Unsupported(f".element of {self.kind}")

    @property
    def modifier(self):
        return self.args[0] if self.kind == "unary_mod" else None

    # operators
    def _bin(self, op, o, swap=False, type_=None):
        o = _lift(o, self)
        a, b = (o, self) if swap else (self, o)
        return SX("bin", op, a, b, type_=type_ if type_ is not None else _arith_type(a, b, op))

    def __add__(self, o):
        return self._bin("+", o)

    def __radd__(self, o):
        return self._bin("+", o, True)

    def __sub__(self, o):
        return self._bin("-", o)

    def __rsub__(self, o):
        return self._bin("-", o, True)

    def __mul__(self, o):
        return self._bin("*", o)

    def __rmul__(self, o):
        return self._bin("*", o, True)

    def __truediv__(self, o):
        return self._bin("/", o, type_=_truediv_type(self, _lift(o, self)))

    def __rtruediv__(self, o):
        return self._bin("/", o, True, type_=_truediv_type(_lift(o, self), self))

    def __floordiv__(self, o):
        return self._bin("//", o)

    def __mod__(self, o):
        return self._bin("%", o)

    def __rmod__(self, o):
        return self._bin("%", o, True)

    def __neg__(self):
        return SX("neg", self, type_=self.type)

    def __pos__(self):
        return self

    def __abs__(self):
        return SX("func", "ABS", self, type_=self.type)

    def __eq__(self, o):
        if o is None or (isinstance(o, SX) and o.kind == "null" and not o.kw.get("bind")):
            _ax("sqlalchemy: `x == None` / `x == null()` renders `x IS NULL` (a NULL *bind parameter* keeps `=`)")
            return self.is_(null())
        return self._bin("=", o, type_=_sa.Boolean())

    def __ne__(self, o):
        if o is None or (isinstance(o, SX) and o.kind == "null" and not o.kw.get("bind")):
            _ax("sqlalchemy: `x != None` / `x != null()` renders `x IS NOT NULL`")
            return self.is_not(null())
        return self._bin("!=", o, type_=_sa.Boolean())

    def __lt__(self, o):
        return self._bin("<", o, type_=_sa.Boolean())

    def __le__(self, o):
        return self._bin("<=", o, type_=_sa.Boolean())

    def __gt__(self, o):
        return self._bin(">", o, type_=_sa.Boolean())

    def __ge__(self, o):
        return self._bin(">=", o, type_=_sa.Boolean())

    def __and__(self, o):
        return self._bin("AND", o, type_=_sa.Boolean())

    def __rand__(self, o):
        return self._bin("AND", o, True, type_=_sa.Boolean())

    def __or__(self, o):
        return self._bin("OR", o, type_=_sa.Boolean())

    def __ror__(self, o):
        return self._bin("OR", o, True, type_=_sa.Boolean())

    def __invert__(self):
        return SX("not", self, type_=_sa.Boolean())

    def is_(self, o):
        return SX("is", self, _lift(o, self), type_=_sa.Boolean())

    def is_not(self, o):
        return SX("not", SX("is", self, _lift(o, self), type_=_sa.Boolean()), type_=_sa.Boolean())

    def in_(self, values):
        vals = [_lift(v, self) for v in values]
        return SX("in", self, tuple(vals), type_=_sa.Boolean())

    def startswith(self, y, autoescape=False, escape=None):
        return SX("like", "prefix", self, _lift(y, self), autoescape=autoescape, type_=_sa.Boolean())

    def endswith(self, y, autoescape=False, escape=None):
        return SX("like", "suffix", self, _lift(y, self), autoescape=autoescape, type_=_sa.Boolean())

    def contains(self, y, autoescape=False, escape=None):
        return SX("like", "infix", self, _lift(y, self), autoescape=autoescape, type_=_sa.Boolean())

    def like(self, other, escape=None):
        return SX("like_raw", self, _lift(other, self), escape, type_=_sa.Boolean())

    def ilike(self, other, escape=None):
        raise Unsupported("ILIKE")

    def cast(self, t):
        return cast(self, t)

    def label(self, name):
        return label(name, self)

    def collate(self, c):
        return SX("collate", self, c, type_=self.type)

    def asc(self):
        return SX("unary_mod", "asc", self, type_=self.type)

    def desc(self):
        return SX("unary_mod", "desc", self, type_=self.type)

    def nulls_first(self):
        return SX("unary_mod", "nulls_first", self, type_=self.type)

    def nulls_last(self):
        return SX("unary_mod", "nulls_last", self, type_=self.type)

    def op(self, opstring, **kw):
        def f(o):
            return SX("custom_op", opstring, self, _lift(o, self))

        return f


ColumnElement = SX
UnaryExpression = SX  # only used in isinstance(..) inside dedup_order_by together with .modifier


def _is_num_type(t):
    return isinstance(t, (_sa.Integer, _sa.Float, _sa.Numeric))


def _arith_type(a, b, op):
    if op in ("AND", "OR"):
        return _sa.Boolean()
    ta, tb = a.type, b.type
    if isinstance(ta, _sa.types.NullType):
        return tb
    if isinstance(tb, _sa.types.NullType):
        return ta
    if isinstance(ta, _sa.Integer) and isinstance(tb, (_sa.Float, _sa.Numeric)):
        return tb
    return ta


def _truediv_type(a, b):
    if isinstance(a.type, _sa.Integer) and isinstance(b.type, _sa.Integer):
        return _sa.Numeric()
    return _arith_type(a, b, "/")


def _lift(v, like=None):
    if isinstance(v, SX):
        return v
    if v is None:
        return null()
    return SX("literal", v, type_=_py_type(v) if not (like is not None and isinstance(v, (int, Sym)) and not isinstance(v, bool) and _is_num_type(like.type) and False) else like.type)


def null():
    return SX("null")


def false():
    return SX("literal", False, type_=_sa.Boolean())


def true():
    return SX("literal", True, type_=_sa.Boolean())


def literal(value, type_=None, literal_execute=False):
    t = _inst(type_) if type_ is not None else _py_type(value)
    if value is None:
        return SX("null", type_=t, bind=True)  # a bind parameter holding NULL: comparisons keep `=` / `!=` (unlike the NULL constant)
    return SX("literal", value, type_=t)


def literal_column(text, type_=None):
    try:
        v = int(text)
    except ValueError:
        raise Unsupported(f"literal_column({text!r})") from None
    _ax("sqlalchemy: literal_column('<int>') renders that integer constant")
    return SX("literal", v, type_=_sa.Integer() if type_ is None else type_)


def text(s):
    return SX("text", s)


def label(name, x):
    if not isinstance(x, SX):
        x = _lift(x)
    return SX("label", name, x, type_=x.type)


def cast(x, t):
    x = _lift(x)
    return SX("cast", x, type_=t)


def try_cast(x, t):
    x = _lift(x)
    return SX("cast", x, try_=True, type_=t)


def type_coerce(x, t):
    x = _lift(x)
    return SX("type_coerce", x, type_=t)


def case(*whens, else_=None, value=None):
    if value is not None:
        raise Unsupported("case(value=)")
    ws = []
    for w in whens:
        c, v = w
        ws.append((_lift(c), _lift(v)))
    e = _lift(else_) if else_ is not None else None
    # SQLAlchemy: the type of a CASE is the type of its first non-NULL-typed THEN/ELSE value
    ty = _sa.types.NullType()
    for _, v in ws:
        if not isinstance(v.type, _sa.types.NullType):
            ty = v.type
            break
    else:
        if e is not None:
            ty = e.type
    return SX("case", tuple(ws), e, type_=ty)


def extract(field, x):
    return SX("extract", field, x, type_=_sa.Integer())


def over(element, partition_by=None, order_by=None, **kw):
    return SX("over", element, partition_by, order_by, type_=element.type)


def and_(*xs):
    acc = _lift(xs[0])
    for x in xs[1:]:
        acc = acc & x
    return acc


def or_(*xs):
    acc = _lift(xs[0])
    for x in xs[1:]:
        acc = acc | x
    return acc


def not_(x):
    return ~_lift(x)


class _ClauseList(SX):
    def __init__(self, *xs):
        super().__init__("clauselist", *xs)

    def __iter__(self):
        return iter(self.args)

    def __len__(self):
        return len(self.args)

    def __bool__(self):
        return len(self.args) > 0


class _Expression:
    ClauseList = _ClauseList


class _Selectable:
    pass


class _Sql:
    expression = _Expression
    selectable = _Selectable
    Select = object


sql = _Sql


_FUNC_TYPES = {
    "COUNT": _sa.Integer, "LENGTH": _sa.Integer, "ROW_NUMBER": _sa.Integer, "RANK": _sa.Integer, "DENSE_RANK": _sa.Integer,
}


class _Func:
    def __getattr__(self, name):
        def f(*args, type_=None, **kw):
            a = tuple(_lift(x) for x in args)
            up = name.upper()
            if type_ is None:
                if up in _FUNC_TYPES:
                    type_ = _FUNC_TYPES[up]
                elif up in ("MAX", "MIN", "SUM", "COALESCE", "ABS", "GREATEST", "LEAST") and a:
                    # SQLAlchemy: ReturnTypeFromArgs
                    type_ = a[0].type
                else:
                    type_ = _sa.types.NullType()
            return SX("func", up, *a, type_=type_)

        return f


func = _Func()


def column(name, nvv: NV, type_):
    x = SX("column", name, type_=type_)
    x.nv = nvv
    return x


# ---------------------------------------------------------------------------------
# denotation (SQLite as the executable representative)


def den(x, level="row") -> NV:
    """nullable value of SQL term x on one generic row (level='row') or for the current
    abstract group (aggregates; level='agg')"""
    if not isinstance(x, SX):
        x = _lift(x)
    k = x.kind
    if k == "column":
        return x.nv
    if k == "null":
        s = sort_of_satype(x.type)
        return N.null_of(s or INT)
    if k == "literal":
        v = x.args[0]
        s = sort_of_satype(x.type)
        if isinstance(v, Sym):
            t = v.t
            if s == REAL and t.sort() == INT:
                t = z3.ToReal(t)
            return NV(False, t)
        return N.const(v, s)
    if k == "type_coerce" and x.args[0].kind == "literal" and isinstance(x.args[0].args[0], str) and sort_of_satype(x.type) == REAL:
        _ax("sqlite dialect: type_coerce(literal('1e314'), Double) is +infinity, which no column value equals (finite value domain)")
        return NV(False, N.INF)
    if k in ("label", "type_coerce", "collate"):
        return den(x.args[1] if k == "label" else x.args[0], level)
    if k == "neg":
        return N.lift(lambda a: -a, den(x.args[0], level))
    if k == "not":
        _ax("SQL: NOT is three-valued")
        return N.k_not(den(x.args[0], level))
    if k == "is":
        a, b = x.args
        if b.kind != "null":
            raise Unsupported("IS <non-null>")
        _ax("SQL: x IS NULL is never null")
        return NV(False, den(a, level).null)
    if k == "bin":
        return _den_bin(x, level)
    if k == "in":
        a = den(x.args[0], level)
        _ax("SQL: x IN (v1..vn) is the three-valued OR of the equalities; the empty list gives false")
        acc = NV(False, z3.BoolVal(False))
        for v in x.args[1]:
            b = den(v, level)
            aa, bb = N.unify(a, b)
            acc = N.k_or(acc, N.lift(lambda p, q: p == q, aa, bb))
        return acc
    if k == "case":
        whens, els = x.args
        _ax("SQL: CASE takes the first WHEN whose condition is true; no match and no ELSE gives NULL")
        vals = [den(v, level) for _, v in whens] + ([den(els, level)] if els is not None else [])
        sort = None
        for (_, v), nvv in zip(list(whens) + ([(None, els)] if els is not None else []), vals):
            if v.kind != "null" or not isinstance(v.type, _sa.types.NullType):
                sort = nvv.sort if sort in (None, nvv.sort) else REAL
        if sort is None:
            sort = INT

        def co(nvv, v):
            if v.kind == "null":
                return N.null_of(sort)
            if nvv.sort != sort and sort == REAL:
                return N.to_real(nvv)
            return nvv

        acc = N.null_of(sort) if els is None else co(den(els, level), els)
        for c, v in reversed(whens):
            acc = N.ite(N.is_true(den(c, level)), co(den(v, level), v), acc)
        return acc
    if k == "cast":
        return _den_cast(x, level)
    if k == "like_raw":
        a, p, esc = x.args
        if p.kind != "literal" or not isinstance(p.args[0], str):
            raise Unsupported("LIKE with a non-constant pattern")
        _ax("SQL: x LIKE p [ESCAPE e]: % matches any sequence, _ any single character, e makes the next character literal; null iff x is null")
        return N.lift(lambda s: z3.InRe(s, like_regex(p.args[0], esc)), den(a, level))
    if k == "like":
        mode, a, p = x.args
        if not x.kw.get("autoescape"):
            raise Unsupported("LIKE without autoescape: pattern metacharacters are interpreted")
        if p.kind == "literal" and isinstance(p.args[0], str):
            _ax("sqlalchemy: startswith/endswith/contains(p, autoescape=True) render x LIKE <p with %, _ and / escaped by '/'> (|| '%') ESCAPE '/'")
            _ax("SQL: x LIKE p [ESCAPE e]: % matches any sequence, _ any single character, e makes the next character literal; null iff x is null")
            esc = "".join("/" + ch if ch in "%_/" else ch for ch in p.args[0])
            pat = {"prefix": esc + "%", "suffix": "%" + esc, "infix": "%" + esc + "%"}[mode]
            return N.lift(lambda s: z3.InRe(s, like_regex(pat, "/")), den(a, level))
        _ax("sqlalchemy+SQL: x.startswith/endswith/contains(p, autoescape=True) is the literal prefix/suffix/substring test (case-sensitivity of the engine's LIKE aside), null iff an operand is null")
        f = {"prefix": lambda s, q: z3.PrefixOf(q, s), "suffix": lambda s, q: z3.SuffixOf(q, s), "infix": lambda s, q: z3.Contains(s, q)}[mode]
        return N.lift(f, den(a, level), den(p, level))
    if k == "extract":
        f = z3.Function(f"sql_extract_{x.args[0]}", INT, INT)
        return N.lift(lambda v: f(v), den(x.args[1], level))
    if k == "func":
        return _den_func(x, level)
    if k == "over":
        el, pb, ob = x.args
        if ob is None or (hasattr(ob, "__len__") and len(ob) == 0):
            _ax("SQL: agg(x) OVER (PARTITION BY p) gives every row the aggregate of its partition")
            return den(el, level)
        raise Unsupported("value of an ordered window expression")
    if k == "text":
        raise Unsupported("value of raw SQL text")
    raise Unsupported(f"SQL model: {k}")


def like_regex(pattern: str, escape):
    """z3 regular expression of a concrete LIKE pattern"""
    RS = z3.ReSort(STR)
    parts = []
    i = 0
    lit = ""

    def flush():
        nonlocal lit
        if lit:
            parts.append(z3.Re(z3.StringVal(lit)))
            lit = ""

    while i < len(pattern):
        ch = pattern[i]
        if escape and ch == escape:
            if i + 1 < len(pattern):
                lit += pattern[i + 1]
                i += 2
                continue
            raise Unsupported("LIKE pattern ends with the escape character (engine-dependent error)")
        if ch == "%":
            flush()
            parts.append(z3.Full(RS))
        elif ch == "_":
            flush()
            parts.append(z3.AllChar(RS))
        else:
            lit += ch
        i += 1
    flush()
    if not parts:
        return z3.Re(z3.StringVal(""))
    if len(parts) == 1:
        return parts[0]
    return z3.Concat(*parts)


def contains_kind(x, kinds):
    """does the SQL term contain a node of one of the given kinds (raw text, custom operators ...)"""
    if not isinstance(x, SX):
        if isinstance(x, (tuple, list)):
            return any(contains_kind(y, kinds) for y in x)
        return False
    if x.kind in kinds:
        return True
    return any(contains_kind(a, kinds) for a in x.args)


def _den_bin(x, level):
    op, a, b = x.args
    da, db = den(a, level), den(b, level)
    if op in ("AND", "OR"):
        _ax("SQL: AND / OR are three-valued (Kleene)")
        # an untyped NULL operand is a boolean NULL here
        da = N.null_of(N.BOOL) if (da.sort != N.BOOL and z3.is_true(da.null)) else da
        db = N.null_of(N.BOOL) if (db.sort != N.BOOL and z3.is_true(db.null)) else db
        return N.k_and(da, db) if op == "AND" else N.k_or(da, db)
    _ax("SQL: arithmetic and comparison operators are NULL iff an operand is NULL")
    if op in ("=", "!=", "<", "<=", ">", ">="):
        da, db = N.unify(da, db)
        f = {
            "=": lambda p, q: p == q,
            "!=": lambda p, q: p != q,
            "<": N.lt_t,
            "<=": N.le_t,
            ">": lambda p, q: N.lt_t(q, p),
            ">=": lambda p, q: N.le_t(q, p),
        }[op]
        return N.lift(f, da, db)
    if op == "+" and STR in (da.sort, db.sort):
        _ax("sqlalchemy: `+` on strings renders the concatenation operator")
        da, db = N.unify(da, db)
        return N.lift(lambda p, q: z3.Concat(p, q), da, db)
    if op in ("+", "-", "*"):
        da, db = N.unify(da, db)
        f = {"+": lambda p, q: p + q, "-": lambda p, q: p - q, "*": lambda p, q: p * q}[op]
        return N.lift(f, da, db)
    if op == "/":
        _ax("sqlalchemy 2: `/` is true division (integer operands are cast to numeric)")
        return N.lift(lambda p, q: p / q, N.to_real(da), N.to_real(db))
    if op == "//":
        if da.sort == INT and db.sort == INT:
            _ax("sqlalchemy 2 + SQL: `//` on integers renders the engine's integer division, which truncates toward zero")
            return N.lift(N.trunc_div, da, db)
        raise Unsupported("// on non-integers")
    if op == "%":
        if da.sort == INT and db.sort == INT:
            _ax("SQL: integer `%` has the sign of the dividend")
            return N.lift(N.trunc_mod, da, db)
        raise Unsupported("% on non-integers")
    raise Unsupported(f"SQL operator {op}")


def _den_cast(x, level):
    a = den(x.args[0], level)
    s = sort_of_satype(x.type)
    if s is None or s == a.sort:
        return a
    if a.sort == INT and s == REAL:
        return NV(a.null, z3.ToReal(a.val))
    if a.sort == REAL and s == INT:
        _ax("SQLite: CAST(real AS INTEGER) truncates toward zero")
        return NV(a.null, z3.If(a.val >= 0, z3.ToInt(a.val), -z3.ToInt(-a.val)))
    if a.sort == BOOL and s == INT:
        return NV(a.null, z3.If(a.val, z3.IntVal(1), z3.IntVal(0)))
    if a.sort == BOOL and s == REAL:
        return NV(a.null, z3.If(a.val, z3.RealVal(1), z3.RealVal(0)))
    f = z3.Function(f"sql_cast_{a.sort}_{s}", a.sort, s)
    return NV(a.null, f(a.val))


def _den_func(x, level):
    name = x.args[0]
    args = x.args[1:]
    ds = [den(a, level) for a in args]
    if name == "COALESCE":
        _ax("SQL: COALESCE returns its first non-NULL argument")
        acc = ds[0]
        for d in ds[1:]:
            acc = N.coalesce2(acc, d)
        return acc
    if name in ("MAX", "MIN") and len(ds) >= 2:
        _ax("SQLite: scalar MAX(a,b,..)/MIN(a,b,..) is NULL if any argument is NULL")
        f = N.max_t if name == "MAX" else N.min_t
        acc = ds[0]
        for d in ds[1:]:
            aa, bb = N.unify(acc, d)
            acc = N.lift(f, aa, bb)
        return acc
    if name in ("GREATEST", "LEAST"):
        raise Unsupported("GREATEST/LEAST do not exist in SQLite (dialect without override)")
    if name == "ABS":
        return N.lift(N.abs_t, ds[0])
    if name == "ROUND":
        _ax("SQL: ROUND(x, d) is the rounding function round_to (uninterpreted; ties excluded); ROUND(x) = ROUND(x, 0)")
        d = ds[1] if len(ds) > 1 else N.const(0)
        if ds[0].sort == INT:
            return N.lift(lambda v, k: N.ROUND_INT(v, k), ds[0], d)
        return N.lift(lambda v, k: N.ROUND(v, k), ds[0], d)
    if name == "FLOOR":
        return N.lift(N.floor_real, N.to_real(ds[0]))
    if name == "CEIL":
        return N.lift(N.ceil_real, N.to_real(ds[0]))
    if name == "POW":
        return N.lift(lambda a, b: N.POW(a, b), N.to_real(ds[0]), N.to_real(ds[1]))
    if name == "LN":
        return N.lift(lambda a: N.UNARY_REAL["log"](a), N.to_real(ds[0]))
    if name.lower() in N.UNARY_REAL:
        return N.lift(lambda a: N.UNARY_REAL[name.lower()](a), N.to_real(ds[0]))
    if name == "SIGN":
        return N.lift(N.sign_real, N.to_real(ds[0]))
    if name in ("UPPER", "LOWER", "TRIM"):
        f = z3.Function({"UPPER": "upper", "LOWER": "lower", "TRIM": "strip_ws"}[name], STR, STR)
        return N.lift(lambda a: f(a), ds[0])
    if name in ("DATE", "DATETIME") and len(ds) == 1:
        _ax("SQLite: date(x) / datetime(x) are null for null x and otherwise the engine's conversion (uninterpreted)")
        f = z3.Function(f"sqlite_{name.lower()}", ds[0].sort, INT)
        return N.lift(lambda a: f(a), ds[0])
    if name == "STRFTIME" and len(ds) == 2:
        _ax("SQLite: strftime(<datetime storage format>, x) is null for null x and otherwise the engine's conversion to a datetime text (uninterpreted, the same function as datetime(x))")
        f = z3.Function("sqlite_datetime", ds[1].sort, INT)
        return N.lift(lambda a: f(a), ds[1])
    if name == "LENGTH":
        return N.lift(lambda a: z3.Length(a), ds[0])
    if name == "REPLACE":
        _ax("SQL: REPLACE(x, p, v) replaces every literal occurrence of p")
        f = z3.Function("replace_all_literal", STR, STR, STR, STR)
        return N.lift(lambda a, p, v: f(a, p, v), *ds)
    if name == "SUBSTR":
        _ax("SQL: SUBSTR(x, o, n) is 1-based")
        return N.lift(lambda a, o, n: z3.SubString(a, o - 1, n), *ds)
    # --- aggregates over the abstract group -------------------------------------
    if name == "COUNT":
        if not ds:
            _ax("SQL: COUNT(*) = number of rows of the group")
            return NV(False, N.G_ROWS)
        if args[0].kind == "null":
            _ax("SQL: COUNT(NULL) = 0")
            return NV(False, z3.IntVal(0))
        _ax("SQL: COUNT(x) = number of non-NULL values")
        return NV(False, N.agg_fns(ds[0].sort)["nn_count"](N.expr_id(ds[0])))
    if name in ("SUM", "AVG", "MAX", "MIN") and len(ds) == 1:
        d = ds[0]
        f = N.agg_fns(d.sort)
        g = N.expr_id(d)
        _ax("SQL: SUM/AVG/MIN/MAX ignore NULLs and are NULL if there is no non-NULL value")
        none = f["nn_count"](g) == 0
        if name == "SUM":
            return NV(none, f["nn_sum"](g))
        if name == "AVG":
            return NV(none, f["nn_mean"](g))
        if d.sort == BOOL:
            return NV(none, (f["nn_any"] if name == "MAX" else f["nn_all"])(g))
        return NV(none, (f["nn_max"] if name == "MAX" else f["nn_min"])(g))
    raise Unsupported(f"SQL function {name}")


# ---------------------------------------------------------------------------------
# structural model of FROM objects and SELECT statements (table-level obligations)

import itertools as _it

_tid = _it.count()


class _ColColl:
    def __init__(self, cols):
        self._cols = dict(cols)  # name -> SX column

    def get(self, name, default=None):
        return self._cols[name] if name in self._cols else default

    def __getitem__(self, name):
        if name not in self._cols:
            raise KeyError(name)
        return self._cols[name]

    def __iter__(self):
        return iter(self._cols.values())

    def values(self):
        return list(self._cols.values())

    def keys(self):
        return list(self._cols.keys())

    def __len__(self):
        return len(self._cols)


class FromModel:
    """sqa.Table / Alias / Join / Subquery"""

    def __init__(self, kind, name=None, columns=None, **info):
        self.kind = kind
        self.name = name
        self.info = info
        self.id = next(_tid)
        self.columns = _ColColl(columns or {})
        self.c = self.columns

    def __repr__(self):
        return f"From[{self.kind}:{self.name}#{self.id}]"

    def select(self):
        return SelectModel(self)

    def alias(self, name=None):
        cols = {n: _retable(c, None) for n, c in self.columns._cols.items()}
        f = FromModel("alias", name, cols, of=self)
        for c in cols.values():
            c.table = f
        return f

    def join(self, right, onclause=None, isouter=False, full=False):
        cols = dict(self.columns._cols)
        for n, c in right.columns._cols.items():
            cols.setdefault(n, c)
        return FromModel("join", None, cols, left=self, right=right, on=onclause, isouter=isouter, full=full)

    @property
    def original(self):
        return self.info.get("select")


def _retable(c, table):
    x = SX("column", c.args[0], type_=c.type)
    x.nv = getattr(c, "nv", None)
    x.table = table
    return x


class Subquery(FromModel):
    pass


_Selectable.Subquery = Subquery


def base_table(name, colnames, types=None):
    cols = {}
    f = FromModel("base", name)
    for i, n in enumerate(colnames):
        c = SX("column", n, type_=(types[i] if types else _sa.Integer()))
        c.table = f
        cols[n] = c
    f.columns = _ColColl(cols)
    f.c = f.columns
    return f


class SelectModel:
    def __init__(self, from_, **parts):
        self.from_ = from_
        self.parts = {"where": (), "group_by": (), "having": (), "limit": None, "offset": None, "order_by": (), "cols": None}
        self.parts.update(parts)

    def _with(self, **kw):
        p = dict(self.parts)
        p.update(kw)
        return SelectModel(self.from_, **p)

    def select_from(self, t):
        return SelectModel(t, **self.parts)

    def where(self, *preds):
        return self._with(where=self.parts["where"] + tuple(preds))

    def group_by(self, *cols):
        return self._with(group_by=self.parts["group_by"] + tuple(cols))

    def having(self, *preds):
        return self._with(having=self.parts["having"] + tuple(preds))

    def limit(self, n):
        return self._with(limit=n)

    def offset(self, n):
        return self._with(offset=n)

    def order_by(self, *keys):
        return self._with(order_by=self.parts["order_by"] + tuple(keys))

    def with_only_columns(self, *cols):
        return self._with(cols=tuple(cols))

    @property
    def selected_columns(self):
        cols = self.parts["cols"] if self.parts["cols"] is not None else tuple(self.from_.columns)
        out = {}
        lst = []
        for c in cols:
            lst.append(c)
        return _SelCols(lst)

    def subquery(self, name=None):
        cols = {}
        f = Subquery("subquery", name, {}, select=self)
        for c in self.selected_columns:
            n = c.name
            if n in cols:
                raise Unsupported(f"subquery with duplicate column name {n!r}")
            x = SX("column", n, type_=c.type)
            x.table = f
            cols[n] = x
        f.columns = _ColColl(cols)
        f.c = f.columns
        return f

    def compile(self, *a, **k):
        raise Unsupported("compiling a model SELECT to text")


class _SelCols:
    def __init__(self, lst):
        self._lst = lst

    def values(self):
        return list(self._lst)

    def __iter__(self):
        return iter(self._lst)

    def __len__(self):
        return len(self._lst)


class CompoundModel(SelectModel):
    def __init__(self, op, selects):
        self.op = op
        self.selects = selects
        self.from_ = None
        self.parts = {"cols": None}

    @property
    def selected_columns(self):
        return self.selects[0].selected_columns


def union(*selects):
    return CompoundModel("union", selects)


def union_all(*selects):
    return CompoundModel("union_all", selects)
