"""Enumerated real pipelines executed natively on Polars and on in-memory SQLite (bounded differential
stand-in for C01 / C15 / C20 and replay engine).  A step is (label, fn(tbl, ctx) -> tbl, effect) where effect
describes what the step does to the row order: 'keep' | 'sort' | 'destroy'."""

from __future__ import annotations

import datetime as _dt
import itertools
import warnings

import polars as pl
import sqlalchemy as sqa

import pydiverse.transform as pdt

OK_REFUSALS = (pdt.errors.SubqueryError, pdt.errors.NotSupportedError)


def base_frames(kind="mixed"):
    if kind == "mixed":
        t = pl.DataFrame({"a": [3, 1, 2, 2, None, 5], "b": [10.5, None, 30.0, 30.0, 50.5, None], "s": ["x", "y", None, "y", "w", "x"], "f": [True, False, None, True, False, True], "h": [1, 2, 3, 4, 5, 6],
                          "dt": pl.Series([_dt.datetime(2020, 2, 29, 13, 14, 15), None, _dt.datetime(9999, 12, 31, 23, 59, 59), _dt.datetime(1000, 1, 1), _dt.datetime(1970, 1, 1), _dt.datetime(2262, 4, 12)], dtype=pl.Datetime("us")),
                          "d": pl.Series([_dt.date(2020, 2, 29), _dt.date(9999, 12, 31), None, _dt.date(1, 1, 1), _dt.date(1970, 1, 1), _dt.date(1999, 12, 31)], dtype=pl.Date)})
        u = pl.DataFrame({"a": [2, 2, 9, None], "c": [100, 200, 300, 400], "s": ["p", "q", "r", None], "h": [7, 8, 9, 10]})
    elif kind == "empty":
        t = pl.DataFrame({"a": [], "b": [], "s": [], "f": [], "h": []}, schema={"a": pl.Int64, "b": pl.Float64, "s": pl.String, "f": pl.Boolean, "h": pl.Int64})
        u = pl.DataFrame({"a": [2], "c": [100], "s": ["p"], "h": [7]})
    elif kind == "single":
        t = pl.DataFrame({"a": [None], "b": [1.5], "s": ["x"], "f": [None], "h": [1]}, schema={"a": pl.Int64, "b": pl.Float64, "s": pl.String, "f": pl.Boolean, "h": pl.Int64})
        u = pl.DataFrame({"a": [None], "c": [1], "s": ["x"], "h": [2]}, schema={"a": pl.Int64, "c": pl.Int64, "s": pl.String, "h": pl.Int64})
    else:  # tall: > 100 rows with a long null prefix and many duplicates
        n = 120
        t = pl.DataFrame({"a": [None] * 40 + [i % 7 for i in range(n - 40)], "b": [None if i % 5 == 0 else float(i % 11) for i in range(n)], "s": [None if i % 9 == 0 else "k%d" % (i % 4) for i in range(n)],
                          "f": [None if i % 6 == 0 else i % 2 == 0 for i in range(n)], "h": list(range(n))}, schema={"a": pl.Int64, "b": pl.Float64, "s": pl.String, "f": pl.Boolean, "h": pl.Int64})
        u = pl.DataFrame({"a": [i % 5 for i in range(30)], "c": list(range(30)), "s": ["k%d" % (i % 3) for i in range(30)], "h": list(range(1000, 1030))})
    return t, u


class Ctx:
    def __init__(self, backend, kind="mixed"):
        tf, uf = base_frames(kind)
        self.backend = backend
        if backend == "polars":
            self.t, self.u, self.t2 = pdt.Table(tf, name="t"), pdt.Table(uf, name="u"), pdt.Table(tf.reverse(), name="t2")
        else:
            eng = sqa.create_engine("sqlite://")
            tf.write_database("t", eng)
            uf.write_database("u", eng)
            tf.reverse().write_database("t2", eng)
            self.t, self.u, self.t2 = (pdt.Table(n, pdt.SqlAlchemy(eng)) for n in ("t", "u", "t2"))


C = pdt.C


class Step(tuple):
    def __new__(cls, label, fn, effect, needs, uniq, breaks):
        return super().__new__(cls, (label, fn, effect, needs, uniq, breaks))

    label = property(lambda s: s[0])
    fn = property(lambda s: s[1])
    effect = property(lambda s: s[2])
    needs = property(lambda s: s[3])
    uniq = property(lambda s: s[4])
    breaks = property(lambda s: s[5])


def _has(tbl, *names):
    return all(n in tbl for n in names)


def steps():
    """alphabet of steps; each uses C.<name> references so that it applies to whatever the table currently is.
    A step returns None when it is not applicable to the current columns."""
    S = []

    def add(label, fn, effect="keep", needs=(), uniq=False, breaks=False):
        # uniq: the step's result depends on h being a unique key (ordering ties otherwise); breaks: h is no longer unique after it
        S.append(Step(label, fn, effect, needs, uniq, breaks))

    add("filter(a>1)", lambda x, c: x >> pdt.filter(C.a > 1), needs=("a",))
    add("filter(b.is_null()|f)", lambda x, c: x >> pdt.filter(C.b.is_null() | C.f), needs=("b", "f"))
    add("mutate(x=a+h)", lambda x, c: x >> pdt.mutate(x=C.a + C.h), needs=("a", "h"))
    add("mutate(a=a*2,z=a)", lambda x, c: x >> pdt.mutate(a=C.a * 2, z=C.a), needs=("a",))
    add("mutate(k=when)", lambda x, c: x >> pdt.mutate(k=pdt.when(C.a > 2).then(C.h).when(C.a.is_null()).then(-1).otherwise(C.h // -2)), needs=("a", "h"))
    add("mutate(w=row_number)", lambda x, c: x >> pdt.mutate(w=pdt.row_number(arrange=[C.a.nulls_last(), C.h])), needs=("a", "h"), uniq=True)
    add("mutate(sm=a.sum)", lambda x, c: x >> pdt.mutate(sm=C.a.sum()), needs=("a",))
    add("mutate(sh=h.shift)", lambda x, c: x >> pdt.mutate(sh=C.h.shift(1, arrange=C.h.descending())), needs=("h",), uniq=True)
    add("select(h,a)", lambda x, c: x >> pdt.select(C.h, C.a), needs=("h", "a"))
    add("drop(s)", lambda x, c: x >> pdt.drop(C.s), needs=("s", "h"))
    add("rename(a<->b)", lambda x, c: x >> pdt.rename({"a": "b", "b": "a"}), needs=("a", "b"))
    add("arrange(a.nl,h)", lambda x, c: x >> pdt.arrange(C.a.nulls_last(), C.h), effect="sort", needs=("a", "h"), uniq=True)
    add("arrange(h.desc)", lambda x, c: x >> pdt.arrange(C.h.descending()), effect="sort", needs=("h",), uniq=True)
    add("slice_head(3,1)", lambda x, c: x >> pdt.slice_head(3, offset=1), needs=())
    add("group_by(a)", lambda x, c: x >> pdt.group_by(C.a), needs=("a",))
    add("ungroup", lambda x, c: x >> pdt.ungroup(), needs=())
    add("summarize(n,m)", lambda x, c: x >> pdt.summarize(n=pdt.count(), m=C.h.max()), effect="destroy", needs=("h",))
    add("summarize(sa)", lambda x, c: x >> pdt.summarize(sa=C.a.sum(), ca=C.a.count()), effect="destroy", needs=("a",))
    add("left_join(u)", lambda x, c: x >> pdt.left_join(c.u, x.a == c.u.a), effect="destroy", needs=("a",), breaks=True)
    add("full_join(u)", lambda x, c: x >> pdt.full_join(c.u, x.a == c.u.a), effect="destroy", needs=("a",), breaks=True)
    add("left_join(u,eq&<)", lambda x, c: x >> pdt.left_join(c.u, (x.a == c.u.a) & (x.h + 4 < c.u.h)), effect="destroy", needs=("a", "h"), breaks=True)
    add("inner_join(u,<)", lambda x, c: x >> pdt.inner_join(c.u, (x.a < c.u.a) & (x.h < c.u.h)), effect="destroy", needs=("a", "h"), breaks=True)
    def _un(x, c, r):
        names = [col.name for col in x]
        if not all(n in r for n in names):
            return None
        # operands whose column types differ are either refused by both backends (no common type) or accepted by both
        return x >> pdt.union(r >> pdt.select(*[r[n] for n in reversed(names)]))

    add("union(t2)", lambda x, c: _un(x, c, c.t2), effect="destroy", needs=(), breaks=True)
    def _un_sub(x, c):
        names = [col.name for col in x]
        r = c.t2
        if "h" not in r or not all(n in r for n in names):
            return None
        sub = r >> pdt.arrange(r.h) >> pdt.slice_head(4, offset=1) >> pdt.alias("s2")
        return x >> pdt.union(sub >> pdt.filter(sub.h > 1) >> pdt.select(*[sub[n] for n in reversed(names)]))

    add("union(subquery)", _un_sub, effect="destroy", needs=(), breaks=True)
    add("union(self)", lambda x, c: _un(x, c, c.t), effect="destroy", needs=(), breaks=True)
    def _un_tag(x, c, count):
        names = [col.name for col in x]
        r = c.t2
        if "tag" in names or not all(n in r for n in names) or any(x[n].dtype() != r[n].dtype() for n in names):
            return None
        res = x >> pdt.mutate(tag=1) >> pdt.union(r >> pdt.select(*[r[n] for n in names]) >> pdt.mutate(tag=2))
        if count:
            res = res >> pdt.group_by(res.tag) >> pdt.summarize(n=pdt.count())
        return res

    add("union(tagged)", lambda x, c: _un_tag(x, c, False), effect="destroy", needs=(), breaks=True)
    add("union(tagged)>>count by tag", lambda x, c: _un_tag(x, c, True), effect="destroy", needs=(), breaks=True)
    add("summarize by tag", lambda x, c: x >> pdt.ungroup() >> pdt.group_by(C.tag) >> pdt.summarize(nt=pdt.count()), effect="destroy", needs=("tag",))

    def _un_mixed(x, c):
        # operands whose column types differ but have a common type (Int64 | Float64)
        names = [col.name for col in x]
        r = c.t2
        if "a" not in names or not all(n in r for n in names) or any(x[n].dtype() != r[n].dtype() for n in names) or not x.a.dtype().is_int():
            return None
        return x >> pdt.union(r >> pdt.mutate(a=r.a.cast(pdt.Float64()) + 0.5))

    add("union(int|float)", _un_mixed, effect="destroy", needs=("a",), breaks=True)
    add("alias", lambda x, c: x >> pdt.alias("al"), needs=())
    return S


def expr_steps():
    """second alphabet: one mutate / summarize / filter per expression shape (window functions x ordering markers x
    partitioning, aggregates with filter=, case, casts, string / boolean operators)"""
    S = []

    def add(label, fn, effect="keep", needs=(), uniq=False, breaks=False):
        S.append(Step(label, fn, effect, needs, uniq, breaks))

    def keys(x):
        for dn, d in (("asc", lambda e: e), ("desc", lambda e: e.descending())):
            for nn, nl in (("nf", lambda e: e.nulls_first()), ("nl", lambda e: e.nulls_last())):
                yield f"a.{dn}.{nn}", (lambda x, d=d, nl=nl: nl(d(x.a)))
                yield f"s.{dn}.{nn}", (lambda x, d=d, nl=nl: nl(d(x.s)))

    parts = (("nopart", lambda x: None), ("part_f", lambda x: x.f), ("part_s", lambda x: x.s))
    for kl, key in keys(None):
        for pn, part in parts:
            col = kl[0]
            if pn == "part_s" and col == "s":
                continue

            def kw(x, key=key, part=part, tie=True):
                d = {"arrange": [key(x), x.h] if tie else [key(x)]}
                if part(x) is not None:
                    d["partition_by"] = part(x)
                return d

            add(f"row_number({kl},{pn})", lambda x, c, kw=kw: x >> pdt.mutate(w=pdt.row_number(**kw(x))), needs=("a", "s", "f", "h"), uniq=True)
            add(f"rank({kl},{pn})", lambda x, c, kw=kw: x >> pdt.mutate(w=pdt.rank(**kw(x, tie=False)), w2=pdt.dense_rank(**kw(x, tie=False))), needs=("a", "s", "f", "h"))
            add(f"shift({kl},{pn})", lambda x, c, kw=kw: x >> pdt.mutate(w=x.h.shift(1, **kw(x)), w2=x.h.shift(-2, -7, **kw(x))), needs=("a", "s", "f", "h"), uniq=True)
            add(f"cum_sum({kl},{pn})", lambda x, c, kw=kw: x >> pdt.mutate(w=x.h.cum_sum(**kw(x))), needs=("a", "s", "f", "h"), uniq=True)
    for pn, part in parts:
        def kwp(x, part=part):
            return {} if part(x) is None else {"partition_by": part(x)}

        add(f"agg_window({pn})", lambda x, c, kwp=kwp: x >> pdt.mutate(w1=x.a.sum(**kwp(x)), w2=x.b.mean(**kwp(x)), w3=x.a.max(**kwp(x)), w4=x.s.min(**kwp(x)), w5=x.f.any(**kwp(x)), w6=x.f.all(**kwp(x)), w7=x.a.count(**kwp(x)), w8=pdt.count(**kwp(x))),
            needs=("a", "b", "s", "f"))
        add(f"agg_window_filter({pn})", lambda x, c, kwp=kwp: x >> pdt.mutate(w1=x.a.sum(filter=x.h > 2, **kwp(x)), w7=x.a.count(filter=x.f, **kwp(x)), w8=pdt.count(filter=x.b.is_null(), **kwp(x))), needs=("a", "b", "f", "h"))
    add("summarize(all aggs)", lambda x, c: x >> pdt.summarize(w1=x.a.sum(), w2=x.b.mean(), w3=x.a.max(), w4=x.s.min(), w5=x.f.any(), w6=x.f.all(), w7=x.a.count(), w8=pdt.count(), w9=x.a.min(), w10=x.s.max()), effect="destroy", needs=("a", "b", "s", "f"))
    add("summarize(filter=)", lambda x, c: x >> pdt.summarize(w1=x.a.sum(filter=x.h > 2), w7=x.a.count(filter=x.f), w8=pdt.count(filter=x.b.is_null()), w3=x.b.max(filter=x.a.is_not_null())), effect="destroy", needs=("a", "b", "f", "h"))
    add("summarize(expr of aggs)", lambda x, c: x >> pdt.summarize(w=x.a.sum() + x.h.max() * 2, v=pdt.when(x.a.max() > 3).then(x.h.min()).otherwise(-1)), effect="destroy", needs=("a", "h"))
    add("case/coalesce", lambda x, c: x >> pdt.mutate(w=pdt.when(x.a > 2).then(x.h).when(x.f).then(x.a).otherwise(None), v=pdt.coalesce(x.a, x.h), u=x.a.fill_null(0) + x.h, m=x.a.map({1: 10, 2: 20}, default=x.h)), needs=("a", "f", "h"))
    add("case(window|col)", lambda x, c: x >> pdt.mutate(w=pdt.when(x.f).then(x.h.shift(1, arrange=x.h)).otherwise(x.a), v=pdt.when(x.a > 1).then(x.a.sum()).otherwise(x.h)), needs=("a", "f", "h"), uniq=True)
    add("arith", lambda x, c: x >> pdt.mutate(w=x.a * x.h - 3, v=x.h // 4, u=x.h % 4, p=(-x.h) // 4, q=(-x.h) % 4, r=x.b / 2 + x.a, ab=(x.a - 3).abs(), fl=(x.b / 4).floor(), ce=(x.b / 4).ceil()), needs=("a", "b", "h"))
    add("compare/bool", lambda x, c: x >> pdt.mutate(w=(x.a > 2) & x.f, v=(x.a <= 2) | x.f, u=~x.f, e=x.a == x.h, ne=x.a != x.h, i=x.a.is_in(1, 2, 5), i2=x.h.is_in(x.a, 7), i3=x.a.is_in(1, None), en=x.a == None, nen=x.s != None,  # noqa: E711
         n=x.a.is_null(), nn=x.s.is_not_null(), x_=x.f ^ (x.a > 1)), needs=("a", "f", "h", "s"))
    # a window / aggregate function in the CONDITION of a case expression (the expression is then a window expression itself)
    add("case(cond=window)", lambda x, c: x >> pdt.mutate(w=pdt.when(x.h.shift(1, arrange=x.h) > 2).then(1).otherwise(0), v=pdt.when(x.a.sum() > 4).then(x.h).otherwise(-1), r=pdt.when(pdt.row_number(arrange=x.h.descending()) <= 2).then(True)), needs=("a", "h"), uniq=True)
    add("strip", lambda x, c: x >> pdt.mutate(st=("\t " + x.s + " \n").str.strip(), st2=(x.s + "\r\n").str.strip().str.len()), needs=("s",))
    add("string", lambda x, c: x >> pdt.mutate(w=x.s + "z", v=x.s.str.len(), u=x.s.str.upper(), st=x.s.str.starts_with("k"), ct=x.s.str.contains("1"), sl=x.s.str.slice(1, 2), rp=x.s.str.replace_all("k", "qq")), needs=("s",))
    add("cast", lambda x, c: x >> pdt.mutate(w=x.a.cast(pdt.Float64()), v=x.h.cast(pdt.String()), u=x.f.cast(pdt.Int64()), b_=x.b.cast(pdt.Int64())), needs=("a", "b", "f", "h"))
    add("min/max horizontal", lambda x, c: x >> pdt.mutate(w=pdt.max(x.a, x.h), v=pdt.min(x.a, x.h, 3), w4=pdt.max(x.h, x.a, 3, x.h - 4), v4=pdt.min(x.a + 5, x.h + 5, x.h, x.a + 1), v5=pdt.min(x.h, 9, x.a, x.h * 2, 4)), needs=("a", "h"))
    add("reflected operators", lambda x, c: x >> pdt.mutate(r1="x_" + x.s, r2=3 - x.a, r3=2 / (x.b + 100), r4=17 // (x.h + 1), r5=17 % (x.h + 1), r6=2 * x.a, r7=10 + x.a, r8=True & x.f, r9=False | x.f), needs=("a", "b", "s", "f", "h"))
    add("filter(case)", lambda x, c: x >> pdt.filter(pdt.when(x.f).then(x.a > 1).otherwise(x.h < 4)), needs=("a", "f", "h"))
    add("filter(is_in)", lambda x, c: x >> pdt.filter(x.a.is_in(2, 3, None) | x.s.is_null()), needs=("a", "s"))
    add("arrange(s.desc.nf,h)", lambda x, c: x >> pdt.arrange(x.s.descending().nulls_first(), x.h), effect="sort", needs=("s", "h"), uniq=True)
    add("arrange(b.nl,a.desc.nf,h.desc)", lambda x, c: x >> pdt.arrange(x.b.nulls_last(), x.a.descending().nulls_first(), x.h.descending()), effect="sort", needs=("a", "b", "h"), uniq=True)
    return S


def hidden_ref_steps():
    """steps for references to HIDDEN columns through an earlier table object: `stashers` create a column and remember a
    handle to the column they hide / create; `users` refer to it later (when it is still in scope)"""
    mk = Step

    def st_overwrite(x, c):
        c.stash = x.a  # the original `a`, hidden by the overwrite
        return x >> pdt.mutate(a=x.a * 10)

    def st_window_then_hide(x, c):
        y = x >> pdt.mutate(w2=pdt.row_number(arrange=[x.a.nulls_last(), x.h]))
        c.stash = y.w2
        return y >> pdt.select(*[col for col in y if col.name != "w2"])

    def st_agg_then_hide(x, c):
        y = x >> pdt.mutate(s2=x.h.sum())
        c.stash = y.s2
        return y >> pdt.drop(y.s2)

    def usable(x, c):
        return getattr(c, "stash", None) is not None and c.stash._uuid in x._cache.cols

    stashers = [mk("mutate(a=a*10) [keep a handle to the old a]", st_overwrite, "keep", ("a",), False, False), mk("mutate(w2=row_number) >> hide w2 [keep a handle]", st_window_then_hide, "keep", ("a", "h"), True, False),
                mk("mutate(s2=h.sum) >> drop(s2) [keep a handle]", st_agg_then_hide, "keep", ("h",), False, False)]
    users = [mk("mutate(z=hidden+1)", lambda x, c: x >> pdt.mutate(z=c.stash + 1) if usable(x, c) else None, "keep", (), False, False),
             mk("filter(hidden>1)", lambda x, c: x >> pdt.filter(c.stash > 1) if usable(x, c) else None, "keep", (), False, False),
             mk("arrange(hidden,h)", lambda x, c: x >> pdt.arrange(c.stash.nulls_last(), C.h) if usable(x, c) and "h" in x else None, "sort", (), True, False)]
    alias_keep = mk("alias(keep_col_refs=True)", lambda x, c: x >> pdt.alias("ak", keep_col_refs=True), "keep", (), False, False)
    return stashers, users, alias_keep


def contexts():
    B = {st.label: st for st in steps()}
    ident = Step("id", lambda x, c: x, "keep", (), False, False)
    out = [[ident]]
    for labs in (["filter(a>1)"], ["group_by(a)"], ["arrange(h.desc)"], ["mutate(a=a*2,z=a)"], ["rename(a<->b)"], ["slice_head(3,1)"], ["arrange(a.nl,h)", "slice_head(3,1)"], ["alias"], ["union(t2)"], ["left_join(u)"], ["select(h,a)"],
                 ["mutate(w=row_number)"], ["summarize(n,m)"], ["group_by(a)", "summarize(sa)"]):
        out.append([B[l] for l in labs])
    gf = Step("group_by(f,s)", lambda x, c: x >> pdt.group_by(x.f, x.s), "keep", ("f", "s"), False, False)
    out.append([gf])
    return out


def hides_group_col(pipeline):
    """known finding F-hidden-group-col: a grouping column is overwritten / dropped while the table is grouped"""
    grouped = False
    for st in pipeline:
        if st.label.startswith("group_by"):
            grouped = True
        elif st.label in ("ungroup",) or st.label.startswith("summarize"):
            grouped = False
        elif grouped and st.label.startswith("mutate(a="):
            return True
    return False


FRAGMENT = {"filter(a>1)", "filter(b.is_null()|f)", "mutate(x=a+h)", "mutate(a=a*2,z=a)", "mutate(k=when)", "select(h,a)", "drop(s)", "rename(a<->b)", "arrange(a.nl,h)", "arrange(h.desc)", "slice_head(3,1)",
            "group_by(a)", "summarize(n,m)", "summarize(sa)", "id", "case/coalesce", "arith", "compare/bool", "string", "cast", "min/max horizontal", "reflected operators", "filter(case)", "filter(is_in)", "arrange(s.desc.nf,h)", "arrange(b.nl,a.desc.nf,h.desc)"}


def in_fragment(pipeline):
    """C08/S5: pipelines of element-wise mutate / filter, select, rename, arrange, ONE grouped summarize and a FINAL slice_head never need a subquery"""
    labs = [st.label for st in pipeline]
    if any(l not in FRAGMENT for l in labs):
        return False
    sums = [i for i, l in enumerate(labs) if l.startswith("summarize")]
    if len(sums) > 1:
        return False
    grouped = False
    for i, l in enumerate(labs):
        if l.startswith("group_by"):
            if grouped or sums and i > sums[0]:
                return False
            grouped = True
        elif l.startswith("summarize"):
            if not grouped:
                return False
            grouped = False
        elif l.startswith("slice_head") and i != len(labs) - 1:
            return False
    return not grouped or not sums or True


def plan(pipeline):
    """static bookkeeping: (applicable, ordered_at_end, sliced_unordered) - a slice_head applied while the row order is
    not fixed by an arrange on the unique key selects an unspecified subset (only the row count is compared then)"""
    ordered, unique, loose = False, True, False
    for st in pipeline:
        if st.uniq and not unique:
            return None
        if st.label.startswith("slice_head") and not ordered:
            loose = True
        if st.effect == "sort":
            ordered = True
        elif st.effect == "destroy" or st.label == "alias":
            # a subquery boundary: SQL does not carry an inner ORDER BY to the outer query
            ordered = False
        if st.breaks:
            unique = False
    return ordered, loose


def run_pipeline(backend, pipeline, kind="mixed", ctx=None, stop_on_hidden=True):
    ctx = ctx or Ctx(backend, kind)
    x = ctx.t
    with warnings.catch_warnings():
        warnings.simplefilter("ignore")
        for i, st in enumerate(pipeline):
            if not _has(x, *st.needs):
                return ("n/a", st.label)
            try:
                y = st.fn(x, ctx)
            except OK_REFUSALS as e:
                return ("refused", type(e).__name__, i)
            except (ValueError, TypeError, pdt.errors.ColumnNotFoundError, pdt.errors.FunctionTypeError, pdt.errors.DataTypeError) as e:
                return ("rejected", f"{st.label}: {type(e).__name__}", i)
            except Exception as e:  # noqa: BLE001
                return ("error", f"{st.label} raises the internal error {type(e).__name__}: {str(e)[:100]}")
            if y is None:
                return ("n/a", st.label)
            x = y
            if stop_on_hidden and any(uid not in x._cache.uuid_to_name for uid in x._cache.partition_by):
                return ("hidden-group-col", st.label)
        try:
            df = x >> pdt.ungroup() >> pdt.export(pdt.Polars())
        except OK_REFUSALS as e:
            return ("refused", type(e).__name__, len(pipeline))
        except Exception as e:  # noqa: BLE001
            return ("error", f"{type(e).__name__}: {str(e)[:160]}")
    return ("ok", list(df.columns), [tuple(r) for r in df.rows()], [c.name for c in x])


def norm_rows(rows, ordered):
    def key(r):
        return tuple((v is None, str(type(v).__name__) if v is not None else "", v if v is not None else 0) for v in r)

    def nv(v):
        if isinstance(v, bool):
            return v
        if isinstance(v, float):
            return round(v, 9)
        if isinstance(v, int):
            return float(v)
        return v

    rows = [tuple(nv(v) for v in r) for r in rows]
    return rows if ordered else sorted(rows, key=key)


def compare(pipeline, kind="mixed", carve=()):
    """None if not applicable, else (verdict, text): verdict in ok | refused | mismatch"""
    pl_ = plan(pipeline)
    if pl_ is None:
        return None
    ordered, loose = pl_
    rp = run_pipeline("polars", pipeline, kind)
    if rp[0] == "n/a":
        return None
    if rp[0] == "hidden-group-col":
        if "hidden_group_col" in carve:
            return None
        rp = run_pipeline("polars", pipeline, kind, stop_on_hidden=False)
    rs = run_pipeline("sqlite", pipeline, kind, stop_on_hidden=False)
    lab = " >> ".join(st.label for st in pipeline)
    if rp[0] in ("rejected",):
        if rs[0] == "refused" and rs[2] < rp[2]:
            return ("refused", rs[1])  # the SQL side refused an earlier step (permitted)
        if rs[0] != "rejected" or rs[1] != rp[1]:
            return ("mismatch", f"[{kind}] {lab}: polars rejects ({rp[1]}), sqlite: {rs[:2]}")
        return ("rejected", "")
    if rp[0] != "ok":
        return ("mismatch", f"[{kind}] {lab}: polars export fails: {rp[1]}")
    if rs[0] == "refused":
        if in_fragment(pipeline):
            return ("mismatch", f"[{kind}] {lab}: SQL refuses the pipeline ({rs[1]}) although it consists only of element-wise mutate / filter, select, rename, arrange, one grouped summarize and a final slice_head (C08/S5: these never need a subquery)")
        return ("refused", rs[1])
    if rs[0] != "ok":
        return ("mismatch", f"[{kind}] {lab}: polars ok, sqlite: {rs[0]} {rs[1]}")
    if rp[1] != rs[1]:
        return ("mismatch", f"[{kind}] {lab}: column names/order differ: polars {rp[1]} sqlite {rs[1]}")
    if rs[3] != rs[1]:
        return ("mismatch", f"[{kind}] {lab}: SQLite exports the columns {rs[1]}, the table reports {rs[3]}")
    if rp[3] != rp[1]:
        return ("mismatch", f"[{kind}] {lab}: exported names {rp[1]} differ from the table's columns {rp[3]}")
    if loose:
        # a slice_head under an unspecified row order selects an unspecified subset: only the names are comparable
        return ("ok", "")
    a, b = norm_rows(rp[2], ordered), norm_rows(rs[2], ordered)
    if a != b:
        d = next((i for i, (x, y) in enumerate(zip(a, b)) if x != y), min(len(a), len(b)))
        return ("mismatch", f"[{kind}] {lab}: rows differ ({'sequence' if ordered else 'multiset'}; {len(a)} vs {len(b)} rows); first difference at {d}: polars {a[d] if d < len(a) else None} sqlite {b[d] if d < len(b) else None}")
    return ("ok", "")
