"""Static frame (modifies-clause) checker over the real source ASTs.

For a function under contract, every heap write in its body

    x.attr = v | x.attr op= v | e[k] = v | del e[k] | e.<mutating method>(..) | name op= v (in place)
    | call of a callee whose contract says it modifies an argument

must target an object that is *fresh in this activation* or a path listed in the function's
`modifies` clause (sidecar: pdtv/contracts_frames.py).  Freshness is tracked per local variable
and per (variable, field):

    fresh    allocated here: literal / comprehension / constructor call / a + b, a | b on builtins /
             result of a callee whose contract says `returns_fresh`
    shallow  result of copy.copy(x): the shell is fresh, its fields still alias x's fields until they
             are re-bound to a fresh value in this activation
    imm      immutable value (constants, tuples, str/int/bool-annotated parameters, comparisons ..)
    old      anything else (parameters, attribute / subscript reads, unknown call results)

Branches are analysed separately and joined with the weaker classification.  Loops are
analysed once (the classification is monotone: re-binding inside a loop can only be observed after it).
Limits (stated in the evidence): writes through aliases created by unknown calls or by storing an
old object inside a fresh container are not seen; dynamic attribute access (setattr) is reported as
a write to an unknown target.
"""

from __future__ import annotations

import ast
import copy as _copy

MUTATORS = {"append", "extend", "update", "clear", "pop", "insert", "sort", "add", "discard", "remove", "setdefault", "popitem", "reverse", "__setitem__", "__delitem__", "difference_update", "intersection_update", "symmetric_difference_update"}
FRESH_CALLS = {"list", "dict", "set", "tuple", "sorted", "frozenset", "reversed", "deepcopy", "defaultdict", "OrderedDict", "Counter", "partial", "reduce"}
IMM_CALLS = {"len", "str", "int", "float", "bool", "isinstance", "issubclass", "hasattr", "getattr", "id", "hash", "repr", "type", "any", "all", "sum", "min", "max", "abs", "next", "iter", "enumerate", "zip", "range", "map", "filter", "print", "callable", "ordinal_suffix", "uuid1", "hex"}
IMM_ANN = {"str", "int", "bool", "float", "None", "bytes", "Literal", "UUID", "Ftype", "type"}
ORDER = {"imm": 4, "deep": 3, "fresh": 2, "shallow": 1, "old": 0}


def weaker(a, b):
    return a if ORDER[a] <= ORDER[b] else b


class Site:
    def __init__(self, lineno, what, target):
        self.lineno, self.what, self.target = lineno, what, target

    def __repr__(self):
        return f"L{self.lineno}: {self.what} -> {self.target}"


class FrameChecker:
    def __init__(self, fn_node: ast.FunctionDef, contract: dict, contracts: dict, qualname: str, line_offset=0):
        self.fn = fn_node
        self.contract = contract
        self.contracts = contracts
        self.qualname = qualname
        self.off = line_offset
        self.violations: list[Site] = []
        self.writes: list[Site] = []
        self.returns: list = []

    # ---- entry -------------------------------------------------------------------------------------
    def run(self):
        env = {}
        fresh_fields = set()
        a = self.fn.args
        for arg in a.posonlyargs + a.args + a.kwonlyargs + ([a.vararg] if a.vararg else []) + ([a.kwarg] if a.kwarg else []):
            k = "old"
            if arg.annotation is not None and self._imm_ann(arg.annotation):
                k = "imm"
            env[arg.arg] = k
        if a.kwarg:
            env[a.kwarg.arg] = "fresh"  # **kwargs is a dict created by the call
        if a.vararg:
            env[a.vararg.arg] = "imm"  # *args is a tuple
        for name in self.contract.get("modifies", ()):
            if "." not in name:
                env[name] = "fresh"  # the contract allows writes to this parameter
        self._block(self.fn.body, env, fresh_fields)
        return self.violations

    def _imm_ann(self, ann):
        names = {n.id for n in ast.walk(ann) if isinstance(n, ast.Name)} | {n.attr for n in ast.walk(ann) if isinstance(n, ast.Attribute)}
        consts = {n.value for n in ast.walk(ann) if isinstance(n, ast.Constant)}
        return bool(names | consts) and all((n in IMM_ANN) for n in names) and all(c is None or isinstance(c, str) for c in consts)

    # ---- statements ---------------------------------------------------------------------------------
    def _block(self, stmts, env, ff):
        for s in stmts:
            self._stmt(s, env, ff)

    def _stmt(self, s, env, ff):
        if isinstance(s, ast.Assign):
            k = self._expr(s.value, env, ff)
            for t in s.targets:
                self._assign(t, s.value, k, env, ff, s.lineno)
        elif isinstance(s, ast.AnnAssign):
            if s.value is not None:
                k = self._expr(s.value, env, ff)
                self._assign(s.target, s.value, k, env, ff, s.lineno)
        elif isinstance(s, ast.AugAssign):
            vk = self._expr(s.value, env, ff)
            t = s.target
            inplace_op = isinstance(s.op, (ast.Add, ast.BitOr, ast.BitAnd, ast.Sub, ast.BitXor, ast.Mult))
            if isinstance(t, ast.Name) and not inplace_op:
                env[t.id] = "old" if not isinstance(s.op, ast.RShift) else "fresh"  # `x >>= verb` re-binds x to the verb's (fresh) result
            elif isinstance(t, ast.Name) and isinstance(s.value, ast.Constant) and isinstance(s.value.value, (int, float)) and not isinstance(s.value.value, bool):
                # `x += <number>`: x is a number (a container would raise TypeError), so this re-binds x and mutates nothing
                env[t.id] = "fresh"
            elif isinstance(t, ast.Name):
                k = env.get(t.id, "old")
                if k == "old":
                    self._write(s.lineno, f"in-place `{ast.unparse(s)}` on a value that is not fresh", ast.unparse(t))
                # after an in-place op on a fresh value it stays fresh; on imm a new value is bound
            elif isinstance(t, ast.Attribute):
                base = t.value
                if isinstance(base, ast.Name) and ((base.id, t.attr) in ff or env.get(base.id) == "deep"):
                    pass
                elif isinstance(base, ast.Name) and env.get(base.id) == "fresh" and self._ctor_fresh(base.id, env):
                    pass
                else:
                    self._write(s.lineno, f"in-place `{ast.unparse(s)}`: the object stored in `{ast.unparse(t)}` is shared with a pre-existing object", ast.unparse(t))
            elif isinstance(t, ast.Subscript):
                if self._expr(t.value, env, ff) not in ("fresh", "deep"):
                    self._write(s.lineno, f"`{ast.unparse(s)}` writes into a container that is not fresh", ast.unparse(t.value))
        elif isinstance(s, ast.Delete):
            for t in s.targets:
                if isinstance(t, ast.Subscript) and self._expr(t.value, env, ff) not in ("fresh", "deep"):
                    self._write(s.lineno, f"`{ast.unparse(s)}` deletes from a container that is not fresh", ast.unparse(t.value))
                elif isinstance(t, ast.Attribute) and self._expr(t.value, env, ff) not in ("fresh", "shallow"):
                    self._write(s.lineno, f"`{ast.unparse(s)}` deletes an attribute of an object that is not fresh", ast.unparse(t.value))
        elif isinstance(s, ast.Expr):
            self._expr(s.value, env, ff)
        elif isinstance(s, (ast.If, ast.While)):
            self._expr(s.test, env, ff)
            e1, f1 = dict(env), set(ff)
            e2, f2 = dict(env), set(ff)
            self._block(s.body, e1, f1)
            self._block(s.orelse, e2, f2)
            self._join(env, ff, e1, f1, e2, f2)
        elif isinstance(s, ast.For):
            ik = self._expr(s.iter, env, ff)
            self._bind_target(s.target, "old" if ik != "imm" else "old", env)
            if isinstance(s.iter, ast.Call) and isinstance(s.iter.func, ast.Name) and s.iter.func.id in ("range", "enumerate") and isinstance(s.target, ast.Name):
                env[s.target.id] = "imm"
            e1, f1 = dict(env), set(ff)
            self._block(s.body, e1, f1)
            self._block(s.orelse, e1, f1)
            self._join(env, ff, e1, f1, dict(env), set(ff))
        elif isinstance(s, ast.Try):
            e1, f1 = dict(env), set(ff)
            self._block(s.body, e1, f1)
            for h in s.handlers:
                eh, fh = dict(env), set(ff)
                if h.name:
                    eh[h.name] = "fresh"
                self._block(h.body, eh, fh)
                self._join(e1, f1, e1, f1, eh, fh)
            self._block(s.orelse, e1, f1)
            self._block(s.finalbody, e1, f1)
            env.clear()
            env.update(e1)
            ff.clear()
            ff.update(f1)
        elif isinstance(s, ast.With):
            for it in s.items:
                k = self._expr(it.context_expr, env, ff)
                if it.optional_vars is not None:
                    self._bind_target(it.optional_vars, k, env)
            self._block(s.body, env, ff)
        elif isinstance(s, ast.Return):
            if s.value is not None:
                self.returns.append((s.lineno + self.off, self._expr(s.value, env, ff)))
        elif isinstance(s, (ast.Raise, ast.Assert)):
            for c in ast.iter_child_nodes(s):
                if isinstance(c, ast.expr):
                    self._expr(c, env, ff)
        elif isinstance(s, (ast.FunctionDef, ast.AsyncFunctionDef)):
            # nested function: analysed as part of the enclosing activation (closure variables keep their kind)
            sub = FrameChecker(s, dict(self.contract), self.contracts, self.qualname + "." + s.name, line_offset=self.off)
            sub.writes = self.writes
            e2 = dict(env)
            a = s.args
            for arg in a.posonlyargs + a.args + a.kwonlyargs:
                e2[arg.arg] = "imm" if (arg.annotation is not None and self._imm_ann(arg.annotation)) else "old"
            sub.violations = self.violations
            sub._block(s.body, e2, set(ff))
            env[s.name] = "imm"
        elif isinstance(s, (ast.Import, ast.ImportFrom, ast.Pass, ast.Break, ast.Continue, ast.Global, ast.Nonlocal, ast.ClassDef)):
            pass
        else:
            for c in ast.iter_child_nodes(s):
                if isinstance(c, ast.expr):
                    self._expr(c, env, ff)

    def _join(self, env, ff, e1, f1, e2, f2):
        keys = set(e1) | set(e2)
        for k in keys:
            if k not in env and (k not in e1 or k not in e2):
                # bound in one branch only: any later use is on that branch
                env[k] = e1.get(k, e2.get(k))
                continue
            a, b = e1.get(k, env.get(k, "old")), e2.get(k, env.get(k, "old"))
            env[k] = weaker(a, b)
        ff.clear()
        ff.update(f1 & f2)

    def _ctor_fresh(self, name, env):
        return False

    def _bind_target(self, t, k, env):
        if isinstance(t, ast.Name):
            env[t.id] = k
        elif isinstance(t, (ast.Tuple, ast.List)):
            for e in t.elts:
                self._bind_target(e, "old" if k != "imm" else "imm", env)
        elif isinstance(t, ast.Starred):
            self._bind_target(t.value, "fresh", env)

    def _assign(self, t, value, k, env, ff, lineno):
        if isinstance(t, ast.Name):
            env[t.id] = k
            # forget field facts of the re-bound variable
            for p in [p for p in ff if p[0] == t.id]:
                ff.discard(p)
            if k == "fresh" and isinstance(value, ast.Call):
                ff.add((t.id, "*ctor"))
            if isinstance(value, ast.ListComp) and self._expr(value.elt, dict(env, **{n.id: "old" for g in value.generators for n in ast.walk(g.target) if isinstance(n, ast.Name)}), ff) in ("fresh", "shallow", "deep"):
                ff.add((t.id, "*elems"))
            if isinstance(value, ast.List) and value.elts and all(self._expr(x, env, ff) in ("fresh", "shallow", "deep") for x in value.elts):
                ff.add((t.id, "*elems"))
        elif isinstance(t, (ast.Tuple, ast.List)):
            if isinstance(value, (ast.Tuple, ast.List)) and len(value.elts) == len(t.elts):
                for te, ve in zip(t.elts, value.elts):
                    self._assign(te, ve, self._expr(ve, env, ff), env, ff, lineno)
            else:
                sub = self._tuple_kinds(value, len(t.elts))
                for i, te in enumerate(t.elts):
                    self._assign(te, value, sub[i] if sub else ("imm" if k == "imm" else "old"), env, ff, lineno)
        elif isinstance(t, ast.Attribute):
            base = t.value
            bk = self._expr(base, env, ff)
            if bk in ("fresh", "shallow", "deep"):
                if isinstance(base, ast.Name):
                    if k in ("fresh", "imm"):
                        ff.add((base.id, t.attr))
                    else:
                        ff.discard((base.id, t.attr))
            elif isinstance(base, ast.Attribute) and isinstance(base.value, ast.Name) and (base.value.id, base.attr) in ff:
                pass  # x.a.b = v where x.a was re-bound to a fresh object here
            else:
                self._write(lineno, f"`{ast.unparse(t)} = ...` sets an attribute of an object that is not fresh", ast.unparse(t))
        elif isinstance(t, ast.Subscript):
            if self._expr(t.value, env, ff) not in ("fresh", "deep"):
                self._write(lineno, f"`{ast.unparse(t)} = ...` writes into a container that is not fresh", ast.unparse(t.value))
        elif isinstance(t, ast.Starred):
            self._assign(t.value, value, "fresh", env, ff, lineno)

    def _tuple_kinds(self, value, n):
        """kinds of the components of a call result according to the callee's contract"""
        if isinstance(value, ast.Call):
            c = self._callee_contract(value)
            if c and c.get("returns_fresh_tuple"):
                return ["deep"] * n
            if c and c.get("returns_arg0_and_old") and value.args:
                return [self._last_arg0_kind, "old"][:n] + ["old"] * max(0, n - 2)
        return None

    def _write(self, lineno, what, target):
        site = Site(lineno + self.off, what, target)
        allowed = self.contract.get("modifies", ())
        root = target.split(".")[0].split("[")[0]
        if any(target == a or target.startswith(a + ".") or target.startswith(a + "[") or (root == a and "." not in a) for a in allowed):
            self.writes.append(site)
            return
        self.violations.append(site)

    # ---- expressions ---------------------------------------------------------------------------------
    def _callee_contract(self, call):
        f = call.func
        name = f.id if isinstance(f, ast.Name) else (f.attr if isinstance(f, ast.Attribute) else None)
        return self.contracts.get("callee:" + name) if name else None

    def _expr(self, e, env, ff):
        if e is None:
            return "imm"
        if isinstance(e, ast.Constant):
            return "imm"
        if isinstance(e, ast.Name):
            return env.get(e.id, "old")
        if isinstance(e, (ast.List, ast.Dict, ast.Set)):
            for c in ast.iter_child_nodes(e):
                if isinstance(c, ast.expr):
                    self._expr(c, env, ff)
            return "fresh"
        if isinstance(e, (ast.ListComp, ast.SetComp, ast.DictComp, ast.GeneratorExp)):
            e2 = dict(env)
            for g in e.generators:
                self._expr(g.iter, e2, ff)
                self._bind_target(g.target, "old", e2)
                for c in g.ifs:
                    self._expr(c, e2, ff)
            for c in ([e.key, e.value] if isinstance(e, ast.DictComp) else [e.elt]):
                self._expr(c, e2, ff)
            return "fresh"
        if isinstance(e, ast.Tuple):
            ks = [self._expr(c, env, ff) for c in e.elts]
            return "imm"
        if isinstance(e, (ast.JoinedStr, ast.FormattedValue, ast.Compare, ast.Lambda)):
            for c in ast.iter_child_nodes(e):
                if isinstance(c, ast.expr) and not isinstance(e, ast.Lambda):
                    self._expr(c, env, ff)
            return "imm"
        if isinstance(e, ast.UnaryOp):
            self._expr(e.operand, env, ff)
            return "imm"
        if isinstance(e, ast.BoolOp):
            ks = [self._expr(c, env, ff) for c in e.values]
            k = ks[0]
            for x in ks[1:]:
                k = weaker(k, x)
            return k
        if isinstance(e, ast.BinOp):
            a, b = self._expr(e.left, env, ff), self._expr(e.right, env, ff)
            return "imm" if (a == "imm" and b == "imm") else "fresh"
        if isinstance(e, ast.IfExp):
            self._expr(e.test, env, ff)
            return weaker(self._expr(e.body, env, ff), self._expr(e.orelse, env, ff))
        if isinstance(e, ast.NamedExpr):
            k = self._expr(e.value, env, ff)
            env[e.target.id] = k
            return k
        if isinstance(e, ast.Attribute):
            bk = self._expr(e.value, env, ff)
            if isinstance(e.value, ast.Name) and (e.value.id, e.attr) in ff:
                return "fresh"
            if bk == "imm":
                return "imm"
            if bk == "deep":
                return "deep"
            return "old"
        if isinstance(e, ast.Subscript):
            bk = self._expr(e.value, env, ff)
            self._expr(e.slice, env, ff)
            if isinstance(e.slice, ast.Slice) and bk in ("fresh", "old", "shallow", "deep"):
                return "fresh" if bk != "imm" else "imm"  # slicing a builtin sequence copies
            if isinstance(e.value, ast.Name) and (e.value.id, "*elems") in ff:
                return "shallow"  # element of a list built here from copies / fresh objects
            if bk == "deep":
                return "deep"
            return "imm" if bk == "imm" else "old"
        if isinstance(e, ast.Starred):
            return self._expr(e.value, env, ff)
        if isinstance(e, ast.Call):
            return self._call(e, env, ff)
        if isinstance(e, (ast.Await, ast.Yield, ast.YieldFrom)):
            for c in ast.iter_child_nodes(e):
                if isinstance(c, ast.expr):
                    self._expr(c, env, ff)
            return "old"
        for c in ast.iter_child_nodes(e):
            if isinstance(c, ast.expr):
                self._expr(c, env, ff)
        return "old"

    _last_arg0_kind = "old"

    def _call(self, e, env, ff):
        f = e.func
        arg_kinds = [self._expr(a, env, ff) for a in e.args]
        if arg_kinds:
            self._last_arg0_kind = arg_kinds[0]
        for kw in e.keywords:
            self._expr(kw.value, env, ff)
        fname = f.id if isinstance(f, ast.Name) else (f.attr if isinstance(f, ast.Attribute) else None)
        # mutating method on a receiver
        if isinstance(f, ast.Attribute):
            rk = self._expr(f.value, env, ff)
            is_mut = f.attr in MUTATORS
            if f.attr == "update" and ast.unparse(f.value).endswith("_cache"):
                is_mut = False  # Cache.update is a pure method (own frame obligation), not dict.update
            if f.attr == "sort" and e.args:
                is_mut = False  # list.sort takes no positional argument; this is LazyFrame.sort (returns a new frame)
            if is_mut and rk not in ("fresh", "imm", "deep"):
                self._write(e.lineno, f"`{ast.unparse(e)[:80]}` mutates its receiver, which is not fresh", ast.unparse(f.value))
            c = self.contracts.get("method:" + f.attr)
            if c and c.get("modifies_self") and rk not in ("fresh", "shallow", "imm", "deep"):
                self._write(e.lineno, f"`{ast.unparse(e)[:80]}`: `{f.attr}` modifies its receiver (callee contract), which is not fresh", ast.unparse(f.value))
            if f.attr == "copy" and isinstance(f.value, ast.Name) and f.value.id == "copy":
                return "shallow"
            if f.attr == "deepcopy":
                return "fresh"
            if f.attr == "copy" and not e.args:
                return "fresh"
            if f.attr in ("items", "keys", "values", "get"):
                return "old" if rk != "imm" else "imm"
            if f.attr in ("union", "intersection", "difference", "symmetric_difference", "join", "format", "split", "strip", "lower", "replace", "isdisjoint", "issubset", "count", "index", "startswith", "endswith"):
                return "fresh" if f.attr in ("union", "intersection", "difference", "symmetric_difference", "split") else "imm"
        cc = self._callee_contract(e)
        if cc:
            for i in cc.get("modifies_args", ()):
                if self.contract.get("tree_owner"):
                    continue
                if i < len(arg_kinds) and arg_kinds[i] not in ("fresh", "shallow", "imm", "deep"):
                    self._write(e.lineno, f"`{ast.unparse(e)[:80]}`: the callee modifies argument {i} (callee contract), which is not fresh", ast.unparse(e.args[i]))
            if cc.get("returns_fresh"):
                return "fresh"
        if isinstance(f, ast.Name):
            if f.id == "setattr":
                k = arg_kinds[0] if arg_kinds else "old"
                if k not in ("fresh", "shallow"):
                    self._write(e.lineno, f"`{ast.unparse(e)[:80]}` sets an attribute of an object that is not fresh", ast.unparse(e.args[0]) if e.args else "?")
                return "imm"
            if f.id in FRESH_CALLS:
                return "fresh"
            if f.id in IMM_CALLS:
                return "imm"
            if f.id[:1].isupper():
                return "fresh"  # constructor
        if isinstance(f, ast.Attribute) and f.attr[:1].isupper():
            return "fresh"  # module.Class(...)
        return "old"
