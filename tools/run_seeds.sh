#!/bin/sh
# usage: tools/run_seeds.sh [seed-dir ...]  - applies each seeded change to /repo, runs the quick check of the
# property it breaks (or the checks listed in $CHECKS), reverts. Prints one line per seed.
cd "$(dirname "$0")/.."
[ $# -gt 0 ] || set -- seeded/*/
for sd in "$@"; do
  sd=${sd%/}; id=$(basename "$sd"); prop=${id%%-*}
  git -C /repo diff --quiet || { echo "/repo is dirty, refusing"; exit 3; }
  git -C /repo apply "$(pwd)/$sd/patch.diff" || { echo "$id: patch does not apply"; continue; }
  for p in ${CHECKS:-$prop}; do
    out=$(./check $p --tier ${TIER:-quick} --no-evidence 2>&1); rc=$?
    nv=$(echo "$out" | grep -c '^VIOLATION')
    echo "$id check=$p rc=$rc violations=$nv :: $(echo "$out" | grep '^VIOLATION' | head -2 | cut -c1-160 | tr '\n' ' ')"
  done
  git -C /repo checkout -- .
done
