#!/bin/sh
# like run_seeds.sh, but applies each seeded change in a scratch worktree of /repo HEAD and points the checks at it
# (PDTV_REPO / PYTHONPATH), so /repo's working tree is never touched and several seeds can be tested side by side.
# usage: CHECKS="C08 C01" tools/run_seeds_wt.sh seeded/C08-b ...
cd "$(dirname "$0")/.."
for sd in "$@"; do
  sd=${sd%/}; id=$(basename "$sd"); prop=${id%%-*}
  WT=$(mktemp -d /tmp/seedrun-XXXXXX); rmdir "$WT"
  git -C /repo worktree add -q --detach "$WT" HEAD || { echo "$id: cannot create worktree"; continue; }
  if git -C "$WT" apply "$(pwd)/$sd/patch.diff"; then
    for p in ${CHECKS:-$prop}; do
      out=$(PDTV_REPO=$WT PYTHONPATH=$WT/src ./check $p --tier ${TIER:-quick} --no-evidence 2>&1); rc=$?
      nv=$(echo "$out" | grep -c '^VIOLATION')
      echo "$id check=$p rc=$rc violations=$nv :: $(echo "$out" | grep '^VIOLATION' | head -2 | cut -c1-160 | tr '\n' ' ')"
    done
  else
    echo "$id: patch does not apply"
  fi
  git -C /repo worktree remove --force "$WT"
done
