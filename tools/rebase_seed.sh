#!/bin/sh
# usage: tools/rebase_seed.sh <seed-dir>  - re-creates patch.diff against the current /repo HEAD (3-way), keeps patch.orig
SD=$(realpath "$1"); WT=$(mktemp -d /tmp/seedrb-XXXXXX); rmdir "$WT"
git -C /repo worktree add -q --detach "$WT" HEAD || exit 3
cd "$WT" && if git apply -3 "$SD/patch.diff" 2>/dev/null; then
  [ -f "$SD/patch.orig" ] || cp "$SD/patch.diff" "$SD/patch.orig"
  git diff HEAD -- src > "$SD/patch.diff"; echo "rebased $(basename $SD)"
else echo "cannot rebase $(basename $SD)"; fi
cd / && git -C /repo worktree remove --force "$WT"
