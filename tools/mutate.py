"""Mutation self-test of the checks (not a registered check; results are written to out/mutants/ and summarised in
DESIGN.md).  For each target function of /repo a set of small syntactic mutants is generated (comparison / boolean /
arithmetic operator swaps, constant flips, negated conditions).  A mutant that keeps the 64 baseline tests green is run
against the quick checks that have the mutated function under contract, in a scratch worktree (PDTV_REPO), never in /repo.

usage:  tools/mutate.py gen            -> out/mutants/m<NNN>.json (+ .diff)
        tools/mutate.py run [N_PAR]    -> out/mutants/results.jsonl
        tools/mutate.py report
"""

from __future__ import annotations

import ast
import json
import os
import random
import subprocess
import sys
import tempfile

VERIF = os.path.dirname(os.path.dirname(os.path.abspath(__file__)))
OUT = os.path.join(VERIF, "out", "mutants")
SRC = "src/pydiverse/transform/_internal"

# file -> (functions (qualified by class where needed), checks that have them under contract)
TARGETS = {
    f"{SRC}/pipe/cache.py": (["Cache.update", "Cache.requires_subquery", "Cache.from_ast", "transfer_col_references"], ["C11", "C08", "C06", "C07", "C16"]),
    f"{SRC}/backend/polars.py": (["compile_ast", "compile_col_expr", "merge_desc_nulls_last", "compile_order", "rename_overwritten_cols", "unify_operand_types"], ["C05", "C02", "C06", "C07", "C04", "C01"]),
    f"{SRC}/backend/sql.py": (["SqlImpl.compile_ast", "SqlImpl.compile_query", "SqlImpl.compile_col_expr", "SqlImpl.compile_order", "dedup_order_by", "with_default_arrange", "SqlImpl.export"], ["C02", "C08", "C05", "C06", "C07", "C20", "C01"]),
    f"{SRC}/pipe/verbs.py": (["join", "_union_impl", "rename", "select", "mutate", "summarize", "slice_head", "preprocess_arg", "export", "group_by", "collect"], ["C06", "C07", "C14", "C11", "C02", "C20", "C16"]),
    f"{SRC}/pipe/pipeable.py": (["check_subquery", "modify_ast"], ["C08", "C19", "C16"]),
    f"{SRC}/tree/types.py": (["converts_to", "conversion_cost", "lca_type", "is_subtype"], ["C13", "C12", "C17", "C19"]),
    f"{SRC}/ops/signature.py": (["best_signature_match", "sig_distance", "SignatureTrie.best_match", "SignatureTrie.insert"], ["C13", "C12", "C19"]),
    f"{SRC}/tree/col_expr.py": (["Cast.is_valid_cast", "Cast.dtype", "ColFn.dtype", "ColFn.ftype", "CaseExpr.dtype", "CaseExpr.ftype", "Order.from_col_expr", "ColExpr.map", "get_expr_as_table", "ColFn.__init__"], ["C17", "C13", "C14", "C05", "C03", "C04", "C20"]),
    f"{SRC}/tree/verbs.py": (["Alias._clone", "Join._clone", "Union._clone", "Mutate._clone", "Summarize._clone", "Verb._clone"], ["C16", "C09", "C06", "C07"]),
    f"{SRC}/backend/sqlite.py": (["SqliteImpl.compile_cast", "_least", "_greatest"], ["C17", "C03", "C18", "C12"]),
    f"{SRC}/backend/table_impl.py": (["split_join_cond", "get_left_right_on"], ["C06", "C09", "C01"]),
}

CMP = {ast.Eq: "!=", ast.NotEq: "==", ast.Lt: "<=", ast.LtE: "<", ast.Gt: ">=", ast.GtE: ">", ast.Is: "is not", ast.IsNot: "is", ast.In: "not in", ast.NotIn: "in"}
CMP_TXT = {ast.Eq: "==", ast.NotEq: "!=", ast.Lt: "<", ast.LtE: "<=", ast.Gt: ">", ast.GtE: ">=", ast.Is: "is", ast.IsNot: "is not", ast.In: "in", ast.NotIn: "not in"}


def functions_of(tree, names):
    want = set(names)
    out = []
    for node in tree.body:
        if isinstance(node, ast.FunctionDef) and node.name in want:
            out.append((node.name, node))
        if isinstance(node, ast.ClassDef):
            for sub in node.body:
                if isinstance(sub, ast.FunctionDef) and f"{node.name}.{sub.name}" in want:
                    out.append((f"{node.name}.{sub.name}", sub))
        if isinstance(node, ast.With):  # @impl functions live inside `with ... impl_manager as impl:` blocks
            for sub in node.body:
                if isinstance(sub, ast.FunctionDef) and sub.name in want:
                    out.append((sub.name, sub))
    return out


def seg(lines, node):
    """source text of a single-line node"""
    if node.lineno != node.end_lineno:
        return None
    return lines[node.lineno - 1][node.col_offset : node.end_col_offset]


def mutants_of(path, src, fname, fn):
    lines = src.split("\n")
    res = []

    def repl(lineno, a, b, new, desc):
        ln = lines[lineno - 1]
        res.append({"file": path, "function": fname, "line": lineno, "desc": desc, "old": ln, "new": ln[:a] + new + ln[b:]})

    for node in ast.walk(fn):
        if isinstance(node, ast.Compare) and len(node.ops) == 1 and node.lineno == node.end_lineno:
            l, r = node.left, node.comparators[0]
            if l.end_lineno == r.lineno == node.lineno:
                a, b = l.end_col_offset, r.col_offset
                mid = lines[node.lineno - 1][a:b]
                op = type(node.ops[0])
                if op in CMP and CMP_TXT[op] in mid:
                    repl(node.lineno, a, b, mid.replace(CMP_TXT[op], CMP[op], 1), f"{CMP_TXT[op]} -> {CMP[op]}")
        elif isinstance(node, ast.BoolOp) and node.lineno == node.end_lineno and len(node.values) == 2:
            l, r = node.values
            a, b = l.end_col_offset, r.col_offset
            mid = lines[node.lineno - 1][a:b]
            old, new = ("and", "or") if isinstance(node.op, ast.And) else ("or", "and")
            if f" {old} " in mid:
                repl(node.lineno, a, b, mid.replace(f" {old} ", f" {new} ", 1), f"{old} -> {new}")
        elif isinstance(node, ast.BinOp) and isinstance(node.op, (ast.Add, ast.Sub)) and node.lineno == node.end_lineno:
            l, r = node.left, node.right
            if l.end_lineno == r.lineno == node.lineno and not isinstance(l, ast.Constant) or isinstance(getattr(l, "value", None), (int, float)):
                a, b = l.end_col_offset, r.col_offset
                mid = lines[node.lineno - 1][a:b]
                old, new = ("+", "-") if isinstance(node.op, ast.Add) else ("-", "+")
                if old in mid and not isinstance(r, ast.Constant) or isinstance(getattr(r, "value", None), (int, float)):
                    repl(node.lineno, a, b, mid.replace(old, new, 1), f"{old} -> {new}")
        elif isinstance(node, ast.Constant) and node.lineno == node.end_lineno:
            if (node.value is True or node.value is False) and "strict=" not in lines[node.lineno - 1]:
                repl(node.lineno, node.col_offset, node.end_col_offset, str(not node.value), f"{node.value} -> {not node.value}")
            elif isinstance(node.value, int) and not isinstance(node.value, bool) and node.value in (0, 1, 2):
                nv = {0: 1, 1: 0, 2: 1}[node.value]
                repl(node.lineno, node.col_offset, node.end_col_offset, str(nv), f"{node.value} -> {nv}")
        elif isinstance(node, ast.UnaryOp) and isinstance(node.op, ast.Not) and node.lineno == node.end_lineno:
            t = seg(lines, node.operand)
            if t is not None:
                repl(node.lineno, node.col_offset, node.end_col_offset, f"({t})", "not x -> x")
        elif isinstance(node, (ast.If, ast.IfExp)) and node.test.lineno == node.test.end_lineno and not isinstance(node.test, ast.UnaryOp):
            t = seg(lines, node.test)
            if t is not None and "isinstance" not in t:
                repl(node.test.lineno, node.test.col_offset, node.test.end_col_offset, f"not ({t})", "negated condition")
    return res


def gen(per_function=6, seed=1, start=0, skip_files=()):
    os.makedirs(OUT, exist_ok=True)
    rnd = random.Random(seed)
    n = start
    for path, (names, checks) in TARGETS.items():
        if path in skip_files:
            continue
        src = open(os.path.join("/repo", path)).read()
        tree = ast.parse(src)
        found = functions_of(tree, names)
        missing = set(names) - {a for a, _ in found}
        if missing:
            print("not found:", path, sorted(missing))
        for fname, fn in found:
            ms = mutants_of(path, src, fname, fn)
            rnd.shuffle(ms)
            for m in ms[:per_function]:
                m["id"] = f"m{n:03d}"
                m["checks"] = checks
                json.dump(m, open(os.path.join(OUT, m["id"] + ".json"), "w"), indent=1)
                n += 1
    print(n, "mutants")


def run_one(mid):
    m = json.load(open(os.path.join(OUT, mid + ".json")))
    wt = tempfile.mkdtemp(prefix="mut-", dir="/tmp")
    os.rmdir(wt)
    res = {"id": mid, "file": m["file"], "function": m["function"], "line": m["line"], "desc": m["desc"], "old": m["old"].strip(), "new": m["new"].strip()}
    try:
        subprocess.run(["git", "-C", "/repo", "worktree", "add", "-q", "--detach", wt, "HEAD"], check=True)
        p = os.path.join(wt, m["file"])
        lines = open(p).read().split("\n")
        if lines[m["line"] - 1] != m["old"]:
            res["verdict"] = "stale"
            return res
        lines[m["line"] - 1] = m["new"]
        open(p, "w").write("\n".join(lines))
        env = dict(os.environ, PYTHONPATH=os.path.join(wt, "src"), PDTV_REPO=wt)
        t = subprocess.run(["/venv/bin/python", "-m", "pytest", "-q", "-p", "no:cacheprovider", "--timeout=900", "tests/test_polars_table.py", "tests/test_core.py", "--deselect", "tests/test_polars_table.py::TestPolarsLazyImpl::test_duckdb_execution"], cwd=wt, env=env, capture_output=True, text=True)
        tail = t.stdout.strip().split("\n")[-1] if t.stdout.strip() else ""
        if not tail.startswith("62 passed"):
            res["verdict"] = "killed-by-tests"
            res["tests"] = tail[-120:]
            return res
        res["verdict"] = "survived"
        res["checks_run"] = []
        for c in m["checks"]:
            r = subprocess.run([os.path.join(VERIF, "check"), c, "--tier", "quick", "--no-evidence"], env=env, capture_output=True, text=True, cwd=VERIF)
            res["checks_run"].append((c, r.returncode))
            if r.returncode == 1 and "VIOLATION" in r.stdout:
                res["verdict"] = "killed"
                res["killed_by"] = c
                v = [ln for ln in r.stdout.split("\n") if ln.startswith("VIOLATION")]
                res["first_violation"] = v[0][:200] if v else ""
                res["replayed"] = not all(ln.rstrip().endswith("no-failing-input-found") for ln in v)
                break
            if r.returncode == 3:
                res.setdefault("tool_errors", []).append(c)
    finally:
        subprocess.run(["git", "-C", "/repo", "worktree", "remove", "--force", wt], capture_output=True)
    return res


def run(npar=3):
    from concurrent.futures import ThreadPoolExecutor

    ids = sorted(f[:-5] for f in os.listdir(OUT) if f.startswith("m") and f.endswith(".json"))
    done = set()
    rp = os.path.join(OUT, "results.jsonl")
    if os.path.exists(rp):
        done = {json.loads(line)["id"] for line in open(rp)}
    ids = [i for i in ids if i not in done]
    with ThreadPoolExecutor(npar) as ex, open(rp, "a") as out:
        for r in ex.map(run_one, ids):
            out.write(json.dumps(r) + "\n")
            out.flush()
            print(r["id"], r["verdict"], r.get("killed_by", ""), r["function"], r["desc"], flush=True)


def report():
    rs = [json.loads(line) for line in open(os.path.join(OUT, "results.jsonl"))]
    import collections

    c = collections.Counter(r["verdict"] for r in rs)
    print(dict(c))
    by = collections.Counter(r.get("killed_by") for r in rs if r["verdict"] == "killed")
    print("killed by:", dict(by))
    for r in rs:
        if r["verdict"] == "survived":
            print("SURVIVED", r["id"], r["file"].split("/")[-1], r["function"], f"L{r['line']}", r["desc"], "|", r["old"][:90], "=>", r["new"][:90])


if __name__ == "__main__":
    cmd = sys.argv[1]
    if cmd == "gen":
        gen(int(sys.argv[2]) if len(sys.argv) > 2 else 6)
    elif cmd == "run":
        run(int(sys.argv[2]) if len(sys.argv) > 2 else 3)
    else:
        report()
