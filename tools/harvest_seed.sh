#!/bin/sh
# usage: harvest_seed.sh <PROP> <root> <suffix>   e.g. harvest_seed.sh C08 /tmp/seed2 b
# copies the uncommitted change of <root>/wt-<PROP> into seeded/<PROP>-<suffix>/ (patch.diff, demo.py, notes.md, meta.json)
set -eu
P=$1; ROOT=$2; SFX=$3
cd "$(dirname "$0")/.."
WT=$ROOT/wt-$P; D=seeded/$P-$SFX
mkdir -p $D
git -C $WT diff -- src > $D/patch.diff
[ -s $D/patch.diff ] || { echo "$P: empty patch"; exit 1; }
cp $WT/seed_demo.py $D/demo.py
cp $WT/seed_notes.md $D/notes.md 2>/dev/null || echo "(no notes)" > $D/notes.md
python3 - "$P" "$SFX" "$D" <<'PY'
import json, sys
p, sfx, d = sys.argv[1:4]
json.dump({"seed": f"{p}-{sfx}", "breaks_property": p, "source": "independent sub-agent given only the property text and a scratch worktree (round 2)", "base_commit": open('/dev/stdin').read() if False else None,
           "notes": open(f"{d}/notes.md").read()[:1500]}, open(f"{d}/meta.json", "w"), indent=1)
PY
echo "$D: $(grep -c '^@@' $D/patch.diff) hunks in $(grep '^+++' $D/patch.diff | sed 's#+++ b/src/pydiverse/transform/_internal/##' | tr '\n' ' ')"
