"""prompt for an independent sub-agent that seeds one property-breaking change (given only the property text)"""
import json, sys
pid, root, avoid = sys.argv[1], sys.argv[2], (sys.argv[3] if len(sys.argv) > 3 else "")
for l in open('/verif/properties.jsonl'):
    p = json.loads(l)
    if p['id'] == pid:
        break
wt = f"{root}/wt-{pid}"
pr = f"{root}/pristine"
print(f"""You are helping to evaluate a verification effort by playing the role of a developer who introduces a subtle, realistic regression into the Python library pydiverse.transform (a pipe-based dataframe DSL that compiles to Polars or SQL).

Your private scratch git worktree of the library is at {wt} (work ONLY there; never touch /repo or /verif, and do not read anything under /verif). A pristine, read-only copy of the same revision is at {pr} (never modify it). To run code against your worktree use the interpreter /venv/bin/python with PYTHONPATH={wt}/src (the package is otherwise installed from /repo/src, so the PYTHONPATH override is essential: check with `PYTHONPATH={wt}/src /venv/bin/python -c "import pydiverse.transform as t; print(t.__file__)"`). There is no network. SQL can be executed offline with in-memory SQLite: `import sqlalchemy as sqa; eng = sqa.create_engine("sqlite://")`, write a polars frame with `df.write_database("t", eng)` (or pandas .to_sql), then `pdt.Table("t", pdt.SqlAlchemy(eng))`. Polars tables: `pdt.Table(dict_or_polars_frame, name="t")`.

The semantic property you must break:

TITLE: {p['title']}
STATEMENT: {p['statement']}
SCOPE (what it quantifies over): {p['quantifier']['text']}

Task: make ONE small change to the library source under {wt}/src (one or two sites; it may be two cooperating sites that each look fine alone) such that
 (a) the package still imports and the existing test-suite still passes exactly as before: run `cd {wt} && PYTHONPATH={wt}/src /venv/bin/python -m pytest -q -p no:cacheprovider --timeout=900 --continue-on-collection-errors -q 2>&1 | tail -5` before and after your change - 64 tests pass on the pristine tree (many others error/fail at fixture setup because databases are unreachable; that is expected and must be unchanged), and the same 64 must still pass after your change;
 (b) the property above is violated for some input;
 (c) the violation needs something specific to manifest - an unusual input, a particular multi-step sequence of verbs, a particular combination of types/flags, or two cooperating sites - not something ordinary use of the library would expose at once. Make it look like a plausible refactoring slip, optimisation, or off-by-one, not sabotage.
Do not pick a behaviour that is ALREADY broken on the pristine tree: your demonstration must pass on the pristine tree.
{('An earlier round already used this site, pick a DIFFERENT function / mechanism: ' + avoid) if avoid else ''}

Deliverables (all required):
 1. leave your change as uncommitted modifications in the worktree (do not commit), touching only files under src/;
 2. write {wt}/seed_demo.py - a small self-contained program (run as `PYTHONPATH=<tree>/src /venv/bin/python seed_demo.py`) that exits 0 on the pristine tree and exits non-zero (assertion failure) with your change, demonstrating the property violation through the public API;
 3. write {wt}/seed_notes.md - 5-10 lines: what you changed, why it breaks the property, what is needed for it to manifest, and the exact commands you ran with their outcome (test-suite before/after, demo before/after; to run the demo on the pristine code use PYTHONPATH={pr}/src). NEVER use `git stash`, `git checkout` of other trees or `git worktree` commands (other people are working in sibling worktrees).
Verify all of (a), (b) and the demo yourself before finishing. Your final message should be a 3-line summary (file+line changed, what manifests it, confirmation of the runs).""")
