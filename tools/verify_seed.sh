#!/bin/sh
# usage: verify_seed.sh <seed-dir>   (seed-dir contains patch.diff and demo.py)
# Confirms in a scratch worktree: patch applies, the 64 baseline tests still pass, demo fails with / passes without.
set -u
SD=$(realpath "$1"); ID=$(basename "$SD")
WT=$(mktemp -d /tmp/seedchk-XXXXXX); rmdir "$WT"
git -C /repo worktree add -q --detach "$WT" HEAD || exit 3
cd "$WT" && git apply "$SD/patch.diff" || { echo "$ID: patch does not apply"; git -C /repo worktree remove --force "$WT"; exit 3; }
PYTHONPATH=$WT/src /venv/bin/python -m pytest -q -p no:cacheprovider --timeout=900 --continue-on-collection-errors -rA 2>/dev/null | grep '^PASSED' | sort > /tmp/$ID.passed
NP=$(wc -l < /tmp/$ID.passed)
[ -f /tmp/baseline.passed ] || { cd /repo && /venv/bin/python -m pytest -q -p no:cacheprovider --timeout=900 --continue-on-collection-errors -rA 2>/dev/null | grep '^PASSED' | sort > /tmp/baseline.passed; cd "$WT"; }
if cmp -s /tmp/$ID.passed /tmp/baseline.passed; then SUITE=same; else SUITE=DIFFERENT; fi
cp "$SD/demo.py" "$WT/_demo.py"
PYTHONPATH=$WT/src /venv/bin/python _demo.py >/tmp/$ID.demo_patched 2>&1; RC_P=$?
PYTHONPATH=/repo/src /venv/bin/python _demo.py >/tmp/$ID.demo_clean 2>&1; RC_C=$?
echo "$ID: passed=$NP suite=$SUITE demo_patched_rc=$RC_P demo_clean_rc=$RC_C"
cd / && git -C /repo worktree remove --force "$WT"
rm -f /tmp/$ID.passed
