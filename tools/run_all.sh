#!/bin/sh
# runs the quick command of every claimed check, validates MANIFEST and evidence files
cd "$(dirname "$0")/.."
python3 tools/gen_manifest.py >/dev/null
rc=0
for p in $(python3 -c "import json;print(' '.join(c['property_id'] for c in json.load(open('MANIFEST.json'))['checks']))"); do
  out=$(./check $p --tier ${TIER:-quick} 2>&1); r=$?
  echo "$out" | grep -E "^(C[0-9]+ \[|VIOLATION|UNDECIDED|TOOL-ERROR)" | cut -c1-220
  [ $r -eq 0 ] || { echo "  !! $p exit $r"; rc=1; }
done
.venv/bin/python - <<'PY' || rc=1
import json, jsonschema, glob, sys
m = json.load(open('MANIFEST.json')); jsonschema.validate(m, json.load(open('/root/.vp/MANIFEST.schema.json')))
es = json.load(open('/root/.vp/EVIDENCE.schema.json')); bad = 0
for c in m['checks']:
    e = json.load(open(c['evidence_file'])); jsonschema.validate(e, es)
    cov = e['coverage']
    if e['level'] == 'proof' and cov['obligations'] != cov['discharged']:
        print('evidence', c['property_id'], 'discharged != obligations', cov['discharged'], cov['obligations']); bad = 1
print('manifest + evidence valid' if not bad else 'EVIDENCE PROBLEM'); sys.exit(bad)
PY
exit $rc
