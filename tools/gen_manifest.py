#!/usr/bin/env python3
"""Regenerates /verif/MANIFEST.json from the table below (run after adding a check)."""

import json
import os

HERE = os.path.dirname(os.path.dirname(os.path.abspath(__file__)))
BASE = json.load(open("/root/.vp/BASELINE.json"))["cmd"].replace(" --junitxml=<file>", "")

LEVEL_NOTE_MODELS = (
    "trusted: the pdtv symbolic executor + z3/cvc5; the library models of polars / SQLAlchemy+SQLite (pdtv/plmodel.py, pdtv/sqlmodel.py; "
    "axioms listed in the evidence, conformance-tested only on a value grid); import-time tables are computed by the real code, not proved; "
    "values are mathematical ints/reals except Int64 wrap-around of polars + - *"
)

CLAIMED = {
    "C03": dict(
        text="Proof relative to the library models: for every element-wise operator in the documented table, every declared overload and operand shape, the real "
        "ColFn tree is compiled by the real polars.compile_col_expr / SqliteImpl.compile_col_expr (+ the real @impl function) with `pl`/`sqa` bound to the models, "
        "all paths are enumerated, and z3 discharges den(compiled) == documented value for all operand values (nulls, signs, zero, int64 wrap-around). "
        "Vararg lengths > 2 and case/map branch counts are bounded stand-ins and are reported separately, never counted as discharged.",
        design_ref="DESIGN.md §5.3",
        technique="symbolic execution of the real functions + z3 VCs against a spec table",
        note=LEVEL_NOTE_MODELS,
    ),
    "C04": dict(
        text="Proof relative to the library models and an abstract group model (rows, nn_count, nn_sum, ... uninterpreted): for every aggregate x column type x backend x "
        "context (grouped/ungrouped summarize, window use with partition_by) x filter=, the real ColFn tree built by the real ColFn.__init__ is compiled by the real "
        "compile_col_expr of both backends and z3 discharges den == documented null-ignoring aggregate. One-row-per-group (A3) is a library axiom here, not proved.",
        design_ref="DESIGN.md §5.4",
        technique="symbolic execution of the real functions + z3 VCs over an abstract group model",
        note=LEVEL_NOTE_MODELS + "; group-level functions are uninterpreted (both engines assumed to compute the same sums/extrema)",
    ),
    "C18": dict(
        text="Proof relative to the library models, with z3's string + regular-expression theory: for every operator position that takes a string literal and every literal of a "
        "fixed metacharacter alphabet (SQL quotes/comments, LIKE %, _, escape char, regex metacharacters, newline, non-ASCII, empty), the real tree is compiled by the real "
        "compile_col_expr of both backends and the value for an arbitrary (symbolic) column string equals the literal string function; LIKE patterns are modelled exactly "
        "(autoescape rendering + LIKE/ESCAPE semantics as regex), raw text / custom operators in the compiled SQL are rejected (L1).",
        design_ref="DESIGN.md §5.18",
        technique="symbolic execution of the real functions + z3 string/regex VCs",
        note=LEVEL_NOTE_MODELS + "; literal alphabet is a fixed finite list, column values are unbounded; SQLAlchemy's literal quoting is trusted; SQLite LIKE case-insensitivity (library warns) is not re-reported",
    ),
    "C05": dict(
        text="Mixed: (proof) merge_desc_nulls_last orders two arbitrary rows like (key, descending, nulls_last) under the dense-rank model, for Int/Float/String keys and all flag "
        "combinations; shift(n) = row offset -n for symbolic n on both backends; the order-restoration lemma. (bounded, reported as stand-ins) marker peeling up to depth 4, "
        "dedup_order_by / compile_order over all modifier combinations, partition injection over the whole operator catalogue, and the exact shape of the Polars / SQL "
        "window compilation (same keys and flags in both sort_by calls; OVER (PARTITION BY .. ORDER BY ..)). The Arrange verb branches and the row-set seen by windows are "
        "decided by C02 / C08.",
        design_ref="DESIGN.md §5.5",
        technique="symbolic execution of the real functions + z3 VCs (two-row relational); structural contracts evaluated on the real code",
        note=LEVEL_NOTE_MODELS + "; polars rank/sort_by/over and SQL OVER/LAG/LEAD semantics are axioms",
    ),
    "C13": dict(
        text="Two parts. (proof) the loop contract of best_signature_match: the real loop body, cut from the source AST on every run, preserves the invariant `best_index is the first "
        "argmin of the lexicographic distance` for a generic iteration, so the result is the first minimal index for candidate lists of any length; sig_distance is the "
        "component-wise cost sum. (exhaustive evaluation, reported as bounded stand-ins) for all 96 operators and every argument tuple over a finite type universe "
        "(all constructors x const; parameters of Decimal/String/Enum/List by region representatives) the real return_type / ColFn.dtype / get_impl are evaluated: no internal "
        "error, declaration-order independence, sized-type uniformity, const acceptance / rejection, Tyvar-free results.",
        design_ref="DESIGN.md §5.13",
        technique="loop-invariant VCs on the extracted loop body (z3) + exhaustive evaluation of the real type checker over a finite type universe",
        note="trusted: pdtv + z3 for the loop contract; CPython evaluation for the enumerations; type parameters are sampled (bounded), constructors and const-ness exhaustive; import-time tries are data",
    ),
    "C17": dict(
        text="(proof, relative to the library models) for every accepted (source, target) pair of a representative set, the real Cast tree compiled by the real Polars / SQLite cast code "
        "keeps null as null for all values, float->int truncates toward zero, bool->int is 0/1, int->float is exact, and the Polars expression is cast to the requested type. "
        "(exhaustive evaluation, bounded stand-ins) acceptance == documented table, rejection is DataTypeError at construction, engine types exist for all accepted targets, "
        "over the finite type universe.",
        design_ref="DESIGN.md §5.17",
        technique="symbolic execution of the real cast compilation + z3; exhaustive evaluation of Cast.__init__ over a finite type universe",
        note=LEVEL_NOTE_MODELS + "; engine-native text formats are uninterpreted (only null-preservation decided)",
    ),
    "C11": dict(
        category="other",
        text="Inductive-step verification conditions over abstract tables: for every table skeleton of bounded width (<= 3 columns; visibility / grouping enumerated) with SYMBOLIC column "
        "names constrained only by the invariants (Cache representation invariant M1, coupling J with the backend state, physical-name injectivity P) and every verb (select, drop, "
        "rename, mutate, filter, arrange, slice_head, group_by, ungroup, summarize, alias), the real verb function, the real Cache.update and the real polars.compile_ast (recursive "
        "call answered by the pre-state) run symbolically with all name-aliasing cases explored; z3 discharges M1/J/P, the accessors and `exported columns == columns()` for the "
        "post-state. By induction this covers all verb histories and name configurations - bounded only in table width, hence reported as a bounded stand-in, not a proof.",
        design_ref="DESIGN.md §5.11",
        technique="symbolic execution of the real verb/Cache/compile functions on bounded-width tables with symbolic names + z3 (inductive step)",
        note="trusted: pdtv + z3; LazyFrame model (pdtv/lfmodel.py); A-uuid (fresh uuids / generated names); bound: table width <= 3; SQL side (M3) and join/union steps pending",
    ),
    "C09": dict(
        category="other",
        text="Inductive-step verification conditions (same harness as C11): for bounded-width tables with symbolic names, every single-table verb and join (inner/left/full, equality and "
        "inequality predicates, cross join, user suffix) is executed through the real verb function, Cache.update and the real Polars / SQL compile_ast; z3 discharges that every uuid "
        "in scope afterwards still addresses the same data token (Polars: physical column of the frame model; SQL: underlying column of sqa_expr[u]) and that new columns are computed "
        "from pre-state data only; reference resolution (C.name -> current name, Col -> uuid, derived[col].name, foreign references rejected) is proved for symbolic names. Bounded in "
        "table width only.",
        design_ref="DESIGN.md §5.9",
        technique="symbolic execution of the real verb/Cache/compile functions on bounded-width tables with symbolic names + z3 (inductive step, data-identity tokens)",
        note="trusted: pdtv + z3; LazyFrame / SQL structural models; A-uuid; bound: table width <= 3 (joins: 2+2)",
    ),
    "C06": dict(
        category="other",
        text="Inductive-step verification conditions with TWO pre-state tables (bounded width, symbolic and possibly colliding names, visible and hidden columns): the real join verb "
        "(suffix search, rename of right columns), Cache.update and the real Polars / SQL compile_ast are executed symbolically for inner/left/full joins, swapped equalities, user "
        "suffix, cross join and inequality predicates; z3 discharges the names rule (left names unchanged, right names kept or suffixed, pairwise distinct, no column lost), the "
        "Cache invariant, the coupling with both backend states and the shape of the emitted join (kind, keys from the proper side, coalesce=False, SQL outer/full flags). "
        "Row semantics of the engine joins are library axioms. Bounded in table width.",
        design_ref="DESIGN.md §5.6",
        technique="symbolic execution of the real join verb/Cache/compile functions on bounded-width tables with symbolic names + z3 string theory (inductive step)",
        note="trusted: pdtv + z3 (strings); LazyFrame / SQL structural models; A-uuid; bound: widths 1-2 per side",
    ),
    "C07": dict(
        category="other",
        text="Inductive-step verification conditions with two pre-state tables (bounded width, symbolic names; hidden columns whose names may equal visible names of either side): the real "
        "union verb, Cache.update and the real Polars / SQL compile_ast are executed symbolically; z3 discharges the refusal rules (different visible name sets, grouped side -> ValueError; "
        "different backends -> TypeError; nothing else refused), result names/order = left, alignment of every result column with the right VISIBLE column of the same name (not a hidden "
        "one, not by position), UNION vs UNION ALL / pl.union(distinct) selection, and that hidden columns leave the scope. Engine union semantics are library axioms. Bounded in width.",
        design_ref="DESIGN.md §5.7",
        technique="symbolic execution of the real union verb/Cache/compile functions on bounded-width tables with symbolic names + z3 (inductive step)",
        note="trusted: pdtv + z3; LazyFrame / SQL structural models; bound: widths <= 3 per side; column types fixed (type-compatibility refusal is covered by C13's lca_type enumeration)",
    ),
    "C10": dict(
        text="(proof, static) frame obligations on the real source ASTs of 90+ functions (all verbs, preprocess_arg, check_subquery, modify_ast, Cache.*, Table accessors, expression "
        "constructors / rewriters, clone functions, backend compile functions): every attribute store, subscript store / delete, augmented assignment, mutating method call and call of a "
        "callee with a modifies clause targets an object that is fresh in the activation (literal, comprehension, constructor, copy.copy shell with re-bound fields, callee result declared "
        "fresh) or a path in the function's sidecar `modifies` clause; verbs return a fresh shell. (bounded, dynamic) in the inductive-step harness the deep fingerprint of the input tables "
        "is unchanged by every verb on every symbolic path.",
        design_ref="DESIGN.md §5.10",
        technique="modular static frame/ownership analysis over the real ASTs with sidecar modifies-clauses; dynamic fingerprint check in the symbolic step harness",
        note="trusted: the frame analysis is syntactic (aliases created by library calls or via fresh containers holding old objects are not tracked); callee effects come from the sidecar contracts; "
        "memo writes (_dtype/_ftype) are permitted; mutation inside polars / SQLAlchemy objects is not decided",
    ),
    "C08": dict(
        text="(proof) LIMIT/OFFSET composition of consecutive slice_head for symbolic limits/offsets (rows [O+k, O+k+min(n, max(L-k,0)))). (bounded: abstract clause states x verbs on width<=3 "
        "tables with symbolic names) for 36 abstract SELECT states (LIMIT, grouped/ungrouped aggregation, WHERE/HAVING, ORDER BY, window column, pending group_by) and ~18 verb variants, the real "
        "verb function, Cache.requires_subquery / check_subquery and SqlImpl.compile_ast are executed: accepted => the placement oracle `fits` (SQL evaluation order) holds; the Cache clause "
        "state stays coupled with the Query state (J6); the never-needs-it fragment is never refused; Polars never raises SubqueryError; with alias() below, a refused verb is accepted and "
        "compiles through the subquery with the right column list. Disagreements with the oracle are replayed natively Polars vs SQLite before they count.",
        design_ref="DESIGN.md §5.8",
        technique="symbolic execution of the real verb/requires_subquery/compile functions over enumerated abstract clause states + z3; oracle from SQL evaluation order",
        note="trusted: pdtv + z3; the placement oracle (pdtv/spec/clause_model.py); SQL engines follow the standard evaluation order; bound: abstract state enumeration on small tables; "
        "join / union operand placement not yet covered",
    ),
    "C16": dict(
        category="other",
        text="Bounded stand-ins of three kinds: (symbolic names, inductive step) alias() maps every in-scope uuid bijectively onto fresh uuids and the Cache is the isomorphic image (unchanged for "
        "keep_col_refs=True), transfer_col_references keeps names/order, takes the uuids of ref_source by name and raises ValueError iff a name is missing; (structural contracts on real nodes, "
        "child clone = contract incl. out-of-scope uuids) every _clone implementation returns a fresh node, leaves the original untouched, re-roots every column reference through uuid_map / "
        "nd_map, gives fresh uuids to new columns and re-keys an alias' map; (native execution) collect() keeps names, order, data, types, origin references and grouping on 8 pipelines, "
        "self-joins of aliased tables run on Polars and SQLite with distinct SQL aliases.",
        design_ref="DESIGN.md §5.16",
        technique="symbolic step harness + structural clone contracts + native execution (all bounded)",
        note="trusted: pdtv + z3; bounded in table width / node instances / pipelines; Polars and SQLite execution for X3/X5",
    ),
    "C02": dict(
        category="other",
        text="Inductive-step verification conditions on abstract tables (bounded width, symbolic names) with a frame model that records, per physical column, the data token it holds and the "
        "history of row operations: for select, drop, rename, mutate (one keyword; two keywords where the second references a column the first overwrites), filter (two predicates), arrange "
        "(flags), slice_head, group_by, ungroup, alias, the real verb function builds the documented node (V1), the real polars.compile_ast applies exactly the documented row operation and "
        "computes new columns from PRE-state data while all other column data is untouched (V2), and SqlImpl.compile_ast appends exactly the predicates to WHERE, prepends the sort keys, sets "
        "LIMIT/OFFSET and adds labelled expressions over pre-state columns (V3). Expression values are C03-C05, foldability is C08.",
        design_ref="DESIGN.md §5.2",
        technique="symbolic execution of the real verb/compile functions on bounded-width tables with symbolic names + z3 (inductive step, data tokens + row-operation history)",
        note="trusted: pdtv + z3; LazyFrame axioms (filter/sort/slice/with_columns) and the SQL clause model; bound: table width <= 3",
    ),
    "C14": dict(
        category="other",
        text="Bounded native enumeration plus two structural obligations: every rejection rule of the property (type errors, non-boolean filter/on, window/aggregate functions in filter/summarize/on, "
        "nested aggregate/window, non-aggregated columns, unknown/hidden/foreign columns, duplicate names, grouped/same-origin/different-backend joins and unions, slice_head on grouped, markers "
        "outside arrange) is instantiated at every syntactic position (top level, arithmetic, case value/default/condition, function argument, doubly nested, context kwargs, C.-references) after "
        "four verb histories on Polars and SQLite; the verb call must raise the documented exception class, identically on both backends, and leave the input usable. iter_children / "
        "map_children of every expression class must enumerate exactly the ColExpr-typed fields (what makes the rules hold wherever nested); the validation layer must not read the backend. "
        "The converse (accepted => exports on Polars) is carried by the step obligations of C02/C06/C07/C09/C11.",
        design_ref="DESIGN.md §5.14",
        technique="rule x position x history x backend enumeration on the real verbs (native execution) + traversal-completeness contract + static scan",
        note="bounded: ~130 rule/position instances x 4 histories x 2 backends on one concrete table; not a proof",
    ),
    "C19": dict(
        category="other",
        text="Totality and determinism of SQL compilation evaluated on the REAL SQLAlchemy dialect compilers for SQLite, PostgreSQL and SQL Server (engines constructed offline with stand-in "
        "DBAPI modules; nothing connects): every operator x accepted signature (one representative type per family, plain / const / null literal) in a one-verb pipeline, and 18 multi-verb "
        "pipelines (subqueries through alias, joins, self-join, unions, grouping/having, windows, casts, case, slices), build one SELECT text or raise NotSupportedError / SubqueryError - never "
        "an internal error; the same pipeline built twice and rebuilt from fresh tables gives the same text without uuid-like tokens. One static obligation holds for all inputs: every @impl "
        "function of every backend module returns a value on every path.",
        design_ref="DESIGN.md §5.19",
        technique="native enumeration on the real dialect compilers (bounded) + static definite-return analysis of all @impl functions",
        note="trusted: SQLAlchemy compilers; stand-in DBAPI modules only make engine construction possible; DuckDB / DB2 not importable here; bounded enumeration",
    ),
    "C01": dict(
        category="other",
        text="C01 is the composition of the per-construct cross-backend obligations discharged under C02-C09, C11, C16, C17 (each proves or bounds den_sqlite(compile_sql(c)) == den_polars(compile_polars(c)) for one "
        "construct under the callee contract of the child pipeline). Decided here: a static dispatch-totality contract (both compilers and Cache.update have a branch for every Verb subclass and recurse into "
        "nd.child exactly once, so no verb escapes the per-verb obligations), and a bounded stand-in for the composition itself: every pipeline over a 30-step alphabet up to depth 3 (quick) / 4 (thorough), plus "
        "103 expression steps (window functions x ordering markers x partitioning, aggregates with filter=, case, arithmetic, strings, casts) in 16 context pipelines, seeded random pipelines of 4-6 steps, hidden columns "
        "referenced through earlier table objects, and an operator sweep (every operator x accepted signature x sample columns / literals / an untyped None, aggregates and window functions in their contexts), on four input "
        "tables (nulls and duplicates, empty, single row, 120 rows with a 40-row null prefix), is executed on Polars and on in-memory SQLite and compared in names, order and rows (sequence when an arrange on a unique key "
        "fixes the order, multiset otherwise); only SubqueryError / NotSupportedError may differ.",
        design_ref="DESIGN.md §5.1",
        technique="static dispatch-totality contract + bounded native Polars-vs-SQLite differential over enumerated pipelines",
        note="bounded: step alphabet, depth, four input tables; the unbounded argument is the composition of other properties' obligations and is not re-proved here",
    ),
    "C15": dict(
        category="other",
        text="Every documented equivalence (mutate/filter split, group_by+arrange+mutate vs partition_by/arrange arguments, drop vs select of the complement, rename and its inverse, slice_head chain vs combined "
        "slice, inner_join vs cross_join+filter, map vs when/then, is_in vs chained equality, union with swapped operands) is instantiated after 16 context pipelines on three (quick) / four (thorough) input tables on "
        "Polars and SQLite; both sides are executed and compared. Two structural obligations hold for all data: group_by + mutate hands the backends the same expression tree as an explicit partition_by; drop builds "
        "the same Select node as select(complement). The unbounded counterparts (map/is_in definitions, slice arithmetic, rename metadata) are obligations of C03, C08, C09/C11.",
        design_ref="DESIGN.md §5.15",
        technique="bounded native execution of both sides of each equivalence (Polars and SQLite) + structural node-equality obligations",
        note="bounded: contexts x input tables; inner_join vs cross_join+filter is compared by column position because the documented suffix rule depends on the columns used in `on`",
    ),
    "C20": dict(
        category="other",
        text="A static contract on the export verb (every non-frame target has a branch that evaluates `table >> export(Polars())`; ColExpr.export goes through get_expr_as_table) and a bounded native comparison: for "
        "every pipeline of up to two steps of the C01 alphabet plus null-only, single-cell, empty, one-row and one-column results, on Polars and SQLite, Polars(lazy=True) collected, Pandas, DictOfLists, ListOfDicts, "
        "Dict, Scalar (guards raise TypeError exactly when documented), ColExpr.export of each visible column, Table(exported frame) and collect() agree with export(Polars()) in names, order, values and dtypes.",
        design_ref="DESIGN.md §5.20",
        technique="static branch contract + bounded native comparison of all export targets on enumerated pipelines",
        note="bounded: pipelines of depth <= 2 x input tables x two backends; polars converters (item, to_dicts, to_dict, to_pandas) trusted",
    ),
    "C12": dict(
        category="other",
        text="Bounded enumerations on the real code: (type universe) Dtype.from_polars(to_polars(t)) == t and lca_type is an order-independent upper bound without internal errors; (native "
        "execution on a 3-row sample frame with nulls) for every operator x accepted signature over 11 concrete column types plus const / null literals, and for every accepted cast pair, "
        "the dtype of the column exported by the real Polars backend is a subtype of - for concrete static types equal to - the static type of the expression; on SQLite the type family "
        "agrees; export -> Table(frame) and collect() reproduce the exported types.",
        design_ref="DESIGN.md §5.12",
        technique="exhaustive evaluation over a finite type universe + native execution of every operator/signature on sample frames (bounded)",
        note="bounded: type parameters sampled; one sample frame (the exported dtype is a property of the plan); Polars and SQLite engines trusted",
    ),
}

NOT_YET = "check not built yet (engine under construction); will be claimed as soon as its obligations discharge"


def main():
    props = [json.loads(line) for line in open(os.path.join(HERE, "properties.jsonl"))]
    checks, na = [], []
    for p in props:
        pid = p["id"]
        if pid in CLAIMED:
            c = CLAIMED[pid]
            checks.append(
                {
                    "property_id": pid,
                    "quick_cmd": f"./check {pid} --tier quick",
                    "thorough_cmd": f"./check {pid} --tier thorough",
                    "evidence_file": f"evidence/{pid}.json",
                    "replay_cmd_template": f"./check {pid} --replay {{path}}",
                    "engine": "pdtv",
                    "level_claimed": {"category": c.get("category", "proof"), "text": c["text"], "design_ref": c["design_ref"]},
                    "level_note": c["note"],
                    "technique": c["technique"],
                }
            )
        else:
            na.append({"property_id": pid, "reason": NA.get(pid, NOT_YET)})
    m = {
        "version": 1,
        "setup_cmd": "./setup.sh",
        "hooks": {
            "guard": "PYDIVERSE_TRANSFORM_VERIF",
            "enable": "no hooks are needed: contracts are sidecars in /verif, the checks import /repo/src as it is",
            "baseline_off_cmd": BASE,
            "source_commits": [],
            "add_only": True,
        },
        "engines": [
            {
                "name": "pdtv",
                "path": "pdtv/",
                "serves_properties": sorted(CLAIMED),
                "kind_free_text": "contract checker: symbolic execution of the real function objects / source ASTs of /repo with z3-backed proxy values, "
                "sidecar contracts and library models; VCs discharged by z3 5.1 (cvc5 for z3's unknowns); counter-models replayed on the real code",
            }
        ],
        "checks": checks,
        "notes": "exit codes: 0 all obligations discharged (known findings printed as KNOWN-FINDING), 1 VIOLATION, 2 undecided, 3 tool error. See DESIGN.md.",
        "not_applicable": na,
    }
    json.dump(m, open(os.path.join(HERE, "MANIFEST.json"), "w"), indent=1)
    print(f"{len(checks)} checks, {len(na)} not_applicable")


NA = {}

if __name__ == "__main__":
    main()
